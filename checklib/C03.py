"""C03 - control flow and lexical scoping follow the abstract machine (parse.c stmt/scopes, codegen.c gen_stmt).

Three legs on every run (DESIGN 3.3):
  (a) text tie      model genStmt(parseStmt nest)  ==  control skeleton of `chibicc -S` on the same nest
                    (labels, jumps, compare ladder with immediates, calls of m/c/in), label numbers included;
  (b) behaviour     chibicc-built object vs gcc-built twin of the same source under one harness (traces of m/c/in/r events);
                    Spec.exec (Lean, through drv_c03 exec) vs both on the structured fragment; Spec.execG (the small-step
                    abstract machine of C03_preserve_goto_partial, drv_c03 execg) vs both on EVERYTHING (goto, goto *&&L,
                    Duff's device); the model's own machine on the model's code (drv_c03 mrun) vs chibicc on everything;
  (c) scoping       generated shadowing programs; which declaration each use bound to: scope model vs chibicc vs gcc.
  (fun) whole functions of the integer fragment (checklib/C03fun.py; theorem C03_function_correct_partial = C03's statements over
                    C01's expressions): compileFn's text == `chibicc -S` (instructions, labels, jump targets, counters); abstract
                    machine execF == model machine runF on the model code == compiled program == gcc.
"""
import os, sys, json, hashlib, itertools, shutil
from .framework import *
from . import C03fun

PROPERTY = 'C03'
GEN_MODULES = ['commontype', 'casttable']     # the tables C01's compileJ (the expression holes of Model/C03Fun) is built on
LEAN_TARGETS = ['ChibiVerif.Props.C03', 'ChibiVerif.Props.C03Fun', 'ChibiVerif.Findings.C03']
PROPS_FILES = ['ChibiVerif/Props/C03.lean', 'ChibiVerif/Props/C03Fun.lean']
NEEDS_HOOKS = False
TRUSTED_BASE = [
    'Lean 4.33.0 kernel; axioms admitted: propext, Classical.choice, Quot.sound (audited per theorem on every run)',
    'hand-written models lean/ChibiVerif/Model/Stmt.lean (parse.c stmt label/context bookkeeping, resolve_goto_labels, '
    'codegen.c gen_stmt control skeleton, a 14-instruction machine) and Model/Scope.lean (enter/leave/push/find); tied on every '
    'run by text equality of the control skeleton with `chibicc -S` and by trace equality of compiled programs',
    'Spec/ControlSpec.lean and Spec/ControlSpecG.lean (my reading of C11 6.8, GNU case ranges and labels as values; the second is '
    'a continuation machine in the style of CompCert Clight), validated against gcc 12 by running the same programs',
    'the skeleton abstraction: argument set-up and call sequence of m/c/in are one pseudo-instruction (calls are C06), casts of '
    'the switch operand are dropped (C01); expression-level control (&& || ?: , statement expressions) is outside the Lean '
    'model and checked only behaviourally against gcc',
    'per-scope tables are association lists: justified by C17 (Lemmas/ScopeLemmas.lean proves the chain of hashmap.c tables '
    'refines the chain of dictionaries)',
    'Model/C03Fun.lean (whole functions of the integer fragment: FStmt, the abstract machine execF = the big-step machine of '
    'Spec/ControlSpec with Spec/IntSpec evalE for the oracle, compileF = gen_stmt with C01\'s compileJ in every expression hole, '
    'the label machine runF = Model/X86Jump with the statement-level label families, proved equal to it: C03_function_machine); '
    'tied on every run by exact text equality with `chibicc -S` on generated functions (instructions, labels, jump targets, the '
    'three counters, frame layout) and by running execF, runF on the model code, the chibicc-built and the gcc-built program; '
    'inherits the trusted base of C01 for expressions (Spec/IntSpec, Model/X86, Model/C01Expr*, regenerated cast / common-type tables)',
    'tools/harness/c03_harness.c, the generators and the comparison in checklib/C03.py, checklib/C03fun.py; gcc 12 -O0 is the reference compiler, '
    'clang-14 -O0 arbitrates when chibicc and gcc differ (a difference counts against chibicc only if it differs from every '
    'reference that ran; gcc-vs-clang disagreements are recorded in the evidence)',
]
ASSUMPTIONS = ['programs are valid GNU C11: case values distinct and ranges non-empty in the controlling type, labels unique per function',
               'latitude (lead decision, DESIGN C03): a case range that is non-empty as `long` but empty after conversion to the '
               'controlling type (gcc: warning "empty range specified", never matches; chibicc: wrapped interval), and an unsigned long '
               'range crossing 2^63 (chibicc: rejected as empty) are outside the property; generators exclude them (skipped_latitude)',
               'case constants lie in the range of the promoted controlling type (conversion of out-of-range constants is implementation-defined)']

LIMIT = 400
M64 = (1 << 64) - 1
SKIPPED = {'skipped_latitude': 0}   # generator rejections inside the recorded latitude (flushed into corr.distribution)

# ------------------------------------------------------------------------------------------------ types

TYPES = {  # name -> (bits, signed)
    'char': (8, True), 'signed char': (8, True), 'unsigned char': (8, False),
    'short': (16, True), 'unsigned short': (16, False),
    'int': (32, True), 'unsigned': (32, False),
    'long': (64, True), 'unsigned long': (64, False),
}

def trange(T):
    b, s = TYPES[T]
    return (-(1 << (b - 1)), (1 << (b - 1)) - 1) if s else (0, (1 << b) - 1)

def promoted(T):
    b, s = TYPES[T]
    return (32, True) if b < 32 else (b, s)

def prange(T):
    b, s = promoted(T)
    return (-(1 << (b - 1)), (1 << (b - 1)) - 1) if s else (0, (1 << b) - 1)

def as_long(x):
    """the value a C `long` holds for the mathematical value x taken mod 2^64"""
    x &= M64
    return x - (1 << 64) if x >> 63 else x

def lit(x, T):
    """C spelling of the constant x (a value of the promoted type of T)"""
    b, s = promoted(T)
    if not s:
        return ('0x%xU' % x) if b == 32 else ('0x%xUL' % x)
    if x == -(1 << 63):
        return '(-9223372036854775807L-1)'
    if x == -(1 << 31):
        return '(-2147483647-1)'
    return str(x) + ('L' if b == 64 else '')

# ------------------------------------------------------------------------------------------------ trees

def sx(t):
    k = t[0]
    if k in ('skip', 'break', 'continue', 'ret'):
        return k
    if k == 'm':
        return f'(m {t[1]})'
    if k == 'block':
        out = 'skip'
        for it in reversed(t[1]):
            out = f'(seq {sx(it)} {out})'
        return f'(block {out})'
    if k == 'if':
        return f'(if {t[1]} {sx(t[2])} {sx(t[3])})'
    if k == 'for':
        o = lambda v: '-' if v is None else str(v)
        return f'(for {o(t[1])} {o(t[2])} {o(t[3])} {sx(t[4])})'
    if k == 'do':
        return f'(do {sx(t[1])} {t[2]})'
    if k == 'switch':
        b, s = promoted(t[1])
        return f"(switch {b} {'s' if s else 'u'} {t[2]} {sx(t[3])})"
    if k == 'case':
        return f'(case {t[1]} {t[2]} {sx(t[3])})'
    if k == 'default':
        return f'(default {sx(t[1])})'
    if k == 'goto':
        return f'(goto {t[1]})'
    if k == 'gotoval':
        return f'(gotoval {t[1]})'
    if k == 'label':
        return f'(label {t[1]} {sx(t[2])})'
    raise ValueError(k)

# Label names.  The model names labels by numbers and compares them for equality; the C text spells label n with an injective
# naming scheme chosen per translation unit, so that name comparison in parse.c resolve_goto_labels is exercised on names that
# are proper prefixes of one another (in both orders of definition) and on names that also denote something in another name
# space (the functions m, c, in, r, f0, main; cleanup-ladder and dispatch-table spellings).
LABEL_BASES = ['m', 'c', 'in', 'r', 'out', 'out_err', 'x', 'xx', 'L1', 'L10', 'L11', 'f0', 'main', 'o', 'op', 'op_add', 'op_add2',
               'out_err2', 'xxx', 'L100', 'in_', 'r2']
LABEL_SCHEMES = 5
LABEL_SCHEME = 0

def lname(n):
    sch = LABEL_SCHEME
    if sch == 1:
        return 'L' + '1' * n                    # L1, L11, L111: every name a proper prefix of the next
    if sch == 2:
        return 'x' * (40 - n) if n < 40 else f'M{n}'    # the other way round: smaller numbers have the longer names
    if sch == 3:
        k, r = (n - 1) % len(LABEL_BASES), (n - 1) // len(LABEL_BASES)
        return LABEL_BASES[k] + '_' * r
    if sch == 4:
        k, r = (n * 7) % len(LABEL_BASES), n // len(LABEL_BASES)
        return LABEL_BASES[k] + '_' * r
    return f'L{n}'

def simple(t):
    return t[0] in ('m', 'break', 'continue', 'ret', 'goto', 'gotoval', 'block', 'skip', 'do')

def to_c(t, ind=1, style=0, safe=True):
    """C text of a tree.  `style` varies spellings that denote the same tree (while/for, omitted else).  `safe`: an `if`
    without `else` printed here cannot capture the `else` of an enclosing `if`."""
    p = '  ' * ind
    k = t[0]
    if k == 'skip':
        return p + ';\n'
    if k == 'm':
        return p + f'm({t[1]});\n'
    if k == 'break':
        return p + 'break;\n'
    if k == 'continue':
        return p + 'continue;\n'
    if k == 'ret':
        return p + 'return;\n'
    if k == 'goto':
        return p + f'goto {lname(t[1])};\n'
    if k == 'gotoval':
        return p + f'goto *&&{lname(t[1])};\n'
    if k == 'block':
        return p + '{\n' + ''.join(to_c(x, ind + 1, style, True) for x in t[1]) + p + '}\n'
    if k == 'if':
        s = p + f'if (c({t[1]}))\n' + to_c(t[2], ind + 1, style, False)
        if t[3][0] == 'skip' and safe and (t[1] + style) % 2 == 0:
            return s
        return s + p + 'else\n' + to_c(t[3], ind + 1, style, safe)
    if k == 'for':
        i, c, n, body = t[1:]
        if i is None and n is None and c is not None and (c + style) % 2 == 0:
            return p + f'while (c({c}))\n' + to_c(body, ind + 1, style, safe)
        f = lambda v, fn: '' if v is None else f'{fn}({v})'
        return p + f"for ({f(i, 'm')}; {f(c, 'c')}; {f(n, 'm')})\n" + to_c(body, ind + 1, style, safe)
    if k == 'do':
        return p + 'do\n' + to_c(t[1], ind + 1, style, True) + p + f'while (c({t[2]}));\n'
    if k == 'switch':
        return p + f'switch (({t[1]})in({t[2]}))\n' + to_c(t[3], ind + 1, style, safe)
    if k == 'case':
        lo, hi, s, lot, hit = t[1], t[2], t[3], t[4], t[5]
        head = f'case {lot}:' if lo == hi and lot == hit else f'case {lot} ... {hit}:'
        return p + head + '\n' + to_c(s, ind + 1, style, safe)
    if k == 'default':
        return p + 'default:\n' + to_c(t[1], ind + 1, style, safe)
    if k == 'label':
        return p + f'{lname(t[1])}:\n' + to_c(t[2], ind + 1, style, safe)
    raise ValueError(k)

def children(t):
    k = t[0]
    if k == 'block':
        return list(t[1])
    if k == 'if':
        return [t[2], t[3]]
    if k == 'for':
        return [t[4]]
    if k == 'do':
        return [t[1]]
    if k == 'switch':
        return [t[3]]
    if k == 'case':
        return [t[3]]
    if k in ('default',):
        return [t[1]]
    if k == 'label':
        return [t[2]]
    return []

def with_children(t, ch):
    k = t[0]
    if k == 'block':
        return ('block', list(ch))
    if k == 'if':
        return ('if', t[1], ch[0], ch[1])
    if k == 'for':
        return ('for', t[1], t[2], t[3], ch[0])
    if k == 'do':
        return ('do', ch[0], t[2])
    if k == 'switch':
        return ('switch', t[1], t[2], ch[0])
    if k == 'case':
        return ('case', t[1], t[2], ch[0], t[4], t[5])
    if k == 'default':
        return ('default', ch[0])
    if k == 'label':
        return ('label', t[1], ch[0])
    return t

def size(t):
    return 1 + sum(size(c) for c in children(t))

def depth(t):
    """nesting depth of control statements (if / loops / switch)"""
    return (1 if t[0] in ('if', 'for', 'do', 'switch') else 0) + max([depth(c) for c in children(t)] or [0])

def forms(t, acc=None):
    acc = acc if acc is not None else {}
    acc[t[0]] = acc.get(t[0], 0) + 1
    for c in children(t):
        forms(c, acc)
    return acc

def valid(t, inloop=False, insw=False, labels=None, top=True):
    """structural validity of a tree as a C function body (what gcc would accept)"""
    if top:
        labs = []
        def collect(x):
            if x[0] == 'label':
                labs.append(x[1])
            for c in children(x):
                collect(c)
        collect(t)
        if len(labs) != len(set(labs)):
            return False
        labels = set(labs)
    k = t[0]
    if k == 'break':
        return inloop or insw
    if k == 'continue':
        return inloop
    if k in ('goto', 'gotoval'):
        return t[1] in labels
    if k in ('case', 'default'):
        return insw and valid(children(t)[0], inloop, insw, labels, False)
    if k in ('for', 'do'):
        return valid(children(t)[0], True, insw, labels, False)
    if k == 'switch':
        return valid(t[3], inloop, True, labels, False)
    return all(valid(c, inloop, insw, labels, False) for c in children(t))


class CaseAlloc:
    """hands out pairwise disjoint case intervals of one switch, in the promoted type of T"""
    def __init__(self, rng, T):
        self.rng, self.T = rng, T
        self.used = []            # (lo, hi) mathematical values in the promoted type
        self.has_default = False
        lo, hi = prange(T)
        self.lo, self.hi = lo, hi
        pts = [lo, lo + 1, hi - 1, hi, 0, 1, 2, 3, 5, 7, 100, 127, 128, 255, 256, 32767, 32768, 65535, 65536,
               (1 << 31) - 1, 1 << 31, (1 << 32) - 1, 1 << 32, (1 << 32) + 1, (1 << 32) + 5, (1 << 63) - 1,
               -1, -2, -3, -128, -129, -32768, -32769, -(1 << 31), -(1 << 31) - 1, -(1 << 32), -(1 << 32) - 1]
        tl, th = trange(T)
        pts += [tl, th, tl - 1, th + 1]
        self.pts = [p for p in pts if lo <= p <= hi]

    def free(self, a, b):
        return all(b < x or y < a for x, y in self.used)

    def take(self):
        rng = self.rng
        for _ in range(20):
            a = rng.choice(self.pts) if rng.random() < 0.75 else rng.randint(max(self.lo, -300), min(self.hi, 300))
            if rng.random() < 0.35:
                b = a + rng.choice([1, 2, 3, 4, 8, 100, 197, (1 << 31), (1 << 32), (1 << 33)])
                if rng.random() < 0.08:
                    b = self.hi
                    if rng.random() < 0.5:
                        a = self.lo
            else:
                b = a
            if b > self.hi:
                b = self.hi
            if a > b or not self.free(a, b):
                continue
            # parse.c compares the bounds as signed long: a range whose long patterns are out of order is rejected
            # ("empty case range") although it is non-empty in an unsigned long controlling type: outside the property
            if as_long(a) > as_long(b):
                SKIPPED['skipped_latitude'] += 1
                continue
            self.used.append((a, b))
            return a, b
        return None


class NestGen:
    """random statement nests.  mode 'structured': the fragment of C03_preserve_partial.  mode 'free': additionally
    goto / computed goto / labels and case labels nested inside other statements (Duff's device)."""
    def __init__(self, rng, mode, maxdepth, T):
        self.rng, self.mode, self.maxdepth, self.T = rng, mode, maxdepth, T
        self.k = 0
        self.nlab = 0
        self.allocs = []

    def fresh(self):
        self.k += 1
        return self.k

    def function(self):
        body = self.block(self.maxdepth, False, None, top=True)
        labels = []
        def collect(x):
            if x[0] == 'label':
                labels.append(x[1])
            for c in children(x):
                collect(c)
        collect(body)
        def patch(x):
            if x[0] in ('goto', 'gotoval'):
                if not labels:
                    return ('m', self.fresh())
                return (x[0], self.rng.choice(labels))
            return with_children(x, [patch(c) for c in children(x)])
        return patch(body)

    def block(self, d, inloop, sw, top=False, swbody=False):
        rng = self.rng
        n = rng.choice([1, 2, 2, 3, 3, 4]) if d > 1 else rng.choice([1, 1, 2])
        if swbody:
            n = rng.choice([2, 3, 4, 5, 6])
        items = []
        for i in range(n):
            s = self.stmt(d - 1, inloop, sw)
            if swbody:
                s = self.prefix(s, sw, rng.choice([0, 1, 1, 1, 2]))
            items.append(s)
        return ('block', items)

    def prefix(self, s, sw, n):
        rng = self.rng
        for _ in range(n):
            if not sw.has_default and rng.random() < 0.22:
                sw.has_default = True
                s = ('default', s)
                continue
            iv = sw.take()
            if iv is None:
                continue
            a, b = iv
            T = sw.T
            lot, hit = lit(a, T), lit(b, T)
            pb, ps = promoted(T)
            if not ps and a == b and a >= (1 << (pb - 1)) and rng.random() < 0.5:
                # negative spelling of an unsigned constant: the conversion is modulo 2^w (6.3.1.3p2)
                lot = hit = str(a - (1 << pb)) + ('L' if pb == 64 else '')
                a = b = a - (1 << pb)
            s = ('case', as_long(a), as_long(b), s, lot, hit)
        return s

    def stmt(self, d, inloop, sw):
        rng = self.rng
        free = self.mode == 'free'
        leaf = [('m', 6), ('skip', 1)]
        if inloop or sw:
            leaf.append(('break', 3))
        if inloop:
            leaf.append(('continue', 3))
        leaf.append(('ret', 0.4))
        if free:
            leaf += [('goto', 1.5), ('gotoval', 0.5)]
        comp = [('if', 5), ('for', 4), ('do', 2.5), ('switch', 4), ('block', 3)]
        if free:
            comp.append(('label', 2))
        pool = leaf if d <= 0 else leaf + comp + comp
        k = rng.choices([p[0] for p in pool], [p[1] for p in pool])[0]
        s = self.make(k, d, inloop, sw)
        if free and sw is not None and rng.random() < 0.12:
            s = self.prefix(s, sw, 1)
        if free and rng.random() < 0.06:
            self.nlab += 1
            s = ('label', self.nlab, s)
        return s

    def make(self, k, d, inloop, sw):
        rng = self.rng
        if k == 'm':
            return ('m', self.fresh())
        if k in ('skip', 'break', 'continue', 'ret'):
            return (k,)
        if k in ('goto', 'gotoval'):
            return (k, 0)
        if k == 'block':
            return self.block(d, inloop, sw)
        if k == 'label':
            self.nlab += 1
            return ('label', self.nlab, self.stmt(d - 1, inloop, sw))
        if k == 'if':
            c = self.fresh()
            t = self.stmt(d - 1, inloop, sw)
            e = self.stmt(d - 1, inloop, sw) if rng.random() < 0.6 else ('skip',)
            return ('if', c, t, e)
        if k == 'for':
            i = self.fresh() if rng.random() < 0.3 else None
            c = self.fresh() if rng.random() < 0.85 else None
            n = self.fresh() if rng.random() < 0.4 else None
            return ('for', i, c, n, self.stmt(d - 1, True, sw))
        if k == 'do':
            body = self.stmt(d - 1, True, sw)
            return ('do', body, self.fresh())
        if k == 'switch':
            kk = self.fresh()
            T = self.T if isinstance(self.T, str) else rng.choice(self.T)
            al = CaseAlloc(rng, T)
            self.allocs.append(al)
            if rng.random() < 0.85:
                body = self.block(d, inloop, al, swbody=True)
            else:
                body = self.prefix(self.stmt(d - 1, inloop, al), al, 1)
            return ('switch', T, kk, body)
        raise ValueError(k)

    def stream(self, n):
        """oracle values: lie in the range of every switch type used (so that the cast is the identity), hit both sides of
        every case boundary"""
        rng = self.rng
        Ts = {a.T for a in self.allocs} or {'int'}
        lo = max(trange(T)[0] for T in Ts)
        hi = min(trange(T)[1] for T in Ts)
        pool = [lo, hi, 0, 1]
        for a in self.allocs:
            b, s = promoted(a.T)
            for (x, y) in a.used:
                for v in (x - 1, x, x + 1, y - 1, y, y + 1):
                    pool.append(v)
        pool = [v for v in pool if lo <= v <= hi]
        out = []
        for _ in range(n):
            x = rng.random()
            if x < 0.25:
                out.append(0)
            elif x < 0.85:
                out.append(rng.choice(pool))
            else:
                out.append(rng.randint(max(lo, -(1 << 40)), min(hi, 1 << 40)))
        return [as_long(v) for v in out]


# ------------------------------------------------------------------------------------------------ skeleton of real assembly

CALL_RE = re.compile(r'mov \$(-?\d+), %rax\npush %rax\nmov (\w+)@GOTPCREL\(%rip\), %rax\npop %rdi\nmov %rax, %r10\n'
                     r'mov \$0, %rax\ncall \*%r10\nadd \$0, %rsp\n')
KEEP = [re.compile(p) for p in (
    r'^\.L[\w.]*:$', r'^j\w+ \S+$', r'^cmp \S+, %(eax|rax|edi|rdi)$', r'^mov \$-?\d+, %(rdi|rdx)$',
    r'^mov %eax, %edi$', r'^mov %rax, %rdi$', r'^sub \$-?\d+, %(edi|rdi)$', r'^sub %rdx, %rdi$',
    r'^lea \.L\.\.\d+\(%rip\), %rax$', r'^call \w+ -?\d+$')]
DROP = [re.compile(p) for p in (
    r'^\.loc ', r'^movs[bw]l %(al|ax), %eax$', r'^movz[bw]l %(al|ax), %eax$', r'^movsxd %eax, %rax$', r'^mov %eax, %eax$')]
PROLOGUE = [r'^push %rbp$', r'^mov %rsp, %rbp$', r'^sub \$\d+, %rsp$', r'^mov %rsp, -\d+\(%rbp\)$']
EPILOGUE = [r'^mov %rbp, %rsp$', r'^pop %rbp$', r'^ret$']


class SkeletonError(Exception):
    pass


def skeletons(asm):
    """{function name: [skeleton lines]} from `chibicc -S` output; raises SkeletonError on any line it does not understand"""
    out = {}
    lines = [' '.join(l.split()) for l in asm.splitlines()]
    i = 0
    while i < len(lines):
        m = re.match(r'^(\w+):$', lines[i])
        if not m:
            i += 1
            continue
        name = m.group(1)
        j = i + 1
        body = []
        while j < len(lines) and lines[j] != 'ret':
            body.append(lines[j]); j += 1
        body.append('ret')
        i = j + 1
        body = [l for l in body if not l.startswith('.loc ')]
        for k, pat in enumerate(PROLOGUE):
            if k >= len(body) or not re.match(pat, body[k]):
                raise SkeletonError(f'{name}: unexpected prologue line {body[k] if k < len(body) else "<end>"}')
        for k, pat in enumerate(reversed(EPILOGUE)):
            if not re.match(pat, body[-1 - k]):
                raise SkeletonError(f'{name}: unexpected epilogue line {body[-1 - k]}')
        core = body[len(PROLOGUE):len(body) - len(EPILOGUE)]
        text = CALL_RE.sub(lambda mm: f'call {mm.group(2)} {mm.group(1)}\n', '\n'.join(core) + '\n')
        sk = []
        for l in text.splitlines():
            if any(p.match(l) for p in KEEP):
                sk.append(re.sub(r'^(j\w+) +', r'\1 ', l))
            elif any(p.match(l) for p in DROP):
                continue
            else:
                raise SkeletonError(f'{name}: line outside the control skeleton: {l!r}')
        out[name] = sk
    return out


# ------------------------------------------------------------------------------------------------ building and running

def build_harness(ctx):
    obj = os.path.join(ctx.scratch, 'c03_harness.o')
    if not os.path.exists(obj):
        rc, o, e = sh(['gcc', '-O1', '-w', '-c', os.path.join(VERIF, 'tools/harness/c03_harness.c'), '-o', obj], timeout=120)
        if rc != 0:
            raise RuntimeError('c03 harness does not compile: ' + e[-800:])
    return obj

PROTOS = 'void m(int);\nint c(int);\nlong in(int);\nvoid r(long);\n'

def unit_source(fn_texts):
    return PROTOS + ''.join(f'void f{i}(void)\n{t}' for i, t in enumerate(fn_texts))

def parse_runs(out):
    """harness stdout -> {i: (events, 'END'|'LIMIT'|'CRASH')}"""
    runs, cur, idx = {}, None, None
    if isinstance(out, bytes):
        out = out.decode(errors='replace')
    for l in out.splitlines():
        if l.startswith('== '):
            if idx is not None:
                runs[idx] = (cur, 'CRASH')
            idx, cur = int(l[3:]), []
        elif l in ('END', 'LIMIT', 'SPIN'):
            runs[idx] = (cur, l); idx = None
        elif idx is not None:
            cur.append(l)
    if idx is not None:
        runs[idx] = (cur, 'CRASH')
    return runs

class Built:
    pass

def build_unit(ctx, tag, src, streams, want_asm=True, with_clang=False):
    """compile one translation unit with the snapshot's chibicc and with gcc (and clang on request), link each with the
    harness, run each.  Returns Built with .asm, .cc_runs, .gcc_runs, .clang_runs ({i: (events, END|LIMIT|SPIN|CRASH)}), and
    .errors = compile/link failures [(who, text)].  A crash at run time is not an error here: the function that crashed has
    outcome CRASH and the later ones are missing; the caller arbitrates per function."""
    b = Built()
    b.errors = []
    d = os.path.join(ctx.scratch, 'c03')
    os.makedirs(d, exist_ok=True)
    path = os.path.join(d, tag + '.c')
    open(path, 'w').write(src)
    sfile = os.path.join(d, tag + '.in')
    with open(sfile, 'w') as f:
        for i, vs in enumerate(streams):
            f.write(f'F {i} {len(vs)} ' + ' '.join(str(v) for v in vs) + '\n')
    b.asm = None
    if want_asm:
        rc, o, e = sh([ctx.cc, '-S', '-o', '-', path], timeout=60)
        if rc != 0:
            b.errors.append(('chibicc -S', e[-400:]))
        else:
            b.asm = o
    h = build_harness(ctx)
    b.cc_runs = b.gcc_runs = b.clang_runs = None
    jobs = [('cc', [ctx.cc, '-c'], 'chibicc -c'), ('gcc', ['gcc', '-O0', '-w', '-c'], 'gcc -c')]
    if with_clang and shutil.which('clang-14'):
        jobs.append(('clang', ['clang-14', '-O0', '-w', '-c'], 'clang -c'))
    for who, cmd, label in jobs:
        obj = os.path.join(d, f'{tag}.{who}.o')
        exe = obj[:-2] + '.exe'
        rc, o, e = sh(cmd + ['-o', obj, path], timeout=60)
        if rc != 0:
            b.errors.append((label, e[-400:]))
            continue
        rc, o, e = sh(['gcc', '-no-pie', '-o', exe, h, obj], timeout=60)
        if rc != 0:
            b.errors.append(('link ' + who, e[-400:]))
        else:
            rc, o, e = sh([exe, sfile, str(LIMIT)], timeout=60)
            setattr(b, who + '_runs', parse_runs(o))
        for f in (obj, exe):
            try:
                os.remove(f)
            except OSError:
                pass
    return b

def cc_accepts(ctx, src):
    """does the snapshot's chibicc compile and assemble this translation unit?"""
    d = os.path.join(ctx.scratch, 'c03')
    os.makedirs(d, exist_ok=True)
    path = os.path.join(d, 'accept.c')
    open(path, 'w').write(src)
    rc, o, e = sh([ctx.cc, '-c', '-o', path + '.o', path], timeout=60)
    try:
        os.remove(path + '.o')
    except OSError:
        pass
    return rc == 0

def arbitrate(ctx, fn_text, stream):
    """one function, three compilers.  'violation' when the chibicc build differs from every reference build that ran and
    the references do not contradict each other in chibicc's favour; 'oracle' when chibicc agrees with at least one
    reference (the other reference is then the one that is wrong: e.g. gcc 12 drops the statement after an out-of-range
    `case` label when an unreachable `goto *&&L` names a label there); 'unknown' when nothing can be compared."""
    b = build_unit(ctx, 'arb', unit_source([fn_text]), [stream], want_asm=False, with_clang=True)
    cc = (b.cc_runs or {}).get(0)
    refs = {}
    for who in ('gcc', 'clang'):
        r = (getattr(b, who + '_runs') or {}).get(0)
        if r is not None and r[1] != 'CRASH':
            refs[who] = r
    info = {'chibicc': cc, 'refs': refs, 'errors': b.errors}
    if any(w.startswith('chibicc') or w == 'link cc' for w, _ in b.errors):
        return ('violation' if refs else 'unknown'), info
    if not refs:
        return 'unknown', info
    if cc is not None and any(cc == r for r in refs.values()):
        return ('same' if all(cc == r for r in refs.values()) else 'oracle'), info
    return 'violation', info

def ev_model(s):
    """'m 1;c 2' -> ['m 1','c 2']"""
    return [x for x in s.split(';') if x]

def model_unit(ctx, trees):
    text = 'unit 0 1\n' + ''.join('fn ' + sx(t) + '\n' for t in trees) + 'end\n'
    out = ctx.driver('unit', text).splitlines()
    codes = {}
    err = None
    for l in out:
        if l.startswith('code '):
            _, i, rest = l.split(' ', 2)
            codes[int(i)] = rest.split('|')
        elif l.startswith('err '):
            err = l
    return codes, err

def model_exec(ctx, trees, streams, fuel=6000):
    text = ''.join(f"{fuel} {','.join(str(v) for v in vs) or '-'} {sx(t)}\n" for t, vs in zip(trees, streams))
    res = []
    for l in ctx.driver('exec', text).splitlines():
        m = re.match(r'structured=(\w+) (done (\w+)|timeout) oi=(\d+) : (.*)$', l)
        if m:
            res.append({'structured': m.group(1) == 'true', 'how': m.group(3) or 'timeout', 'events': ev_model(m.group(5))})
        else:
            m = re.match(r'structured=(\w+) unsupported', l)
            res.append({'structured': m.group(1) == 'true' if m else None, 'how': 'unsupported', 'events': None})
    return res

def model_execg(ctx, trees, streams, fuel=60000):
    """Spec.Ctl.execG (small-step abstract machine for ALL statements: goto, goto *&&L, case labels nested anywhere) through
    drv_c03 execg.  One dict per function: valid (the constraints validG hold), gotoval, how (normal|return|break|continue|
    timeout|unsupported), events.  The driver stops (timeout) once the trace has LIMIT+64 events: the C harness stops at
    LIMIT events, only that prefix is compared."""
    text = ''.join(f"{fuel} {LIMIT + 64} {','.join(str(v) for v in vs) or '-'} {sx(t)}\n" for t, vs in zip(trees, streams))
    res = []
    for l in ctx.driver('execg', text).splitlines():
        m = re.match(r'valid=(\w+) gotoval=(\w+) jumps=(\d+) (done (\w+)|timeout) oi=(\d+) : (.*)$', l)
        if m:
            res.append({'valid': m.group(1) == 'true', 'gotoval': m.group(2) == 'true', 'jumps': int(m.group(3)),
                        'how': m.group(5) or 'timeout', 'events': ev_model(m.group(7))})
            continue
        m = re.match(r'valid=(\w+) gotoval=(\w+) jumps=(\d+) unsupported', l)
        res.append({'valid': m.group(1) == 'true' if m else None, 'gotoval': m.group(2) == 'true' if m else None, 'jumps': 0,
                    'how': 'unsupported' if m else l, 'events': None})
    return res

def model_mrun(ctx, unit_trees, streams, fuel=40000):
    """the model's code of every function of the unit on the model's machine.  Label numbers do not matter for behaviour,
    so every function is run as a unit of its own."""
    text = ''.join(f"{fuel} {','.join(str(v) for v in vs) or '-'} 0 1 {sx(t)}\n" for t, vs in zip(unit_trees, streams))
    res = []
    for l in ctx.driver('mrun', text).splitlines():
        m = re.match(r'(end|running|wild) oi=(\d+) : (.*)$', l)
        if m:
            res.append({'how': m.group(1), 'events': ev_model(m.group(3))})
        else:
            res.append({'how': l, 'events': None})
    return res

def agree(ev_impl, how_impl, ev_ref, finished_ref):
    """trace comparison honouring the event budget: a run cut at LIMIT must be a prefix-equal cut of the reference"""
    if how_impl in ('LIMIT', 'SPIN'):
        return ev_ref[:len(ev_impl)] == ev_impl and len(ev_ref) >= len(ev_impl)
    if how_impl == 'END':
        return finished_ref and ev_ref == ev_impl
    return False

def first_diff(a, b):
    for i, (x, y) in enumerate(zip(a, b)):
        if x != y:
            return i, x, y
    return min(len(a), len(b)), (a[len(b)] if len(a) > len(b) else '<end>'), (b[len(a)] if len(b) > len(a) else '<end>')


# ------------------------------------------------------------------------------------------------ shrinking

def shrink_candidates(t):
    """trees one step smaller than t"""
    ch = children(t)
    for c in ch:
        yield c
    if t[0] != 'skip' and not ch:
        yield ('skip',)
    if t[0] == 'block' and len(t[1]) > 1:
        for i in range(len(t[1])):
            yield ('block', t[1][:i] + t[1][i + 1:])
    for i, c in enumerate(ch):
        for c2 in shrink_candidates(c):
            yield with_children(t, ch[:i] + [c2] + ch[i + 1:])

def single_differs(ctx, tree, stream):
    """does the chibicc build of this one function behave differently from the reference builds?"""
    return arbitrate(ctx, to_c(tree, 0), stream)[0] == 'violation'

def shrink(ctx, tree, stream, budget=32):
    cur = tree
    progress = True
    while progress and budget > 0:
        progress = False
        for cand in shrink_candidates(cur):
            if cand[0] != 'block':
                cand = ('block', [cand])
            if size(cand) >= size(cur) or not valid(cand):
                continue
            budget -= 1
            if budget <= 0:
                break
            if single_differs(ctx, cand, stream):
                cur = cand
                progress = True
                break
    # the oracle stream: drop chunks (halving, down to single values) while the difference persists
    budget = max(budget, 0) + 40
    chunk = max(1, len(stream) // 2)
    while chunk >= 1 and budget > 0 and stream:
        i, progress = 0, False
        while i < len(stream) and budget > 0:
            cand = stream[:i] + stream[i + chunk:]
            budget -= 1
            if single_differs(ctx, cur, cand):
                stream, progress = cand, True
            else:
                i += chunk
        if chunk == 1 and not progress:
            break
        chunk = chunk // 2 if chunk > 1 else (1 if progress else 0)
    return cur, stream


# ------------------------------------------------------------------------------------------------ leg (a)+(b): statement nests

def nest_batch(ctx, corr, tag, nf, mode, maxdepth, fixed=None, search=False):
    """one translation unit of nf generated functions through all comparisons.  Returns False when something was reported.
    `search`: the tie is already known to be broken - only the implementation is compared with the reference compilers
    (every function of the unit), the model legs are skipped."""
    rng = ctx.rng
    global LABEL_SCHEME
    LABEL_SCHEME = rng.randrange(LABEL_SCHEMES)
    corr.count(f'label-naming-scheme:{LABEL_SCHEME}')
    trees, streams, gens = [], [], []
    if fixed:
        for t, vs in fixed:
            trees.append(t); streams.append(vs); gens.append(None)
    while len(trees) < nf:
        x = rng.random()
        T = rng.choice(list(TYPES)) if x < 0.8 else rng.sample(list(TYPES), 2)
        g = NestGen(rng, mode, rng.randint(2, maxdepth), T)
        t = g.function()
        if not valid(t):
            corr.count('generator-invalid')
            continue
        trees.append(t); streams.append(g.stream(rng.choice([6, 12, 24, 40]))); gens.append(g)
    if SKIPPED['skipped_latitude']:
        corr.count('skipped_latitude', SKIPPED['skipped_latitude'])
        SKIPPED['skipped_latitude'] = 0
    style = rng.randint(0, 1)
    src = unit_source([to_c(t, 0, style) for t in trees])
    b = build_unit(ctx, tag, src, streams)
    if b.errors:
        # both compilers must accept a valid program; chibicc refusing it is reported, gcc refusing it is a generator bug
        kinds = [k for k, _ in b.errors]
        if any('gcc' in k for k in kinds):
            corr.disagreements.append({'kind': 'generator produced a program gcc rejects', 'errors': b.errors, 'source': src[:3000]})
        else:
            # which function?  compile each alone, then minimise the first one chibicc refuses
            small = None
            for i, t in enumerate(trees):
                if not cc_accepts(ctx, unit_source([to_c(t, 0, style)])):
                    small, sstream = shrink(ctx, t, streams[i])
                    break
            v = {'what': 'chibicc fails on a valid program (' + kinds[0] + ')', 'errors': b.errors,
                 'input': src[:6000], 'expected': 'compiles and runs', 'got': b.errors[0][1]}
            if small is not None:
                v.update({'input': unit_source([to_c(small, 0)]), 'sexpr': sx(small), 'oracle_values': sstream, 'unit': src[:6000]})
            corr.violations.append(v)
        return False
    if search:
        return nest_search(ctx, corr, trees, streams, b, style)
    # (a) text tie
    try:
        sk = skeletons(b.asm)
    except SkeletonError as e:
        corr.disagreements.append({'kind': 'skeleton extraction', 'what': str(e), 'source': src[:3000]})
        return False
    codes, err = model_unit(ctx, trees)
    if err:
        corr.disagreements.append({'kind': 'model rejects a program chibicc accepts', 'model': err, 'source': src[:3000]})
        return False
    ok = True
    for i, t in enumerate(trees):
        corr.evaluations += 1
        real = sk.get(f'f{i}')
        mod = codes.get(i)
        fm = forms(t)
        corr.count('text:' + mode)
        for k in fm:
            corr.count('form:' + k, fm[k])
        corr.count(f'depth:{depth(t)}')
        key = hashlib.sha1(sx(t).encode()).hexdigest()
        if depth(t) >= 3 and len(fm) >= 3:
            corr.nontrivial.add(key)
        if real != mod:
            j, x, y = first_diff(real or [], mod or [])
            corr.disagreements.append({'kind': 'control skeleton text', 'function': to_c(t, 0, style), 'sexpr': sx(t), 'index': j,
                                       'impl': x, 'model': y, 'note': 'label numbers are compared exactly'})
            ok = False
            break
    # (b) behaviour
    ex = model_exec(ctx, trees, streams)
    eg = model_execg(ctx, trees, streams)
    mr = model_mrun(ctx, trees, streams)
    if len(eg) != len(trees):
        corr.disagreements.append({'kind': 'drv_c03 execg answered %d lines for %d functions' % (len(eg), len(trees))})
        return False
    for i, t in enumerate(trees):
        corr.evaluations += 1
        cc = b.cc_runs.get(i)
        gc = b.gcc_runs.get(i)
        corr.count('run:' + (cc[1] if cc else 'missing'))
        if cc != gc or cc is None or cc[1] == 'CRASH':
            verdict, info = arbitrate(ctx, to_c(t, 0, style), streams[i])
            if verdict in ('oracle', 'same', 'unknown'):
                # the reference compiler is the one that is wrong (or crashed): not evidence about chibicc
                corr.count('oracle-' + verdict)
                corr.extra.setdefault('reference_compiler_disagreements', []).append(
                    {'source': to_c(t, 0, style)[:1500], 'values': streams[i], 'gcc': info['refs'].get('gcc'),
                     'clang': info['refs'].get('clang'), 'chibicc': info['chibicc']}) if len(corr.extra.get('reference_compiler_disagreements', [])) < 3 else None
                cc, gc = info['chibicc'], next((r for r in info['refs'].values() if r == info['chibicc']), None)
                if cc is None or gc is None:
                    continue
            else:
                small, sstream = shrink(ctx, t, streams[i])
                v2, i2 = arbitrate(ctx, to_c(small, 0), sstream)
                ref = i2['refs'].get('gcc') or i2['refs'].get('clang')
                j, x, y = first_diff((i2['chibicc'] or ([], ''))[0], (ref or ([], ''))[0])
                corr.violations.append({'what': 'compiled code executes a different statement sequence than the abstract machine '
                                                '(gcc and clang twins agree with each other)',
                                        'input': unit_source([to_c(small, 0)]), 'oracle_values': sstream, 'sexpr': sx(small),
                                        'expected': ref, 'got': i2['chibicc'], 'references': i2['refs'], 'errors': i2['errors'],
                                        'first_difference': [j, y, x], 'original': to_c(t, 0, style)})
                return False
        e = ex[i]
        if e['structured'] and e['how'] == 'unsupported':
            corr.disagreements.append({'kind': 'Spec.exec rejects a structured program', 'sexpr': sx(t)})
            ok = False
        if e['how'] != 'unsupported':
            corr.count('spec:' + e['how'])
            fin = e['how'] != 'timeout'
            if not agree(gc[0], gc[1], e['events'], fin):
                # spec vs gcc: a wrong specification (the implementation agreed with gcc above)
                j, x, y = first_diff(gc[0], e['events'])
                corr.disagreements.append({'kind': 'Spec.exec disagrees with gcc (specification error)', 'sexpr': sx(t),
                                           'source': to_c(t, 0, style), 'values': streams[i], 'index': j, 'gcc': x, 'spec': y,
                                           'spec_outcome': e['how']})
                ok = False
        # the abstract machine for all statements (goto, goto *&&L, Duff): Spec.execG vs gcc (validates the specification),
        # hence vs the chibicc build (which agreed with the reference above); vs Spec.exec where both apply
        g = eg[i]
        corr.count('specG:' + str(g['how']))
        if g['gotoval']:
            corr.count('specG:has-computed-goto')
        if g.get('jumps'):
            corr.count('specG:goto-executed')
            corr.count('specG:goto-steps', g['jumps'])
        if nested_case(t):
            corr.count('specG:nested-case-label')
        if not g['valid'] or g['events'] is None:
            corr.disagreements.append({'kind': 'Spec.execG gives no meaning to a generated valid program (validG=%s, %s)' % (g['valid'], g['how']),
                                       'sexpr': sx(t), 'source': to_c(t, 0, style)})
            ok = False
        else:
            gfin = g['how'] != 'timeout'
            if not agree(gc[0], gc[1], g['events'], gfin):
                j, x, y = first_diff(gc[0], g['events'])
                corr.disagreements.append({'kind': 'Spec.execG disagrees with gcc (specification error)', 'sexpr': sx(t),
                                           'source': to_c(t, 0, style), 'values': streams[i], 'index': j, 'gcc': x, 'specG': y,
                                           'specG_outcome': g['how']})
                ok = False
            if not agree(cc[0], cc[1], g['events'], gfin):
                j, x, y = first_diff(cc[0], g['events'])
                corr.disagreements.append({'kind': 'Spec.execG disagrees with the chibicc-compiled program', 'sexpr': sx(t),
                                           'source': to_c(t, 0, style), 'values': streams[i], 'index': j, 'impl': x, 'specG': y,
                                           'specG_outcome': g['how']})
                ok = False
            if e['how'] not in ('unsupported', 'timeout') and (g['how'] != e['how'] or g['events'] != e['events']):
                corr.disagreements.append({'kind': 'Spec.exec and Spec.execG differ on a structured program (C03_execG_structured)',
                                           'sexpr': sx(t), 'exec': [e['how'], e['events'][:40]], 'execG': [g['how'], g['events'][:40]]})
                ok = False
            if (g.get('jumps') or nested_case(t)) and len(g['events']) >= 4:
                corr.nontrivial.add('runG:' + hashlib.sha1((sx(t) + str(streams[i])).encode()).hexdigest())
        mm = mr[i]
        if mm['events'] is None or not agree(cc[0], cc[1], mm['events'], mm['how'] == 'end'):
            j, x, y = first_diff(cc[0], mm['events'] or [])
            corr.disagreements.append({'kind': 'model machine on model code disagrees with chibicc-compiled code', 'sexpr': sx(t),
                                       'source': to_c(t, 0, style), 'values': streams[i], 'index': j, 'impl': x, 'model': y, 'model_outcome': mm['how']})
            ok = False
        if len(cc[0]) >= 4:
            corr.nontrivial.add('run:' + hashlib.sha1((sx(t) + str(streams[i])).encode()).hexdigest())
        if not ok:
            return False
    if corr.samples == [] or len(corr.samples) < 2:
        i = max(range(len(trees)), key=lambda i: len(b.cc_runs[i][0]))
        corr.sample({'nest': to_c(trees[i], 0, style).split('\n')[:14], 'values': streams[i][:8], 'trace': b.cc_runs[i][0][:16],
                     'skeleton_head': (sk.get(f'f{i}') or [])[:10]})
    return ok


def nest_search(ctx, corr, trees, streams, b, style):
    """search mode of nest_batch: chibicc build vs gcc (clang arbitrates) on every function; the first difference is shrunk
    and reported"""
    for i, t in enumerate(trees):
        corr.evaluations += 1
        cc = (b.cc_runs or {}).get(i)
        gc = (b.gcc_runs or {}).get(i)
        if cc == gc and cc is not None and cc[1] != 'CRASH':
            continue
        verdict, info = arbitrate(ctx, to_c(t, 0, style), streams[i])
        if verdict != 'violation':
            continue
        small, sstream = shrink(ctx, t, streams[i])
        v2, i2 = arbitrate(ctx, to_c(small, 0), sstream)
        ref = i2['refs'].get('gcc') or i2['refs'].get('clang')
        j, x, y = first_diff((i2['chibicc'] or ([], ''))[0], (ref or ([], ''))[0])
        corr.violations.append({'what': 'compiled code executes a different statement sequence than the abstract machine '
                                        '(gcc and clang twins agree with each other)',
                                'input': unit_source([to_c(small, 0)]), 'oracle_values': sstream, 'sexpr': sx(small),
                                'expected': ref, 'got': i2['chibicc'], 'references': i2['refs'], 'errors': i2['errors'],
                                'first_difference': [j, y, x], 'original': to_c(t, 0, style)})
        return False
    return True


# ------------------------------------------------------------------------------------------------ jump battery

def nested_case(t, in_item=False, top=False):
    """does a switch of t carry a case/default label that is not in the label prefix of a top-level item of its body (Duff)?"""
    k = t[0]
    if k == 'switch':
        body = t[3]
        items = body[1] if body[0] == 'block' else [body]
        for it in items:
            x = it
            while x[0] in ('case', 'default'):
                x = children(x)[0]
            if free_case(x) or nested_case(x):
                return True
        return False
    return any(nested_case(c) for c in children(t))

def free_case(t):
    if t[0] in ('case', 'default'):
        return True
    if t[0] == 'switch':
        return False
    return any(free_case(c) for c in children(t))

def jump_function(rng):
    """one function made of directed jump idioms (Duff's device, goto into / out of loops and switches, backward goto,
    chains of computed gotos), with fresh marker / oracle / label numbers"""
    k = [0]
    lab = [0]
    def f():
        k[0] += 1
        return k[0]
    def L():
        lab[0] += 1
        return lab[0]
    def case(v, s, T='int', hi=None):
        hi = v if hi is None else hi
        return ('case', as_long(v), as_long(hi), s, lit(v, T), lit(hi, T))
    def jump(l):
        return (rng.choice(['goto', 'goto', 'gotoval']), l)
    def duff():
        T = rng.choice(list(TYPES))
        n = rng.randint(2, 5)
        vals = rng.sample(range(1, 10), n)
        inner = [('m', f())]
        for v in vals:
            x = ('m', f())
            if rng.random() < 0.3:
                x = ('if', f(), case(v, x, T), rng.choice([('skip',), ('break',), ('m', f())]))
                inner.append(x)
            else:
                inner.append(case(v, x, T))
            if rng.random() < 0.2:
                inner.append(('if', f(), ('continue',), ('skip',)))
        if rng.random() < 0.4:
            inner.insert(rng.randint(1, len(inner)), ('default', ('m', f())))
        loop = ('do', ('block', inner), f()) if rng.random() < 0.6 else ('for', None, f(), f() if rng.random() < 0.5 else None, ('block', inner))
        body = [case(0, loop, T)]
        if rng.random() < 0.5:
            body.append(case(12, ('m', f()), T, 20))
        return [('switch', T, f(), ('block', body)), ('m', f())]
    def into_loop():
        l = L()
        body = [('m', f()), ('label', l, ('m', f())), ('if', f(), ('continue',), ('skip',)), ('m', f())]
        loop = rng.choice([('for', f(), f(), f(), ('block', body)), ('do', ('block', body), f()), ('for', None, f(), None, ('block', body))])
        return [jump(l), ('m', f()), loop]
    def backward():
        l = L()
        return [('label', l, ('m', f())), ('if', f(), ('block', [('m', f()), jump(l)]), ('skip',))]
    def out_of_nest():
        l = L()
        T = rng.choice(list(TYPES))
        inner = ('for', None, f(), f(), ('block', [('if', f(), jump(l), ('skip',)), ('m', f())]))
        sw = ('switch', T, f(), ('block', [case(1, ('m', f()), T), case(2, inner, T, 5), ('break',), ('default', ('m', f()))]))
        return [('for', None, f(), None, ('block', [sw, ('m', f())])), ('m', f()), ('label', l, ('m', f()))]
    def into_switch():
        l = L()
        T = rng.choice(list(TYPES))
        sw = ('switch', T, f(), ('block', [case(1, ('m', f()), T), ('label', l, ('m', f())), ('break',), ('default', ('m', f())),
                                         case(3, ('m', f()), T)]))
        return [('if', f(), jump(l), ('skip',)), sw]
    def chain():
        n = rng.randint(2, 4)
        ls = [L() for _ in range(n)]
        order = ls[:]
        rng.shuffle(order)
        end = L()
        items = [('gotoval', order[0])]
        for l in ls:
            nxt = order[order.index(l) + 1] if order.index(l) + 1 < n else end
            items += [('label', l, ('m', f())), ('gotoval' if rng.random() < 0.7 else 'goto', nxt)]
        items.append(('label', end, ('m', f())))
        return items
    parts = []
    for _ in range(rng.randint(1, 3)):
        parts += rng.choice([duff, duff, into_loop, backward, out_of_nest, into_switch, chain])()
    tree = ('block', parts)
    vals = []
    for _ in range(rng.choice([16, 30, 48])):
        x = rng.random()
        vals.append(0 if x < 0.3 else 1 if x < 0.6 else rng.randint(0, 13))
    return tree, vals

def jump_battery(ctx, corr, search=False):
    nb = 1 if not ctx.thorough else 12
    for bi in range(nb):
        fixed = []
        while len(fixed) < 24:
            t, vs = jump_function(ctx.rng)
            if not valid(t):
                corr.count('generator-invalid')
                continue
            fixed.append((t, vs))
            corr.count('jump-battery')
        if not nest_batch(ctx, corr, f'jb{bi}', len(fixed), 'free', 6, fixed=fixed, search=search):
            return False
    return True


# ------------------------------------------------------------------------------------------------ switch battery

def adversarial_values(v, T):
    """controlling values chosen against the case bound v of a switch on T: values that agree with v in some of their bits
    only (congruent mod 2^32 / 2^31 / 2^33, top half flipped, v truncated to 8/16/32 bits and sign- or zero-extended).  A
    ladder that compares at the wrong width, with the wrong signedness or through a truncated immediate takes the wrong arm
    on one of them.  Returns C `long` values to be returned by in(): for 64-bit T the values of T's range; for `unsigned`
    any pattern (the conversion long -> unsigned is modulo 2^32, 6.3.1.3p2, so the high half must be ignored); for `int` and
    narrower types nothing (an out-of-range conversion to a signed type is implementation-defined, narrower types are cast
    before promotion: the skeleton drops casts)."""
    bits, signed = TYPES[T]
    p = v & M64
    out = set()
    if bits == 64:
        tl, th = trange(T)
        cand = {v + d for d in (1 << 32, -(1 << 32), 1 << 31, -(1 << 31), 1 << 33, -(1 << 33), 1 << 63, -(1 << 63))}
        for q in (p ^ (0xffffffff << 32), p ^ (1 << 63), p ^ (1 << 32), p ^ (1 << 31)):
            cand.add(as_long(q) if signed else q)
        for w in (8, 16, 32):
            m = (1 << w) - 1
            z = p & m
            cand |= {z, z - (1 << w) if z >> (w - 1) else z, z | (1 << w), z + (1 << 32)}
        for c in cand:
            if tl <= c <= th:
                out |= {as_long(c)}
    elif T == 'unsigned':
        lo32 = p & 0xffffffff
        for hi32 in (1, 0xffffffff, 0x80000000, 0x7fffffff, 2):
            out.add(as_long(lo32 | (hi32 << 32)))
    return out


def switch_battery(ctx, corr, full=False, search=False):
    """every controlling type x directed case sets (negative, > 32 bit, ranges at the ends of the type) x default in every
    position x values on both sides of every boundary and values chosen against every bound (adversarial_values).  One
    function per (type, case set, default position); each function loops over the oracle stream:
    for (; c(1); ) switch ((T)in(2)) {...}"""
    rng = ctx.rng
    full = full or ctx.thorough
    fns = []
    for T in TYPES:
        lo, hi = prange(T)
        tl, th = trange(T)
        sets = [
            [(0, 0), (1, 1), (2, 2)],
            [(-1, -1), (0, 0), (5, 9)] if lo < 0 else [(0, 0), (5, 9), (hi, hi)],
            [(lo, lo), (hi, hi)],
            [(lo, lo + 3), (hi - 3, hi), (-2, 2) if lo < 0 else (7, 11)],
            [(tl, tl + 1), (th - 1, th)],
            [(lo, hi)],
        ]
        if promoted(T)[0] == 64:
            sets += [[((1 << 32) + 1, (1 << 32) + 1), ((1 << 32) + 3, (1 << 32) + 9), (1, 1)],
                     [((1 << 31), (1 << 31)), ((1 << 31) - 1, (1 << 31) - 1), ((1 << 32) - 1, (1 << 32)), ((1 << 33), (1 << 40))]]
            if lo < 0:
                sets += [[(-(1 << 32) - 1, -(1 << 32) - 1), (-(1 << 31) - 1, -(1 << 31) - 1), (-(1 << 31), -(1 << 31)), (-(1 << 40), -(1 << 33))]]
            else:
                sets += [[((1 << 63) - 2, (1 << 63) - 1), ((1 << 63), (1 << 63) + 4), (hi - 1, hi)]]
        elif lo < 0:
            sets += [[(-(1 << 31), -(1 << 31) + 1), (-129, -127), (127, 129)]]
        else:
            sets += [[((1 << 31) - 1, (1 << 31) - 1), ((1 << 31), (1 << 31) + 2), (hi - 2, hi)]]
        sets.append([(1, 5), (7, 7), (100, 1000)])
        if not full:
            sets = [s for s in sets if rng.random() < 0.55] or sets[:2]
        for cs in sets:
            cs = [(a, b) for a, b in cs if lo <= a <= b <= hi and as_long(a) <= as_long(b)]
            ok = all(b1 < a2 or b2 < a1 for (a1, b1), (a2, b2) in itertools.combinations(cs, 2))
            if not cs or not ok:
                corr.count('skipped_latitude')
                continue
            positions = range(-1, len(cs) + 1) if ctx.thorough else sorted({-1, rng.randrange(0, len(cs) + 1)})
            if search:
                positions = [rng.randrange(-1, len(cs) + 1)]
            for dpos in positions:
                order = list(cs)
                rng.shuffle(order)
                items = []
                mk = 10
                for idx, (a, b) in enumerate(order):
                    if idx == dpos:
                        items.append(('default', ('m', 99)))
                        if rng.random() < 0.5:
                            items.append(('break',))
                    body = ('m', mk); mk += 1
                    items.append(('case', as_long(a), as_long(b), body, lit(a, T), lit(b, T)))
                    if rng.random() < 0.6:
                        items.append(('break',))
                if dpos == len(order):
                    items.append(('default', ('m', 99)))
                tree = ('block', [('for', None, 1, None, ('switch', T, 2, ('block', items))), ('m', 100)])
                vals = set()
                for a, b in cs:
                    vals |= {a - 1, a, a + 1, b - 1, b, b + 1}
                vals |= {tl, th, 0, 1, tl + 1, th - 1}
                vals = sorted(v for v in vals if tl <= v <= th)
                stream = []
                for v in vals:
                    stream += [1, as_long(v)]
                adv = set()
                for a, b in cs:
                    adv |= adversarial_values(a, T) | adversarial_values(b, T)
                for v in sorted(adv):
                    stream += [1, v]
                    corr.count('switch-adversarial-values')
                fns.append((tree, stream, T))
    nf = 48
    for start in range(0, len(fns), nf):
        part = fns[start:start + nf]
        for t, vs, T in part:
            corr.count('switch-battery:' + T)
        global LIMIT
        old = LIMIT
        LIMIT = 4000
        try:
            if not nest_batch(ctx, corr, f'swb{start}', len(part), 'structured', 6, fixed=[(t, vs) for t, vs, _ in part],
                              search=search) and not search:
                return False
            if search and corr.violations:
                return False
        finally:
            LIMIT = old
    return True


# ------------------------------------------------------------------------------------------------ expression-level control (gcc only)

class ExprGen:
    """&& || ?: , ! and statement expressions with side-effecting operands; `c(k)` logs and returns an oracle value"""
    def __init__(self, rng, nest):
        self.rng, self.nest = rng, nest

    def expr(self, d):
        rng, n = self.rng, self.nest
        if d <= 0 or rng.random() < 0.2:
            return f'c({n.fresh()})' if rng.random() < 0.85 else str(rng.choice([0, 1, 7]))
        k = rng.choice(['and', 'or', 'cond', 'comma', 'not', 'stmt', 'and', 'or', 'cond'])
        a = lambda: self.expr(d - 1)
        if k == 'and':
            return f'({a()} && {a()})'
        if k == 'or':
            return f'({a()} || {a()})'
        if k == 'cond':
            return f'({a()} ? {a()} : {a()})'
        if k == 'comma':
            return f'({a()}, {a()})'
        if k == 'not':
            return f'!{a()}'
        # statement expression containing control flow; its value is the last expression statement
        body = n.block(min(d, 2), False, None)
        txt = to_c(body, 0).strip()
        return '({ ' + ' '.join(txt.split()) + f' {a()}; }})'

def expr_batch(ctx, corr, tag, nf):
    rng = ctx.rng
    texts, streams = [], []
    for i in range(nf):
        n = NestGen(rng, 'structured', 3, 'int')
        eg = ExprGen(rng, n)
        lines = []
        for _ in range(rng.choice([1, 2, 3])):
            e = eg.expr(rng.choice([2, 3, 4]))
            form = rng.choice(['r', 'if', 'for', 'switch', 'do', 'escape'])
            if form == 'r':
                lines.append(f'  r({e});')
            elif form == 'if':
                lines.append(f'  if ({e}) m({n.fresh()}); else m({n.fresh()});')
            elif form == 'for':
                lines.append(f'  for (m({n.fresh()}); {e}; m({n.fresh()})) {{ m({n.fresh()}); if (c({n.fresh()})) break; }}')
            elif form == 'do':
                lines.append(f'  do {{ m({n.fresh()}); if (c({n.fresh()})) continue; m({n.fresh()}); }} while ({e});')
            elif form == 'escape':
                # control leaving a statement expression: break / continue / goto / return out of `({ ... })`
                esc = rng.choice(['break', 'continue', f'goto out{len(lines)}', 'return'])
                lines.append(f'  for (m({n.fresh()}); c({n.fresh()}); m({n.fresh()})) {{ r(({{ if ({e}) {esc}; m({n.fresh()}); c({n.fresh()}); }}) + 1); m({n.fresh()}); }} out{len(lines)}: m({n.fresh()});')
            else:
                lines.append(f'  switch ({e}) {{ case 0: m({n.fresh()}); case 1: m({n.fresh()}); break; default: m({n.fresh()}); case 7: m({n.fresh()}); }}')
        texts.append('{\n' + '\n'.join(lines) + '\n}\n')
        streams.append([rng.choice([0, 0, 1, 1, 2, 7, -1, 256, 1 << 32]) for _ in range(rng.choice([8, 20, 40]))])
    src = unit_source(texts)
    b = build_unit(ctx, tag, src, streams, want_asm=False)
    if b.errors:
        kinds = [k for k, _ in b.errors]
        if any('gcc' in k for k in kinds):
            corr.disagreements.append({'kind': 'expression generator produced a program gcc rejects', 'errors': b.errors, 'source': src[:3000]})
        else:
            corr.violations.append({'what': 'chibicc fails on a valid program (' + kinds[0] + ')', 'input': src[:6000],
                                    'expected': 'compiles and runs', 'got': b.errors[0][1]})
        return False
    for i in range(nf):
        corr.evaluations += 1
        corr.count('expr-control')
        cc, gc = b.cc_runs.get(i), b.gcc_runs.get(i)
        if cc != gc or cc is None or cc[1] == 'CRASH':
            verdict, info = arbitrate(ctx, texts[i], streams[i])
            if verdict != 'violation':
                corr.count('oracle-' + verdict)
                continue
            # minimise by dropping lines of the function
            lines = texts[i].strip('{}\n').split('\n')
            best, binfo = lines, info
            for drop in range(len(lines)):
                cand = lines[:drop] + lines[drop + 1:]
                if not cand:
                    continue
                v2, i2 = arbitrate(ctx, '{\n' + '\n'.join(cand) + '\n}\n', streams[i])
                if v2 == 'violation':
                    best, binfo = cand, i2
                    break
            corr.violations.append({'what': 'short-circuit / conditional / comma / statement-expression evaluation differs from gcc and clang',
                                    'input': unit_source(['{\n' + '\n'.join(best) + '\n}\n']), 'oracle_values': streams[i],
                                    'expected': binfo['refs'], 'got': binfo['chibicc']})
            return False
        if cc and len(cc[0]) >= 4:
            corr.nontrivial.add('expr:' + hashlib.sha1((texts[i] + str(streams[i])).encode()).hexdigest())
    return True


# ------------------------------------------------------------------------------------------------ corpus (hand-written C and trees)

def corpus_run(ctx, corr):
    d = os.path.join(VERIF, 'corpus', 'C03')
    if not os.path.isdir(d):
        return True
    for fn in sorted(os.listdir(d)):
        path = os.path.join(d, fn)
        if fn.endswith('.c'):
            src = open(path).read()
            m = re.search(r'streams:\n(.*?)\*/', src, re.S)
            streams = [[int(x) for x in l.split()] for l in m.group(1).strip().splitlines()] if m else [[]]
            b = build_unit(ctx, 'corpus_' + fn[:-2], src, streams, want_asm=False, with_clang=True)
            corr.evaluations += 1
            corr.count('corpus-c')
            refs = [r for r in (b.gcc_runs, b.clang_runs) if r]
            if b.errors or not refs or not any(b.cc_runs == r for r in refs):
                ref = refs[0] if refs else {}
                bad = next((i for i in sorted(ref) if (b.cc_runs or {}).get(i) != ref.get(i)), None)
                corr.violations.append({'what': f'corpus program {fn}: chibicc build differs from the gcc and clang builds', 'input': src,
                                        'errors': b.errors, 'function': bad,
                                        'expected': ref.get(bad), 'got': (b.cc_runs or {}).get(bad)})
                return False
            corr.nontrivial.add('corpus:' + fn)
        elif fn.endswith('.json'):
            payload = json.load(open(path))
            fixed = [(totuple(x['tree']), x['values']) for x in payload['functions']]
            corr.count('corpus-tree')
            if not nest_batch(ctx, corr, 'corpus_' + fn[:-5], len(fixed), 'free', 6, fixed=fixed):
                return False
    return True

def totuple(x):
    if isinstance(x, list):
        if x and x[0] == 'block':
            return ('block', [totuple(y) for y in x[1]])
        return tuple(totuple(y) for y in x)
    return x


# ------------------------------------------------------------------------------------------------ leg (c): scoping

NAMES = ['x', 'y', 'z']
# identifier families for the shadowing programs: proper prefixes of one another, spellings that differ in one trailing
# character, and (through the labels below) the same spelling in several name spaces
NAME_FAMILIES = [['x', 'y', 'z'], ['x', 'xx', 'xxx'], ['a', 'a1', 'a10'], ['out', 'out_err', 'o'], ['L1', 'L10', 'L11'],
                 ['t', 'tt', 't_'], ['n', 'nn', 'n0'], ['x', 'xx', 'y']]

class ScopeProg:
    """a program built together with its history of scope operations.  Every declaration carries a distinct id; a use
    prints the id of the declaration it bound to (objects and enumerators by value, typedef names and tags by sizeof).
    `items` is the program: ('raw', text) | ('use', indent, name) | ('fn', label id)."""
    def __init__(self, rng):
        self.rng = rng
        self.id = 0
        self.ops = []          # model history (driver syntax)
        self.items = []
        self.tagkind = {}
        self.names = list(rng.choice(NAME_FAMILIES))
        self.stack = [{'var': set(), 'tag': set()}]
        self.env = [{}]        # ordinary name space: name -> (kind, id) per scope, for point-of-declaration forms

    def nid(self):
        self.id += 1
        if self.id == 4:          # sizeof(int): a typedef of that size would be indistinguishable from an int object
            self.id += 1
        return self.id

    def emit(self, s, ind):
        self.items.append(('raw', '  ' * ind + s))

    def declare(self, ind, allow=('var', 'typedef', 'enum', 'tag')):
        rng = self.rng
        kind = rng.choice(allow)
        ns = 'tag' if kind == 'tag' else 'var'
        free = [n for n in self.names if n not in self.stack[-1][ns]]
        if not free:
            return
        n = rng.choice(free)
        i = self.nid()
        self.stack[-1][ns].add(n)
        # point of declaration (C11 6.2.1p7): an enumerator is in scope only AFTER its own definition, so the same name
        # inside its initializer still denotes the outer declaration
        outer = None
        if ns == 'var':
            for sc in reversed(self.env):
                if n in sc:
                    outer = sc[n]
                    break
            self.env[-1][n] = (kind, i)
        if kind == 'enum' and outer and outer[0] in ('enum', 'typedef') and rng.random() < 0.6:
            ok, oi = outer
            ref = n if ok == 'enum' else f'(int)sizeof({n})'
            self.emit(f'enum {{ {n} = {ref} + ({i - oi}) }};', ind)
            self.ops.append(f'enum {n} {i}')
            return
        if kind == 'var':
            st = rng.choice(['', '', 'static '])
            self.emit(f'{st}int {n} = {i};', ind)
            self.ops.append(f'var {n} {i}')
        elif kind == 'typedef':
            self.emit(f'typedef char {n}[{i}];', ind)
            self.ops.append(f'typedef {n} {i}')
        elif kind == 'enum':
            self.emit(f'enum {{ {n} = {i} }};', ind)
            self.ops.append(f'enum {n} {i}')
        else:
            su = rng.choice(['struct', 'union'])
            self.tagkind[i] = su
            self.emit(f'{su} {n} {{ char a[{i}]; }};', ind)
            self.ops.append(f'tag {n} {i}')

    def enter(self):
        self.stack.append({'var': set(), 'tag': set()})
        self.env.append({})
        self.ops.append('enter')

    def leave(self):
        self.stack.pop()
        self.env.pop()
        self.ops.append('leave')

    def uses(self, ind, names=None):
        for n in (names or self.names):
            self.ops.append(f'use {n}')
            self.ops.append(f'usetag {n}')
            self.items.append(('use', ind, n))

    def body(self, ind, d):
        rng = self.rng
        for _ in range(rng.choice([1, 2, 3, 4])):
            x = rng.random()
            if x < 0.45:
                self.declare(ind)
            elif x < 0.6 or d <= 0:
                self.uses(ind)
            elif x < 0.8:
                self.emit('{', ind); self.enter()
                self.body(ind + 1, d - 1)
                self.leave(); self.emit('}', ind)
            else:
                # for-init scope: the declaration is visible in the condition and the body, gone after the loop
                self.enter()
                n = rng.choice(self.names)
                i = self.nid()
                self.stack[-1]['var'].add(n)
                self.env[-1][n] = ('var', i)
                self.ops.append(f'var {n} {i}')
                once = f'o{i}'
                if rng.random() < 0.7:
                    self.emit(f'for (int {n} = {i}, {once} = 1; {once}; {once} = 0) {{', ind)
                    self.enter()
                    self.body(ind + 1, d - 1)
                    self.leave()
                    self.emit('}', ind)
                else:
                    self.emit(f'for (int {n} = {i}, {once} = 1; {once}; {once} = 0)', ind)
                    self.uses(ind + 1, [rng.choice(self.names)])     # a single (non-compound) statement as the body
                self.leave()
        self.uses(ind)

def scope_program(rng):
    sp = ScopeProg(rng)
    sp.emit('int printf(const char *, ...);', 0)
    for _ in range(rng.choice([0, 1, 2, 3])):
        sp.declare(0)
    calls = []
    for f in range(rng.choice([1, 2])):
        params = rng.sample(sp.names, rng.choice([0, 1, 2]))
        pid = [sp.nid() for _ in params]
        sp.emit(f"void fn{f}({', '.join('int ' + p for p in params) or 'void'}) {{", 0)
        sp.enter()
        for p_, i in zip(params, pid):
            sp.ops.append(f'var {p_} {i}')
            sp.env[-1][p_] = ('var', i)      # a parameter hides an outer enumerator / typedef name of the same spelling
        # chibicc opens a second scope for the body; a valid program never redeclares a parameter there, so reserve them
        sp.enter()
        sp.stack[-1]['var'] |= set(params)
        # labels: function scope, a name space of their own; spelled like the other identifiers, the same spelling in both
        # functions.  Two labels per function, one spelling a proper prefix of the other (either may be defined first), each
        # reached by `goto name` or through `&&name`; each prints its id and jumps back.
        lab = rng.choice(sp.names)
        lab2 = lab + rng.choice(['1', '0', '_err', 'x', '_'])
        if rng.random() < 0.5:
            lab, lab2 = lab2, lab
        lid, lid2 = sp.nid(), sp.nid()
        jump = lambda l: f'goto {l};' if rng.random() < 0.6 else f'{{ void *p_ = &&{l}; goto *p_; }}'
        sp.items.append(('fn', lid))
        sp.emit(f'{jump(lab)} printf("label -1\\n"); back:;', 1)
        sp.body(1, rng.choice([1, 2, 3]))
        sp.items.append(('fn', lid2))
        sp.emit(f'{jump(lab2)} printf("label -2\\n"); back2:;', 1)
        defs = [f'{lab}: printf("label {lid}\\n"); goto back;', f'{lab2}: printf("label {lid2}\\n"); goto back2;']
        if rng.random() < 0.5:
            defs.reverse()
        sp.emit('return; ' + ' '.join(defs), 1)
        sp.leave(); sp.leave()
        sp.emit('}', 0)
        calls.append(f"fn{f}({', '.join(str(i) for i in pid)});")
    sp.emit('int main(void) { ' + ' '.join(calls) + ' return 0; }', 0)
    return sp

def render_scope(sp, answers):
    """substitute every use by print statements that fit the kind of declaration the model says it binds to;
    returns (source, expected output)"""
    ua = [a for a in answers if a.startswith('use ') or a.startswith('usetag ')]
    ui = 0
    lines, expect = [], []
    for it in sp.items:
        if it[0] == 'raw':
            lines.append(it[1])
        elif it[0] == 'fn':
            expect.append(f'label {it[1]}')
        else:
            _, ind, n = it
            a_var, a_tag = ua[ui].split(), ua[ui + 1].split()
            ui += 2
            stm = []
            if a_var[1] in ('obj', 'enum'):
                stm.append(f'printf("{n} %d\\n", (int){n});'); expect.append(f'{n} {a_var[2]}')
                # the same binding where the PARSER has to know whether the identifier is a type name (after `(`, in sizeof,
                # at the start of a statement): an inner object / enumerator hides an outer typedef name there too (6.2.1p4)
                stm.append(f'printf("{n} p %d %d\\n", (int)sizeof({n}), (int)(({n}) - 1 + 1));'); expect.append(f'{n} p 4 {a_var[2]}')
                if a_var[1] == 'obj':
                    stm.append(f'{n} = ({n}) + 0;')
            elif a_var[1] == 'typedef':
                stm.append(f'printf("{n} %d\\n", (int)sizeof({n}));'); expect.append(f'{n} {a_var[2]}')
            if a_tag[1] != 'none':
                k = sp.tagkind[int(a_tag[1])]
                stm.append(f'printf("tag {n} %d\\n", (int)sizeof({k} {n}));'); expect.append(f'tag {n} {a_tag[1]}')
            lines.append('  ' * ind + '{ ' + ' '.join(stm) + ' }')
    return '\n'.join(lines) + '\n', expect

def scope_batch(ctx, corr, count):
    rng = ctx.rng
    d = os.path.join(ctx.scratch, 'c03s')
    os.makedirs(d, exist_ok=True)
    progs = [scope_program(rng) for _ in range(count)]
    text = ''.join('reset\n' + '\n'.join(sp.ops) + '\n' for sp in progs)
    out = ctx.driver('scope', text).splitlines()
    chunks, cur = [], None
    for l in out:
        if l == 'reset':
            cur = []; chunks.append(cur)
        elif cur is not None:
            cur.append(l)
    src = expect = None
    for it, (sp, answers) in enumerate(zip(progs, chunks)):
        if any(a.startswith('crash') or a == 'bad-op' for a in answers):
            corr.disagreements.append({'kind': 'scope model aborted on a generated history', 'ops': sp.ops, 'answers': answers[-3:]})
            return False
        src, expect = render_scope(sp, answers)
        path = os.path.join(d, f's{it}.c')
        open(path, 'w').write(src)
        corr.evaluations += 1
        corr.count('scope-program')
        exe_g, obj, exe_c = path + '.gcc', path + '.o', path + '.cc'
        rc, o, e = sh(['gcc', '-O0', '-w', '-o', exe_g, path], timeout=60)
        if rc != 0:
            corr.disagreements.append({'kind': 'scope generator produced a program gcc rejects', 'source': src, 'stderr': e[-600:]})
            return False
        got_g = sh([exe_g], timeout=20)[1].splitlines()
        if got_g != expect and shutil.which('clang-14'):
            # a second reference before blaming the model
            if sh(['clang-14', '-O0', '-w', '-o', exe_g, path], timeout=60)[0] == 0 and sh([exe_g], timeout=20)[1].splitlines() == expect:
                corr.count('oracle-oracle')
                got_g = expect
        if got_g != expect:
            j, x, y = first_diff(got_g, expect)
            corr.disagreements.append({'kind': 'scope model disagrees with gcc (specification error)', 'source': src, 'index': j,
                                       'gcc': x, 'model': y})
            return False
        rc, o, e = sh([ctx.cc, '-c', '-o', obj, path], timeout=60)
        if rc != 0:
            corr.violations.append({'what': 'chibicc rejects a valid program (identifier binding)', 'input': src,
                                    'expected': expect, 'got': e[-500:]})
            return False
        sh(['gcc', '-no-pie', '-o', exe_c, obj], timeout=60)
        got_c = sh([exe_c], timeout=20)[1].splitlines()
        if len(expect) >= 6:
            corr.nontrivial.add('scope:' + hashlib.sha1(src.encode()).hexdigest())
        corr.count('scope-uses', len(expect))
        if got_c != expect:
            j, x, y = first_diff(got_c, expect)
            corr.violations.append({'what': 'an identifier use binds to a declaration other than the innermost visible one',
                                    'input': src, 'expected': expect, 'got': got_c, 'first_difference': [j, y, x]})
            return False
        for f in (exe_g, exe_c, obj):
            try:
                os.remove(f)
            except OSError:
                pass
    if src:
        corr.sample({'scope_program': src.split('\n')[:25], 'bindings': expect[:12]})
    return True


# ------------------------------------------------------------------------------------------------ source pins (named labels)

PIN_RESOLVE = ('for (Node *x = gotos; x; x = x->goto_next) { for (Node *y = labels; y; y = y->goto_next) { '
               'if (!strcmp(x->label, y->label)) { x->unique_label = y->unique_label; break; } } '
               'if (x->unique_label == NULL) error_tok(x->tok->next, "use of undeclared label"); } gotos = labels = NULL;')
PIN_GET_IDENT = 'if (tok->kind != TK_IDENT) error_tok(tok, "expected an identifier"); return strndup(tok->loc, tok->len);'
PIN_GOTO = ('Node *node = new_node(ND_GOTO, tok); node->label = get_ident(tok->next); node->goto_next = gotos; gotos = node; '
            '*rest = skip(tok->next->next, ";"); return node;')
PIN_LABEL = ('if (tok->kind == TK_IDENT && equal(tok->next, ":")) { Node *node = new_node(ND_LABEL, tok); '
             'node->label = strndup(tok->loc, tok->len); node->unique_label = new_unique_name(); '
             'node->lhs = stmt(rest, tok->next->next); node->goto_next = labels; labels = node; return node; }')
PIN_LABEL_VAL = ('if (equal(tok, "&&")) { Node *node = new_node(ND_LABEL_VAL, tok); node->label = get_ident(tok->next); '
                 'node->goto_next = gotos; gotos = node; *rest = tok->next->next; return node; }')

def source_pins(ctx, corr):
    """Model/Stmt.lean names labels abstractly and compares names for equality (`lookupLabel`; theorem C03_label_binds).  That is
    a faithful reading of parse.c only while the label name of a `goto` / `&&name` / `name:` node is the whole identifier token
    and resolve_goto_labels compares whole names (strcmp): the text of these five places is pinned.  A change there is a broken
    tie (the search then runs the adversarial-name generators)."""
    sys.path.insert(0, os.path.join(VERIF, 'tools', 'extract'))
    try:
        from common import read, function_body, strip_comments, ExtractError
    finally:
        sys.path.pop(0)
    norm = lambda t: ' '.join(t.split())
    try:
        src = read(ctx.take_snapshot(False), 'parse.c')
        body = lambda sig, what: norm(strip_comments(function_body(src, sig, what)))
        checks = [
            ('resolve_goto_labels', body(r'^static\s+void\s+resolve_goto_labels\s*\(void\)\s*\{', 'resolve_goto_labels') == PIN_RESOLVE),
            ('get_ident', body(r'^static\s+char\s*\*\s*get_ident\s*\(Token \*tok\)\s*\{', 'get_ident') == PIN_GET_IDENT),
            ('stmt: goto', PIN_GOTO in body(r'^static\s+Node\s*\*\s*stmt\s*\(Token \*\*rest, Token \*tok\)\s*\{', 'stmt')),
            ('stmt: labeled statement', PIN_LABEL in body(r'^static\s+Node\s*\*\s*stmt\s*\(Token \*\*rest, Token \*tok\)\s*\{', 'stmt')),
            ('unary: &&label', PIN_LABEL_VAL in body(r'^static\s+Node\s*\*\s*unary\s*\(Token \*\*rest, Token \*tok\)\s*\{', 'unary')),
            ('function: resolve_goto_labels() called once', len(re.findall(r'\bresolve_goto_labels\s*\(\s*\)\s*;', strip_comments(src))) == 1),
        ]
    except Exception as e:      # ExtractError or a shape the helpers do not understand
        corr.disagreements.append({'kind': 'source pin (named labels): parse.c no longer has the shape the model was written after',
                                   'what': str(e)[:400]})
        return False
    ok = True
    for what, good in checks:
        corr.evaluations += 1
        corr.count('source-pin')
        if not good:
            corr.disagreements.append({'kind': 'source pin (named labels)', 'what': f'parse.c {what}: text changed; Model/Stmt.lean '
                                       '(gotoN/gotoValN/label, lookupLabel: whole-name equality) was written after a different text'})
            ok = False
    return ok


# ------------------------------------------------------------------------------------------------ entry points

def correspond(ctx, corr):
    corr.rule = ('(a) generated statement nests (depth <= 6; if/else, for/while/do, switch with ranges and default anywhere, break/continue, '
                 'return; in "free" mode also goto, goto *&&L, labels and case labels nested inside other statements): control skeleton of '
                 '`chibicc -S` == model text, label numbers included.  (b) the same units compiled by chibicc and by gcc and run under one '
                 'harness with an oracle stream per function: traces equal; Spec.exec (Lean) == gcc on structured nests; Spec.execG (Lean, '
                 'all statement forms incl. goto / goto *&&L / nested case labels) == gcc == chibicc on every nest; model machine on '
                 'model code == chibicc; directed switch battery (9 controlling types x case sets at the type bounds, > 32 bits, negative, '
                 'ranges x default position x values around every boundary); directed jump battery (Duff\'s device with case labels in loops and ifs, '
                 'goto / goto *&&L into and out of loops and switches, backward gotos, chains of computed gotos); expression-level control vs gcc; hand-written corpus (Duff, '
                 'computed-goto tables, goto into/out of loops).  (c) shadowing programs in all name spaces (identifier families that are proper prefixes of one another; two labels per '
                 'function, one a prefix of the other, reached by goto and through &&name) vs the scope model and gcc; label names of the '
                 'nests spelled by one of 5 injective naming schemes (prefix chains in both orders, names of functions).  (d) source pins: '
                 'resolve_goto_labels, get_ident, the goto / labeled-statement / &&label arms of parse.c.  '
                 '(fun) generated functions of the integer fragment (if/else, while, for(init;c;inc), do-while, switch/case/default with constants at the '
                 'bounds of the promoted controlling type, break, continue, return over '
                 'C01 expressions incl. && || ?: = op= ++ --, loops nested to depth 3): compileFn text == chibicc -S text, label and '
                 'unique-name counters, temporaries, layoutOK, freshness; execF == runF(model code) == chibicc binary == gcc binary on '
                 'conflict-free functions without undefined behaviour.  '
                 'non-trivial = nest of depth >= 3 with >= 3 statement forms / run with >= 4 events / scope program with >= 6 bound uses / '
                 'fragment function with a loop and > 60 instructions; '
                 'distinct by text.')
    pins_ok = source_pins(ctx, corr)
    if not corpus_run(ctx, corr):
        return
    if not switch_battery(ctx, corr):
        return
    if not jump_battery(ctx, corr):
        return
    nb = 6 if not ctx.thorough else 60
    for bi in range(nb):
        mode = 'structured' if bi % 2 == 0 else 'free'
        if not nest_batch(ctx, corr, f'n{bi}', 24, mode, 6):
            return
    for bi in range(3 if not ctx.thorough else 30):
        if not expr_batch(ctx, corr, f'e{bi}', 24):
            return
    scope_batch(ctx, corr, 25 if not ctx.thorough else 400)
    for bi in range(2 if not ctx.thorough else 30):
        if not C03fun.fun_leg(ctx, corr, 40, tag=f'fun{bi}'):
            return


def search(ctx, broken, corr):
    """a proof or the tie broke without a behavioural difference in the standard run: look harder, gcc as the oracle.
    Directed first (cheap, aimed at the decision logic of the anchors): the complete switch battery with controlling values
    chosen against every case bound on every controlling type, then the jump idioms; then random nests."""
    c2 = Corr()
    jump_battery(ctx, c2, search=True)
    if c2.violations:
        return c2.violations[0]
    for bi in range(4):
        C03fun.fun_leg(ctx, c2, 60, tag=f'sfun{bi}', search=True)
        if c2.violations:
            return c2.violations[0]
    scope_batch(ctx, c2, 60)
    if c2.violations:
        return c2.violations[0]
    for rnd in range(3):
        switch_battery(ctx, c2, full=True, search=True)
        if c2.violations:
            return c2.violations[0]
    jump_battery(ctx, c2, search=True)
    if c2.violations:
        return c2.violations[0]
    for bi in range(40):
        mode = 'free' if bi % 2 else 'structured'
        nest_batch(ctx, c2, f'srch{bi}', 24, mode, 6, search=True)
        if c2.violations:
            return c2.violations[0]
    scope_batch(ctx, c2, 150)
    if c2.violations:
        return c2.violations[0]
    for bi in range(10):
        expr_batch(ctx, c2, f'srche{bi}', 24)
        if c2.violations:
            return c2.violations[0]
    return None


def replay(ctx, corr, path):
    payload = json.load(open(path))
    src = payload.get('input')
    if not src:
        corr.extra['replay'] = 'replay file carries no program'
        return
    corr.evaluations = 1
    if 'int main' in src:
        d = os.path.join(ctx.scratch, 'rp'); os.makedirs(d, exist_ok=True)
        p = os.path.join(d, 'r.c'); open(p, 'w').write(src)
        sh(['gcc', '-O0', '-w', '-o', p + '.g', p]); sh([ctx.cc, '-c', '-o', p + '.o', p]); sh(['gcc', '-no-pie', '-o', p + '.c', p + '.o'])
        g = sh([p + '.g'], timeout=20)[1]; c = sh([p + '.c'], timeout=20)[1]
        print('replay:', 'still differs' if g != c else 'now agrees with gcc')
        if g != c:
            corr.violations.append(dict(payload, got=c.splitlines(), expected=g.splitlines()))
        return
    b = build_unit(ctx, 'replay', src, [payload.get('oracle_values', [])], want_asm=False, with_clang=True)
    same = not b.errors and any(b.cc_runs == r for r in (b.gcc_runs, b.clang_runs) if r)
    print('replay:', 'now agrees with gcc' if same else 'still differs')
    if not same:
        corr.violations.append(dict(payload, got=b.cc_runs, expected=b.gcc_runs))


MANIFEST = {
    'level_text': 'Lean 4 theorems over the models of parse.c stmt()/scope handling and codegen.c gen_stmt: C03_scope (lookup after any '
                  'history of enter/leave/declare = most recent declaration in the innermost open scope declaring the name, per name space; '
                  'the chain of hashmap.c tables refines it for every hash function), C03_break_binds (break/continue/case/default bind to '
                  'the innermost enclosing loop/switch; parser context restored), C03_labels (defined labels pairwise distinct, every jump '
                  'target defined), C03_switch_select (compare ladder incl. imm32/register split and the unsigned sub;cmp;jbe range test '
                  'selects exactly the matching case for every 32/64-bit value), C03_preserve_partial (trace of the emitted code on the '
                  'machine = Spec.exec for structured nests), C03_preserve_goto_partial (the same for EVERY statement form - goto, computed '
                  'goto, case labels nested anywhere (Duff) - against the small-step abstract machine Spec.execG, for every parsed function '
                  'that satisfies the language constraints), C03_execG_structured (the two abstract machines agree on structured nests), C03_label_binds (every goto / &&label node '
                  'receives the unique label of a labelled statement of exactly its own name in the same function; an undefined name is a '
                  'diagnostic; tied by a source pin of resolve_goto_labels and the three places that record label names, and by generated '
                  'programs whose label / object / typedef / tag / enumerator names are proper prefixes of one another); and the COMPOSITION '
                  'with C01: C03_function_correct_partial (a function body of expression statements, blocks, if/else, while, for(init;c;inc), '
                  'do-while, switch with case / default labels and GNU case ranges (fall-through, default anywhere, constants negative or above 32 bits, '
                  'compare ladder incl. the unsigned sub;cmp;jbe range test on the X86 model), break, continue, return over the integer expressions of C01 - all operators, && || ?: , = op= ++ -- on locals '
                  '- compiled as chibicc compiles it, runs on the label machine from the first line of the body to .L.return with %rax '
                  'representing the C11 value of the returned expression and the frame holding the final store, for every such function, '
                  'every initial store and every terminating execution of the C11 abstract machine), C03_function_labels_fresh (every '
                  'label of a function defined once: one count() for statements and expressions, new_unique_name() for break/continue/case), '
                  'C03_function_fuel_irrelevant (the outcome of the abstract machine does not depend on the fuel), C03_function_frame_preserved '
                  '(with chibicc\'s frame layout nothing at or above %rbp - saved %rbp, return address, caller\'s frame - is written), '
                  'C03_function_machine (the machine is C01\'s label machine).  Tied on every run by exact skeleton-text comparison with chibicc -S and by '
                  'trace comparison of compiled programs against gcc and the Lean spec; scoping against generated shadowing programs.',
    'level_note': 'C03_switch_select has the explicit hypothesis "lo <= hi in the controlling type" (the property\'s own wording). '
                  'Preservation is proved for all statement forms (goto, computed goto, Duff-style case labels included) under the explicit '
                  'decidable hypotheses validG (case ranges non-empty and disjoint in the controlling type, at most one default, jump '
                  'targets defined once: constraint violations have no meaning) and code size < 2^64 when a computed goto occurs; the '
                  'literal C03_preserve_Statement (exact fuel equality with Spec.exec, no hypotheses) stays open.  && || ?: , and statement '
                  'expressions are covered by differential execution against gcc only in the statement-level theorems; in '
                  'C03_function_correct_partial they are inside the theorem.  Calls and casts are abstracted in the skeleton (C06/C01).  '
                  'C03_function_correct_partial covers neither goto / labels, switch bodies that are not a list of statements each '
                  'labelled at most once at its head (Duff; the code model covers them and is tied by text), nor calls, parameter passing, '
                  'prologue / epilogue, non-integer types, pointers, globals, nor diverging or undefined executions; its hypotheses are '
                  'decidable (compileFn succeeds, every full expression conflict-free) plus the frame invariant FrameX the check validates '
                  'on chibicc\'s real offsets (layoutOK).',
    'technique': 'Lean 4: refinement + backward-history specification (scopes), structural induction with the parser state as invariant '
                 '(binding, labels), bit-vector reasoning (switch ladder), forward simulation with code-at-pc invariants (preservation); '
                 'text and trace correspondence with the real compiler',
    'design_ref': 'DESIGN.md section 6, C03',
}
