"""C06 - calls obey the System V x86-64 calling convention.

Legs (DESIGN 3.3):
  model <-> code   asm-text tie: for every generated signature the lines chibicc -S prints for the call (padding, pushes,
                   pops, `mov $N, %rax`, `add $8*stack, %rsp`, return-value handling) and for the callee (prologue with the
                   va_area set-up and the register stores, `N(%rbp)` of every parameter, the struct return sequence) must be
                   exactly the lines `drv_c06 callconv` predicts from Model/CallConv.lean.
  spec <-> gcc     register-dump callee: a caller compiled by gcc / clang calls an assembly stub that records rdi..r9,
                   xmm0-7, al, rsp and 256 bytes of stack; every argument byte must be where Spec/PsABI.lean says.
  code vs spec     the same dump with the caller compiled by chibicc, and link-time interoperation in both directions with
                   gcc 12 and clang 14 (every leaf of every argument carries a distinct value; the callee records what it
                   received, the caller what came back), chibicc<->chibicc included; probes for stack alignment at calls,
                   callee-saved registers, the hidden-pointer return in rax, va_list handed to / received from libc and gcc.
  argument conversions (parse.c funcall(), C11 6.5.2.2): checklib/c06_args.py - text tie of the whole call against
                   Model/C06Args.callText (over the argStep translated from parse.c), execution family parameter type x argument
                   type x boundary values x position x callee compiler, register dump of what the argument register holds.
  return values (parse.c `return e;`, ND_RETURN, epilogue, the normalisation after `call`; C11 6.8.6.4p3): checklib/c06_ret.py - text
                   tie of `T f(void) { return g; }` / `{ return h(); }` against Model/C06Ret (over tools/extract/retstmt.py), execution
                   family return type x expression type x boundary values x form x caller/callee compiler, dump of what %rax / %xmm0 /
                   %st(0) hold on return, assembly callees that leave garbage above the returned type.
"""
import os, json, itertools, hashlib, random
from .framework import *
from . import c06_gen as G
from . import c06_args as A
from . import c06_ret as R
from .c06_gen import Sig

PROPERTY = 'C06'
GEN_MODULES = ['templates', 'funcall', 'retstmt', 'commontype', 'casttable']
LEAN_TARGETS = ['ChibiVerif.Props.C06', 'ChibiVerif.Props.C06Fp', 'ChibiVerif.Props.C06Ret', 'ChibiVerif.Findings.C06']
PROPS_FILES = ['ChibiVerif/Props/C06.lean', 'ChibiVerif/Props/C06Fp.lean', 'ChibiVerif/Props/C06Ret.lean']
NEEDS_HOOKS = False
TRUSTED_BASE = [
    'Lean 4.33.0 kernel; axioms admitted: propext, Classical.choice, Quot.sound (audited per theorem on every run)',
    'hand-written model lean/ChibiVerif/Model/CallConv.lean of push_args/push_args2/ND_FUNCALL/assign_lvar_offsets/emit_text/'
    'copy_struct_reg/copy_struct_mem/copy_ret_buffer/stdarg.h; tied on every run by equality of the emitted assembly lines '
    '(call sequence, prologue, parameter offsets, struct-return sequence) on generated signatures, which is testing',
    'translator tools/extract/templates.py (GP_MAX, FP_MAX, argreg tables, the list of all println instruction templates)',
    'specification lean/ChibiVerif/Spec/PsABI.lean (my reading of psABI 3.2.3 / 3.5.7), validated on every run against where '
    'gcc 12 and clang 14 callers put every argument byte (register-dump callee)',
    'gcc 12, clang 14, GNU as/ld and the host CPU as ABI oracles for the interoperation runs',
    'C06_align / C06_cleanup take `depth` (slots pushed by enclosing expressions) as the true machine-stack depth: that is C20',
    'the table of implicit register operands per mnemonic in Props/C06 (callee-saved theorem) is read from the Intel SDM by hand',
    'translator tools/extract/funcall.py (the argument loop of parse.c funcall() as Gen.Funcall.argStep, func_params facts); hand model '
    'lean/ChibiVerif/Model/C06Args.lean of the loop around it and of the code of a converted argument, tied on every run by equality '
    'of the complete text of generated calls with `chibicc -S`; the argument-conversion theorems rest on C01 (`C01_cast`, `Represents`, '
    'Model/X86 validated against the CPU by the C01 check) and on C02 (`C02_select`, relative to FpuSpec)',
    'specification lean/ChibiVerif/Spec/C06ArgsSpec.lean (my reading of C11 6.5.2.2p2/p6/p7) and Spec/IntSpec.convert, validated on every '
    'run against the values a gcc-compiled callee receives from a gcc-compiled caller',
    'translator tools/extract/retstmt.py (the `return` arm of parse.c stmt(), case ND_RETURN, the switch after `call` in case ND_FUNCALL, '
    'the epilogue of emit_text, as Gen.ReturnStmt); hand model lean/ChibiVerif/Model/C06Ret.lean of the text around them, tied on every run by '
    'equality of the complete body of generated `return` functions with `chibicc -S`; the return-value theorems rest on C01 (`C01_cast`) and '
    'C02 (`C02_select`, relative to FpuSpec); the cast table and type descriptors (tools/extract/casttable.py, commontype.py) are regenerated '
    'by this check too',
    'specification lean/ChibiVerif/Spec/C06RetSpec.lean (my reading of C11 6.8.6.4p3 and of what psABI 3.2.3 leaves unspecified above the '
    'returned type), validated on every run: gcc / clang callers cope with assembly callees that leave garbage above the type, gcc / clang '
    'callees satisfy the low-bytes minimum',
]
ASSUMPTIONS = [
    'argument and return types: _Bool, char, short, int, long, pointers, float, double, long double, structs/unions/arrays of '
    'these (no _Complex, __int128, vector types: chibicc has none)',
    'object sizes fit in int; counters modelled in Nat',
    'argument-conversion theorems: between `push %rax` of an argument and its `pop` the code of the other arguments keeps the stack '
    'balanced and does not write above %rsp (that is C20 / C01_value); arguments of struct type have the parameter\'s type (6.5.2.2p2, '
    'not diagnosed by chibicc)',
    '`asm` statements are user text and excluded from the callee-saved claim',
    'return-value theorems: the value of the returned expression in %rax / %xmm0 / %st(0) is taken as given (C01 / C02), as is the '
    'x87 stack being empty below it (C20); between `call` returning and the caller\'s normalising instruction only `add $N, %rsp` runs',
]

KNOWN_IDS = ['C06-struct-with-ldouble', 'C06-packed-unaligned-param', 'C06-padding-eightbyte',
             'C06-ldouble-stack-align', 'C06-va-arg-small-struct']

GCC = ['gcc', '-w']
CLANG = ['clang-14', '-w']


# ------------------------------------------------------------------ driver

def drive(ctx, ops_sigs):
    """ops_sigs: list of (op, Sig) -> list of answer lines"""
    text = ''.join(f'{op} {s.lean()}\n' for op, s in ops_sigs)
    out = ctx.driver('callconv', text).split('\n')
    if len(out) < len(ops_sigs):
        raise RuntimeError('driver answered %d lines for %d operations' % (len(out), len(ops_sigs)))
    return out[:len(ops_sigs)]


def parse_assign(line):
    d = {}
    for w in line.split(' '):
        if '=' in w:
            k, v = w.split('=', 1)
            d[k] = v
    def locs(v):
        if v == '-':
            return []
        if v.startswith('abort'):
            return v
        out = []
        for x in v.split('/'):
            if x.startswith('r:'):
                out.append(('r', [p for p in x[2:].split(',') if p]))
            else:
                out.append(('s', int(x[2:])))
        return out
    d['caller'] = locs(d['caller'])
    d['callee'] = locs(d['callee'])
    d['spec'] = locs(d['spec'])
    d['regions'] = [] if d['regions'] == '-' else d['regions'].split(',')
    d['ret'] = d['ret'].split(';')
    return d


# ------------------------------------------------------------------ generators

def corpus_sigs():
    """past failures and the witnesses of the fixed defects (run first)"""
    I, L, D, F, LD = G.INT, G.LONG, G.DBL, G.FLT, G.LDBL
    S = G.struct_of
    big4 = S(L, L, L, L)
    out = [
        ('fixed-bd59ce7-a', Sig(None, [L, L, L, L, S(L, D)])),
        ('fixed-bd59ce7-b', Sig(None, [S(F)] + [D] * 7)),
        ('fixed-bd59ce7-c', Sig(None, [L, L, L, L, S(L, L), L])),
        ('fixed-658c008-sret', Sig(big4, [L])),
        ('fixed-f29e67e-a', Sig(None, [I] * 7 + [I, L], n_named=7, variadic=True)),
        ('fixed-f29e67e-b', Sig(None, [I, LD, D], n_named=2, variadic=True)),
        ('fixed-f29e67e-c', Sig(None, [S(L, L), I, L], n_named=1, variadic=True)),
        ('fixed-f29e67e-d', Sig(None, [S(D, D), D], n_named=1, variadic=True)),
        ('fixed-6111dbb', Sig(None, [I, LD, I], n_named=1, variadic=True)),
        ('fixed-d4810fa', Sig(None, [I] + [D] * 10, n_named=1, variadic=True)),
        ('f12', Sig(S(F, F, F), [S(F, F, F), I])),
        ('fixed-7826748-fff', Sig(S(F, F, F), [])),
        ('fixed-7826748-ffd', Sig(S(F, F, D), [I])),
        ('fixed-7826748-df', Sig(S(D, F), [S(D, F)])),
        ('fixed-7826748-f3', Sig(S(G.arr(F, 3)), [D, S(F, F, F)], depth=1)),
        ('lf', Sig(S(L, F), [S(L, F), S(F, L)])),
        ('narrow', Sig(G.BOOL, [G.BOOL, G.CHAR, G.SCHAR, G.SHORT, G.USHORT, G.UCHAR])),
        ('narrow-ret-sc', Sig(G.SCHAR, [G.CHAR] * 7)),
        ('narrow-ret-us', Sig(G.USHORT, [G.SHORT] * 8)),
        ('union-ld-l2', Sig(None, [G.union_of(LD, G.arr(L, 2)), I])),
        ('fixed-b298aee-a', Sig(None, [S(), I])),
        ('fixed-b298aee-b', Sig(S(), [I, S(), G.union_of(), D, S(L, D)])),
        ('fixed-b298aee-c', Sig(None, [L] * 6 + [S(), D] + [D] * 8 + [S(), I, D])),
        ('fixed-b298aee-d', Sig(G.union_of(), [I, S(), L], n_named=1, variadic=True)),
    ]
    return out


def known_witnesses():
    I, L, D, LD = G.INT, G.LONG, G.DBL, G.LDBL
    S = G.struct_of
    return {
        'C06-struct-with-ldouble': [Sig(None, [S(LD), I]), Sig(S(LD), [I])],
        'C06-ldouble-stack-align': [Sig(None, [I] * 7 + [LD])],
        'C06-padding-eightbyte': [Sig(None, [S((I, 16)), D])],
        'C06-packed-unaligned-param': [Sig(None, [S(G.CHAR, D, packed=True), I])],
        'C06-va-arg-small-struct': [Sig(None, [I, S(L), I], n_named=1, variadic=True)],
    }


PROBE_ARGS = ['int', 'dbl', 'ldbl', 'I', 'S', 'II', 'SS', 'IS', 'SI', 'big', 'empty']


def probe_arg(rng, kind):
    if kind == 'int':
        return rng.choice(G.INTS)
    if kind == 'dbl':
        return rng.choice([G.FLT, G.DBL])
    if kind == 'ldbl':
        return G.LDBL
    if kind == 'big':
        return G.rand_big_agg(rng)
    if kind == 'empty':
        return G.empty_agg(rng)
    return G.rand_small_agg(rng, kind)


def boundary_sig(rng, gp_used, sse_used, kind, variadic=False, depth=0, ret='rand'):
    """`gp_used` INTEGER and `sse_used` SSE registers are taken (by scalars and by aggregates, shuffled) before an
    argument of the probed kind; a short tail follows"""
    pre = []
    g, f = gp_used, sse_used
    while g > 0 or f > 0:
        opts = []
        if g >= 2:
            opts.append(('II', 2, 0))
        if g >= 1 and f >= 1:
            opts += [('IS', 1, 1), ('SI', 1, 1)]
        if f >= 2:
            opts.append(('SS', 0, 2))
        if g >= 1:
            opts += [('int', 1, 0)] * 3
        if f >= 1:
            opts += [('dbl', 0, 1)] * 3
        k, dg, df = rng.choice(opts)
        if g > 6 and k != 'int':       # beyond the registers only scalars keep the count exact
            k, dg, df = 'int', 1, 0
        if f > 8 and g <= 6 and k != 'dbl':
            k, dg, df = 'dbl', 0, 1
        pre.append(probe_arg(rng, k))
        g -= dg
        f -= df
    rng.shuffle(pre)
    # the count of used registers must not depend on the order: aggregates that would not fit go first is not needed,
    # a shuffled prefix only changes *which* argument spills, which is the point
    tail = [rng.choice([G.INT, G.DBL, G.LONG, G.FLT]) for _ in range(rng.randrange(0, 3))]
    params = pre + [probe_arg(rng, kind)] + tail
    r = G.rand_ret(rng) if ret == 'rand' else ret
    if variadic:
        n_named = rng.randrange(1, len(params) + 1)
        params = params[:n_named] + [G.promote(p) for p in params[n_named:]]
        return Sig(r, params, n_named=n_named, variadic=True, depth=depth)
    return Sig(r, params, depth=depth)


def random_sig(rng):
    n = rng.choice([0, 1, 2, 3, 4, 6, 8, 10, 12, 15])
    params = [G.rand_param(rng) for _ in range(n)]
    variadic = n > 0 and rng.random() < 0.3
    depth = rng.choice([0, 0, 0, 1, 2])
    r = G.rand_ret(rng)
    if variadic:
        n_named = rng.randrange(1, n + 1)
        params = params[:n_named] + [G.promote(p) for p in params[n_named:]]
        return Sig(r, params, n_named=n_named, variadic=True, depth=depth)
    unproto = rng.random() < 0.08 and all(p.k in ('int', 'dbl', 'ldbl', 'agg') and (p.k != 'int' or p.size >= 4) for p in params)
    return Sig(r, params, depth=depth, unproto=unproto)


def region_sig(rng, rid):
    """signatures inside a known-finding region (they must be tagged, never reported as new)"""
    I, L, D, LD = G.INT, G.LONG, G.DBL, G.LDBL
    S = G.struct_of
    pre = [rng.choice([I, D, L]) for _ in range(rng.randrange(0, 4))]
    post = [rng.choice([I, D]) for _ in range(rng.randrange(0, 3))]
    if rid == 'C06-struct-with-ldouble':
        t = rng.choice([S(LD), G.union_of(LD, L), G.union_of(LD, G.CHAR)])
        return Sig(rng.choice([None, t, I]), pre + [t] + post)
    if rid == 'C06-ldouble-stack-align':
        k = rng.choice([7, 9])
        return Sig(None, [I] * k + [LD] + post)
    if rid == 'C06-padding-eightbyte':
        t = rng.choice([S((I, 16)), S((G.CHAR, 16)), S((D, 16))])
        return Sig(rng.choice([None, I]), pre + [t] + post + [D])
    if rid == 'C06-packed-unaligned-param':
        t = rng.choice([S(G.CHAR, D, packed=True), S(G.CHAR, L, packed=True), S(G.SHORT, D, G.CHAR, packed=True)])
        return Sig(None, pre + [t] + post)
    if rid == 'C06-va-arg-small-struct':
        t = rng.choice([S(L), S(D), S(L, L), S(L, D), S(I, I)])
        return Sig(None, [I] + pre + [t] + post, n_named=1, variadic=True)
    raise KeyError(rid)


def named_stack_struct(size, flavour):
    """a by-value struct of exactly `size` bytes (9..24): flavour 0 = char array (alignment 1), 1 = ints / longs where the
    size allows it (12 = int x3, 16 = long+int+pad.., 20 = int x5, 24 = long x3), else char array"""
    if flavour == 1:
        if size % 8 == 0:
            return G.struct_of(*([G.LONG] * (size // 8)))
        if size % 4 == 0:
            return G.struct_of(G.arr(G.INT, size // 4))
        if size % 2 == 0:
            return G.struct_of(G.arr(G.SHORT, size // 2))
    return G.struct_of(G.arr(G.CHAR, size))


def va_stack_sigs(rng, thorough):
    """variadic callees whose named parameters end on the stack at an address that is not a multiple of 8: a by-value
    struct of 9..24 bytes that is MEMORY class (> 16 bytes) or spills because the registers are used up, followed by variadic
    arguments fetched from the overflow area (ints, doubles, long double, structs).  overflow_arg_area must start at the
    end of the named stack parameters *rounded up to an eightbyte*."""
    I, L, D, LD = G.INT, G.LONG, G.DBL, G.LDBL
    tails = [
        lambda: [L] * 7,                                   # runs through the remaining GP registers into the overflow area
        lambda: [D] * 9 + [I],
        lambda: [I, D] * 7,
        lambda: [L] * 6 + [G.struct_of(L, L, L), I, D],     # a MEMORY-class struct among the variadic arguments
        lambda: [L] * 6 + [G.struct_of(L), G.struct_of(I, I, I), L],   # small structs after the GP registers are gone: on the stack
        lambda: [L] * 6 + [LD, I],
        lambda: [LD, L, L, L, L, L, L, L],
    ]
    cells = []
    for size in range(9, 25):
        for flavour in (0, 1):
            for prefix in (0, 5, 6):
                for after in (0, 1):                       # an int named parameter after the struct (the usual `int n, ...`)
                    cells.append((size, flavour, prefix, after))
    must = [c for c in cells if c[0] in (12, 20) and c[3] == 1] + [c for c in cells if c[0] in (9, 17, 23) and c[1] == 0 and c[3] == 0]
    if not thorough:
        rest = [c for c in cells if c not in must]
        rng.shuffle(rest)
        cells = must + rest[:12]
    out = []
    for (size, flavour, prefix, after) in cells:
        named = [L] * prefix + [named_stack_struct(size, flavour)] + ([I] if after else [])
        for tail in (tails if thorough else [tails[rng.randrange(len(tails))], tails[0]]):
            va = tail()
            out.append(Sig(rng.choice([None, L]), named + va, n_named=len(named), variadic=True, depth=rng.choice([0, 0, 1])))
    return out


def gen_sigs(ctx):
    """[(tag, Sig)]"""
    rng = ctx.rng
    out = [('corpus:' + n, s) for n, s in corpus_sigs()]
    cdir = os.path.join(VERIF, 'corpus', 'C06')
    have = {s.lean() for _, s in out}
    if os.path.isdir(cdir):
        for fn in sorted(os.listdir(cdir)):
            for line in open(os.path.join(cdir, fn)):
                if line.startswith('#') or '|' not in line:
                    continue
                w = [x.strip() for x in line.split('|')]
                if w[0].startswith('known:') or w[1] in have:
                    continue        # witnesses of known findings are replayed separately
                try:
                    out.append(('corpus:' + w[0], sig_from_lean(w[1], w[2] if len(w) > 2 else '')))
                    have.add(w[1])
                except Exception as ex:
                    ctx.notes.append(f'corpus line not understood: {w[0]}: {ex}')
    # boundary battery: positions relative to register exhaustion x probed class
    cells = [(g, f, k) for g in range(0, 8) for f in (0, 3, 6, 7, 8, 9) for k in PROBE_ARGS]
    if ctx.thorough:
        cells = [(g, f, k) for g in range(0, 8) for f in range(0, 10) for k in PROBE_ARGS]
        reps = 3
    else:
        rng.shuffle(cells)
        cells = cells[:110]
        reps = 1
    for (g, f, k) in cells:
        for _ in range(reps):
            va = rng.random() < 0.3
            out.append((f'boundary:{k}', boundary_sig(rng, g, f, k, variadic=va, depth=rng.choice([0, 0, 1, 2]))))
    for _ in range(400 if ctx.thorough else 50):
        out.append(('random', random_sig(rng)))
    for sg in va_stack_sigs(rng, ctx.thorough):
        out.append(('va-named-stack', sg))
    for rid in KNOWN_IDS:
        for _ in range(6 if ctx.thorough else 2):
            out.append(('region', region_sig(rng, rid)))
    # all-float structs of 12 / 16 bytes (and their neighbours) as return values, behind a few arguments, at depth
    fl = R.float_structs()
    if not ctx.thorough:
        fl = fl[:3] + rng.sample(fl[3:], 3)
    for t in fl:
        out.append(('ret-float-struct', Sig(t, [G.rand_param(rng) for _ in range(rng.randrange(0, 3))], depth=rng.choice([0, 0, 1, 2]))))
    # return classes at depth
    for _ in range(60 if ctx.thorough else 10):
        out.append(('ret', Sig(G.rand_ret(rng), [G.rand_param(rng) for _ in range(rng.randrange(0, 4))], depth=rng.choice([0, 1, 2]))))
    return out


def nontrivial(s):
    """not all arguments are integers in registers with an integer/void return"""
    if s.ret is not None and s.ret.k != 'int':
        return True
    if s.variadic or s.depth:
        return True
    if any(p.k != 'int' for p in s.params):
        return True
    return len(s.params) > 6


# ------------------------------------------------------------------ asm-text tie

KEEP = re.compile(r'^  (push %rax|pop %\w+|sub \$\d+, %rsp|add \$\d+, %rsp|movsd %xmm0, \(%rsp\)|movsd \(%rsp\), %xmm\d|'
                  r'fstpt \(%rsp\)|mov \d+\(%rax\), %r10b|mov %r10b, \d+\(%rsp\)|mov %rax, %r10|mov \$\d+, %rax|call \*%r10|'
                  r'movzx %al, %eax|movzbl %al, %eax|movsbl %al, %eax|movzwl %ax, %eax|movswl %ax, %eax|'
                  r'movs[sd] %xmm\d, -?\d+\(%rbp\)|mov %[ad]l, -?\d+\(%rbp\)|shr \$8, %r[ad]x|lea -?\d+\(%rbp\), %rax)$')


def functions_of(asm):
    """name -> list of lines (without .loc), from the label to the epilogue label"""
    out = {}
    cur = None
    for l in asm.split('\n'):
        if l.startswith('  .loc ') or l.startswith('  .file '):
            continue
        m = re.match(r'^([A-Za-z_]\w*):$', l)
        if m:
            cur = m.group(1)
            out[cur] = []
            continue
        if l.startswith('.L.return.'):
            cur = None
            continue
        if cur is not None:
            out[cur].append(l)
    return out


def caller_lines(lines):
    keep = []
    # drop the prologue (4 lines)
    body = lines[4:]
    for i, l in enumerate(body):
        if not KEEP.match(l):
            continue
        if l == '  movzx %al, %eax' and i > 0 and body[i - 1].startswith('  setne'):
            continue        # conversion of an argument to _Bool, not the return-value normalisation
        keep.append(l)
    return keep


def expected_caller(s, model_lines):
    exp = []
    d = s.depth
    exp += ['  push %rax'] * d
    exp += model_lines
    if d:
        regs = ['%rdi', '%rsi', '%rdx']
        exp += ['  push %rax'] + [f'  pop {regs[i]}' for i in range(d + 1)]
        exp += ['  mov %rax, %r10', '  mov $0, %rax', '  call *%r10', '  add $0, %rsp']
    return exp


def tie_batch(ctx, corr, batch, k0, d):
    """batch: list of (tag, Sig).  Compiles tie_caller.c / tie_callee.c with chibicc -S and compares with the model."""
    sigs = [s for _, s in batch]
    fs = G.emit_tie_files(sigs, k0)
    for n, t in fs.items():
        open(os.path.join(d, n), 'w').write(t)
    ans = drive(ctx, [(op, s) for s in sigs for op in ('callasm', 'calleeasm')])
    res = {}
    for role in ('caller', 'callee'):
        rc, o, e = sh([ctx.cc, '-S', '-o', f'tie_{role}.s', f'tie_{role}.c'], cwd=d, timeout=120)
        res[role] = (rc, e)
    ok = True
    fn_caller = functions_of(open(os.path.join(d, 'tie_caller.s')).read()) if res['caller'][0] == 0 else None
    fn_callee = functions_of(open(os.path.join(d, 'tie_callee.s')).read()) if res['callee'][0] == 0 else None
    for i, s in enumerate(sigs):
        k = k0 + i
        m_call = ans[2 * i].split('|') if ans[2 * i] else []
        m_callee = ans[2 * i + 1]
        corr.evaluations += 1
        # ---- caller
        if fn_caller is None:
            if len(sigs) == 1:
                corr.disagreements.append({'kind': 'tie-caller', 'sig': s.short(), 'model': 'compiles', 'impl': 'cc1 failed: ' + res['caller'][1][-200:]})
            ok = False
        else:
            got = caller_lines(fn_caller.get(f'caller{k}', []))
            exp = expected_caller(s, m_call)
            if got != exp:
                j = next((j for j in range(min(len(got), len(exp))) if got[j] != exp[j]), min(len(got), len(exp)))
                corr.disagreements.append({'kind': 'tie-caller', 'sig': s.short(), 'lean': s.lean(), 'line': j,
                                           'model': exp[j] if j < len(exp) else '<end>', 'impl': got[j] if j < len(got) else '<end>'})
                ok = False
        # ---- callee
        aborts = m_callee.startswith('abort')
        if fn_callee is None:
            if len(sigs) == 1:
                if not aborts:
                    corr.disagreements.append({'kind': 'tie-callee', 'sig': s.short(), 'model': 'compiles', 'impl': 'cc1 failed: ' + res['callee'][1][-200:]})
                else:
                    corr.count('tie-abort-agrees')
            ok = False
            continue
        if aborts:
            corr.disagreements.append({'kind': 'tie-callee', 'sig': s.short(), 'model': m_callee, 'impl': 'compiles'})
            ok = False
            continue
        pro, offs, retseq = m_callee.split('#')
        pro = pro.split('|')
        offs = [int(x) for x in offs.split(',') if x]
        retseq = retseq.split('|') if retseq else []
        lines = fn_callee.get(f'f{k}', [])
        is_sink = lambda l: re.fullmatch(r'  (lea sink\(%rip\)|mov sink@GOTPCREL\(%rip\)), %rax', l)
        is_gret = lambda l: re.fullmatch(r'  (lea gret\d+\(%rip\)|mov gret\d+@GOTPCREL\(%rip\)), %rax', l)
        cut = next((j for j, l in enumerate(lines) if is_sink(l) or is_gret(l) or l.startswith('  jmp ')), len(lines))
        got_pro = lines[:cut]
        got_offs = [int(m.group(1)) for l in lines[cut:] for m in [re.fullmatch(r'  lea (-?\d+)\(%rbp\), %rax', l)] if m]
        got_ret = []
        if s.ret is not None and s.ret.k == 'agg':
            gi = max((j for j, l in enumerate(lines) if is_gret(l)), default=None)
            if gi is not None:
                got_ret = [l for l in lines[gi + 1:] if not l.startswith('  jmp ')]
        for what, a, b in (('prologue', pro, got_pro), ('param-offsets', offs, got_offs), ('return-sequence', retseq, got_ret)):
            if a != b:
                j = next((j for j in range(min(len(a), len(b))) if a[j] != b[j]), min(len(a), len(b)))
                corr.disagreements.append({'kind': 'tie-callee ' + what, 'sig': s.short(), 'lean': s.lean(), 'line': j,
                                           'model': a[j] if j < len(a) else '<end>', 'impl': b[j] if j < len(b) else '<end>'})
                ok = False
                break
    return ok


def run_tie(ctx, corr, cases):
    d = os.path.join(ctx.scratch, 'tie')
    os.makedirs(d, exist_ok=True)
    B = 40
    for i in range(0, len(cases), B):
        batch = cases[i:i + B]
        n0 = len(corr.disagreements)
        ok = tie_batch(ctx, corr, batch, i, d)
        if not ok and len(corr.disagreements) == n0:
            # a cc1 failure inside the batch: one by one (the model predicts which signatures abort cc1)
            corr.evaluations -= len(batch)
            for j, c in enumerate(batch):
                tie_batch(ctx, corr, [c], i + j, d)
        if len(corr.disagreements) > 5:
            break
    corr.count('tie-signatures', len(cases))


# ------------------------------------------------------------------ compile / link / run

def compiler(ctx, name):
    if name == 'chibicc':
        return [ctx.cc]
    if name == 'gcc':
        return GCC + [ctx.gcc_opt]
    return CLANG + [ctx.clang_opt]


def compile_obj(ctx, name, src, obj, d):
    rc, o, e = sh(compiler(ctx, name) + ['-c', src, '-o', obj], cwd=d, timeout=300)
    return rc, e


def link_run(ctx, objs, exe, d):
    rc, o, e = sh(['gcc', '-o', exe] + objs, cwd=d, timeout=120)
    if rc != 0:
        return None, 'link failed: ' + e[-300:]
    rc, o, e = sh(['./' + exe], cwd=d, timeout=60)
    return (rc, o), None


def leaf_bytes(lt, words):
    if lt.k == 'ldbl':
        return words[0].to_bytes(8, 'little') + words[1].to_bytes(2, 'little')
    return words[0].to_bytes(8, 'little')[:lt.size]


# ------------------------------------------------------------------ register-dump check (spec <-> gcc/clang, chibicc vs spec)

def dump_batch(ctx, corr, who, sigs, infos, k0, d):
    """returns list of per-signature results: None (ok) or description"""
    fs = G.emit_dump_files(sigs, k0)
    for n, t in fs.items():
        open(os.path.join(d, n), 'w').write(t)
    if not os.path.exists(os.path.join(d, 'dump.o')) or True:
        sh(GCC + ['-c', 'dump.s', '-o', 'dump.o'], cwd=d)
        sh(GCC + ['-O1', '-c', 'main.c', '-o', 'main.o'], cwd=d)
    rc, e = compile_obj(ctx, who, 'caller.c', f'caller_{who}.o', d)
    if rc != 0:
        return [('compile', e[-300:])] * len(sigs)
    r, err = link_run(ctx, ['main.o', 'dump.o', f'caller_{who}.o'], f'dump_{who}', d)
    if err:
        return [('link', err)] * len(sigs)
    rc, out = r
    dumps = {}
    for l in out.split('\n'):
        if l.startswith('D '):
            w = l.split(' ')
            dumps[int(w[1])] = w
        elif l.startswith('LAYOUT'):
            return [('layout', l)] * len(sigs)
    res = []
    for i, s in enumerate(sigs):
        k = k0 + i
        w = dumps.get(k)
        if w is None:
            res.append(('crash', f'no dump for call {k} (rc={rc})'))
            continue
        gp = [int(x, 16) for x in w[2:8]]
        xmm = [int(x, 16) for x in w[8:16]]
        al = int(w[16], 16)
        rsp16 = int(w[17], 16)
        stack = bytes.fromhex(w[18])
        info = infos[i]
        args, _, _ = G.plan(s, k)
        bad = None
        if int(info['specstack']) > DUMP_STACK or 8 * int(info['stack']) > DUMP_STACK:
            res.append(('window', 'stack arguments exceed the dump window'))
            continue
        for which in ('spec', 'caller'):
            locs = info[which]
            if isinstance(locs, str):
                continue
            for ai, ls in enumerate(args):
                loc = locs[ai] if ai < len(locs) else None
                if loc is None:
                    continue
                offs = {path: off for path, _, off in G.leaves(s.params[ai])}
                for path, lt, words, rid in ls:
                    off = offs[path]
                    want = leaf_bytes(lt, words)
                    if loc[0] == 's':
                        got = stack[loc[1] + off: loc[1] + off + len(want)]
                    else:
                        image = b''
                        for r_ in loc[1]:
                            v = gp[int(r_[2:])] if r_.startswith('gp') else xmm[int(r_[3:])]
                            image += v.to_bytes(8, 'little')
                        # an eightbyte without a register (NO_CLASS) carries no leaf: the image is indexed by eightbytes that have one
                        got = image[off: off + len(want)] if len(image) >= off + len(want) else b''
                    if got != want and bad is None:
                        bad = (which, f'argument {ai}{path}: expected {want.hex()} at {loc}, found {got.hex() if isinstance(got, bytes) else got}')
            if bad and bad[0] == 'spec':
                break
        if bad is None and rsp16 != 8:
            bad = ('align', f'rsp = {rsp16} (mod 16) on entry to the callee, must be 8')
        if bad is None and s.variadic:
            specal = int(info['specal'])
            if not (specal <= al <= 8):
                bad = ('al', f'al = {al}, {specal} vector registers are used')
        if bad is None and who == 'chibicc' and al != int(info['al']):
            bad = ('caller', f'al = {al}, model says {info["al"]}')
        res.append(bad)
    return res


def run_dump(ctx, corr, cases, infos):
    """cases: [(tag, Sig)], infos: parsed assign lines"""
    base = os.path.join(ctx.scratch, 'dump')
    B = 40
    spec_checked = 0
    for who in ('gcc', 'clang', 'chibicc'):
        d = os.path.join(base, who)
        os.makedirs(d, exist_ok=True)
        for i in range(0, len(cases), B):
            sigs = [s for _, s in cases[i:i + B]]
            inf = infos[i:i + B]
            res = dump_batch(ctx, corr, who, sigs, inf, i, d)
            if any(r is not None and r[0] in ('compile', 'link', 'crash') for r in res) and len(sigs) > 1:
                res = []
                for j, s in enumerate(sigs):
                    res += dump_batch(ctx, corr, who, [s], [inf[j]], i + j, d)
            for j, r in enumerate(res):
                s = sigs[j]
                info = inf[j]
                corr.evaluations += 1
                corr.count(f'dump-{who}')
                if r is None:
                    if who != 'chibicc':
                        spec_checked += 1
                    continue
                kind, msg = r
                if kind == 'layout':
                    corr.count('skipped_layout')
                    continue
                if kind == 'window':
                    corr.count('skipped_dump_window')
                    continue
                region = info['regions']
                if who != 'chibicc':
                    # the oracle disagrees with Spec/PsABI.lean: the specification (or this harness) is wrong
                    if kind in ('spec', 'align', 'al'):
                        corr.disagreements.append({'kind': f'spec-vs-{who}', 'sig': s.short(), 'lean': s.lean(), 'what': msg,
                                                   'spec': info['spec'], 'note': 'Spec/PsABI.lean does not describe where this compiler puts the argument'})
                    elif kind in ('compile', 'link', 'crash'):
                        corr.count(f'skipped_{who}_{kind}')
                    continue
                # chibicc as the caller
                if kind == 'caller':
                    corr.disagreements.append({'kind': 'dump-vs-model', 'sig': s.short(), 'lean': s.lean(), 'what': msg, 'model': info['caller']})
                elif kind in ('spec', 'align', 'al'):
                    v = {'what': f'chibicc-compiled caller does not follow the psABI: {msg}', 'input': s.short(), 'lean': s.lean(),
                         'expected': f'psABI placement {info["spec"]}', 'got': f'chibicc placement {info["caller"]}', 'mode': 'dump'}
                    if region:
                        v['known_id'] = region[0]
                    corr.violations.append(v)
                elif kind in ('compile', 'crash', 'link'):
                    v = {'what': f'chibicc caller: {kind}: {msg}', 'input': s.short(), 'lean': s.lean(), 'expected': 'compiles and runs', 'got': msg, 'mode': 'dump'}
                    if region:
                        v['known_id'] = region[0]
                    corr.violations.append(v)
        if len(corr.disagreements) > 5:
            break
    corr.extra['spec_placements_confirmed_by_gcc_and_clang'] = spec_checked


# ------------------------------------------------------------------ return-value dump (spec <-> gcc/clang, chibicc callee vs spec)

def ret_image(loc, regs):
    """bytes of the returned object as the location list says: 8 bytes per rax/rdx/xmm piece; st0 covers a whole 16-byte pair"""
    image = b''
    for r in loc:
        if r == 'st0':
            image += regs['st0']
        else:
            image += regs[r].to_bytes(8, 'little')
    return image


def run_retdump(ctx, corr, cases, infos):
    base = os.path.join(ctx.scratch, 'retdump')
    sel = [(c, i) for c, i in zip(cases, infos) if c[1].ret is not None]
    # one entry per distinct return type
    seen = set()
    uniq = []
    for c, i in sel:
        key = c[1].ret.key()
        if key not in seen:
            seen.add(key)
            uniq.append((Sig(c[1].ret, []), i))
    confirmed = 0
    for who in ('gcc', 'clang', 'chibicc'):
        d = os.path.join(base, who)
        os.makedirs(d, exist_ok=True)
        sigs = [s for s, _ in uniq]
        flags = ['st0' in i['ret'][2] for _, i in uniq]
        fs = G.emit_ret_files(sigs, flags)
        for n, t in fs.items():
            open(os.path.join(d, n), 'w').write(t)
        sh(GCC + ['-c', 'retdump.s', '-o', 'retdump.o'], cwd=d)
        sh(GCC + ['-O1', '-c', 'ret_main.c', '-o', 'ret_main.o'], cwd=d)
        rc, e = compile_obj(ctx, who, 'ret_callee.c', f'ret_callee_{who}.o', d)
        if rc != 0:
            if who == 'chibicc':
                corr.violations.append({'what': 'chibicc rejects the return-value probe', 'input': 'ret_callee.c', 'expected': 'compiles', 'got': e[-300:]})
            continue
        r, err = link_run(ctx, ['ret_main.o', 'retdump.o', f'ret_callee_{who}.o'], f'ret_{who}', d)
        if err:
            raise RuntimeError(err)
        rc, out = r
        lines = {}
        for l in out.split('\n'):
            if l.startswith('R '):
                w = l.split(' ')
                lines[int(w[1])] = w
        for k, (s, info) in enumerate(uniq):
            corr.evaluations += 1
            corr.count(f'retdump-{who}')
            w = lines.get(k)
            region = info['regions']
            if w is None:
                if who == 'chibicc':
                    v = {'what': f'return-value probe crashed (exit status {rc})', 'input': s.short(), 'lean': s.lean(), 'expected': 'runs', 'got': 'crash', 'mode': 'retdump'}
                    if region:
                        v['known_id'] = region[0]
                    corr.violations.append(v)
                continue
            regs = {'rax': int(w[2], 16), 'rdx': int(w[3], 16), 'xmm0': int(w[4], 16), 'xmm1': int(w[5], 16),
                    'st0': int(w[6], 16).to_bytes(8, 'little') + int(w[7], 16).to_bytes(2, 'little') + bytes(6)}
            rax_is_buf = w[8] == '1'
            buf = bytes.fromhex(w[9])
            _, rets, _ = G.plan(s, k)
            offs = {path: off for path, _, off in G.leaves(s.ret)}
            def check(loctext):
                if loctext == 'void':
                    return None
                if loctext.startswith('mem'):
                    if loctext == 'mem:rax' and not rax_is_buf:
                        return 'rax is not the hidden pointer on return'
                    image = buf
                else:
                    image = ret_image([x for x in loctext[2:].split(',') if x], regs)
                for path, lt, words, rid in rets:
                    want = leaf_bytes(lt, words)
                    got = image[offs[path]: offs[path] + len(want)]
                    if got != want:
                        return f'leaf {path}: expected {want.hex()} at {loctext}, found {got.hex()}'
                return None
            bad_spec = check(info['ret'][2])
            if who != 'chibicc':
                if bad_spec:
                    corr.disagreements.append({'kind': f'spec-ret-vs-{who}', 'sig': s.short(), 'lean': s.lean(), 'what': bad_spec, 'spec': info['ret'][2]})
                else:
                    confirmed += 1
                continue
            bad_model = check(info['ret'][1]) if not info['ret'][1].startswith('abort') else None
            if bad_model and not (bad_spec is None and 'st0' in info['ret'][2] and 'st0' not in info['ret'][1]):
                corr.disagreements.append({'kind': 'retdump-vs-model', 'sig': s.short(), 'lean': s.lean(), 'what': bad_model, 'model': info['ret'][1]})
            if bad_spec:
                v = {'what': f'chibicc-compiled callee does not return the value as the psABI says: {bad_spec}', 'input': s.short(), 'lean': s.lean(),
                     'expected': f'psABI return location {info["ret"][2]}', 'got': f'chibicc return location {info["ret"][1]}', 'mode': 'retdump'}
                if region:
                    v['known_id'] = region[0]
                corr.violations.append(v)
    corr.extra['spec_return_locations_confirmed_by_gcc_and_clang'] = confirmed


# ------------------------------------------------------------------ link-time interoperation

DUMP_STACK = 1024

COMBOS = [('chibicc', 'chibicc'), ('chibicc', 'gcc'), ('gcc', 'chibicc'), ('chibicc', 'clang'), ('clang', 'chibicc'),
          ('gcc', 'clang'), ('clang', 'gcc')]


def interop_batch(ctx, sigs, k0, d, combos=COMBOS):
    """-> {combo: [None | description per signature]}"""
    fs = G.emit_files(sigs, k0)
    for n, t in fs.items():
        open(os.path.join(d, n), 'w').write(t)
    sh(GCC + ['-O1', '-c', 'main.c', '-o', 'main.o'], cwd=d)
    exp = {}
    for i, s in enumerate(sigs):
        exp[k0 + i] = G.expected_log(s, k0 + i)[1:]
    objs = {}
    for who in sorted({c for ab in combos for c in ab}):
        for role in ('caller', 'callee'):
            if any((role == 'caller' and a == who) or (role == 'callee' and b == who) for a, b in combos):
                objs[(who, role)] = compile_obj(ctx, who, role + '.c', f'{role}_{who}.o', d)
    out = {}
    for (a, b) in combos:
        fails = [objs[(a, 'caller')], objs[(b, 'callee')]]
        bad = next((f for f in fails if f[0] != 0), None)
        if bad:
            out[(a, b)] = [('compile', bad[1][-300:])] * len(sigs)
            continue
        r, err = link_run(ctx, ['main.o', f'caller_{a}.o', f'callee_{b}.o'], f'p_{a}_{b}', d)
        if err:
            out[(a, b)] = [('link', err)] * len(sigs)
            continue
        rc, text = r
        got = {}
        cur = None
        layout = None
        for l in text.split('\n'):
            if l.startswith('B '):
                cur = int(l[2:])
                got[cur] = []
            elif l.startswith('LAYOUT'):
                layout = l
            elif l == 'END':
                cur = None
            elif cur is not None and l:
                got[cur].append(l)
        res = []
        for i, s in enumerate(sigs):
            k = k0 + i
            if layout:
                res.append(('layout', layout))
            elif k not in got:
                res.append(('crash', f'call {k} never reached its callee (exit status {rc})'))
            elif got[k] != exp[k]:
                e_, g_ = exp[k], got[k]
                j = next((j for j in range(min(len(e_), len(g_))) if e_[j] != g_[j]), min(len(e_), len(g_)))
                res.append(('mismatch', f'record {j}: expected "{e_[j] if j < len(e_) else "<end>"}", got "{g_[j] if j < len(g_) else "<end>"}"'
                            + (f' (exit status {rc})' if rc else '')))
            else:
                res.append(None)
        if rc != 0 and all(r is None for r in res):
            res[-1] = ('crash', f'exit status {rc} after the last call')
        out[(a, b)] = res
    return out


def leaf_name(s, k, rec_index):
    return ''


def check_one(ctx, s, combo, d):
    r = interop_batch(ctx, [s], 0, d, [combo])[combo][0]
    return r


def shrink_sig(ctx, s, combo, d):
    """drop parameters while the combination still fails"""
    cur = s
    changed = True
    while changed and len(cur.params) > 0:
        changed = False
        for i in range(len(cur.params)):
            ps = cur.params[:i] + cur.params[i + 1:]
            nn = cur.n_named - (1 if i < cur.n_named else 0)
            if cur.variadic and nn < 1:
                continue
            cand = cur.with_params(ps, nn)
            r = check_one(ctx, cand, combo, d)
            if r is not None and r[0] in ('mismatch', 'crash'):
                cur = cand
                changed = True
                break
    if cur.depth:
        cand = Sig(cur.ret, cur.params, cur.n_named, cur.variadic, 0, cur.unproto)
        r = check_one(ctx, cand, combo, d)
        if r is not None and r[0] in ('mismatch', 'crash'):
            cur = cand
    return cur


def run_interop(ctx, corr, cases, infos):
    base = os.path.join(ctx.scratch, 'interop')
    os.makedirs(base, exist_ok=True)
    B = 30
    reported = 0
    new_reported = 0
    for i in range(0, len(cases), B):
        sigs = [s for _, s in cases[i:i + B]]
        inf = infos[i:i + B]
        d = os.path.join(base, f'b{i}')
        os.makedirs(d, exist_ok=True)
        res = interop_batch(ctx, sigs, i, d)
        # a crash or a compile failure hides the later signatures of the batch: rerun those one by one
        for combo in COMBOS:
            if any(r is not None and r[0] in ('crash', 'compile', 'link') for r in res[combo]) and len(sigs) > 1:
                one = []
                for j, s in enumerate(sigs):
                    d1 = os.path.join(d, 'one')
                    os.makedirs(d1, exist_ok=True)
                    one.append(interop_batch(ctx, [s], i + j, d1, [combo])[combo][0])
                res[combo] = one
        for j, s in enumerate(sigs):
            info = inf[j]
            region = info['regions']
            oracle_ok = res[('gcc', 'clang')][j] is None and res[('clang', 'gcc')][j] is None
            if any(res[c][j] is not None and res[c][j][0] == 'layout' for c in COMBOS):
                corr.count('skipped_layout')
                continue
            if not oracle_ok:
                # gcc and clang do not interoperate on this signature (or one of them rejects it): no agreed ABI to test against
                corr.count('skipped_oracles_disagree')
                corr.extra.setdefault('oracles_disagree', []).append(s.short())
                continue
            for combo in COMBOS[:5]:
                corr.evaluations += 1
                corr.count('interop-' + '->'.join(combo))
                r = res[combo][j]
                if r is None:
                    continue
                if region:
                    if reported >= 12:
                        corr.count('known-region-failures-not-listed')
                        continue
                    reported += 1
                else:
                    if new_reported >= 6:
                        continue
                    new_reported += 1
                small = s
                if not region and r[0] in ('mismatch', 'crash'):
                    try:
                        small = shrink_sig(ctx, s, combo, os.path.join(d, 'shrink'))
                    except Exception as ex:
                        ctx.notes.append(f'shrink raised {ex}')
                    os.makedirs(os.path.join(d, 'shrink'), exist_ok=True)
                    # shrinking must not walk into a known-finding region (the original is outside all of them)
                    if small is not s and parse_assign(drive(ctx, [('assign', small)])[0])['regions']:
                        small = s
                v = {'what': f'caller compiled by {combo[0]}, callee by {combo[1]}: {r[0]}: {r[1]}',
                     'input': small.short(), 'lean': small.lean(), 'original': s.short(), 'original_lean': s.lean(), 'combo': list(combo),
                     'expected': 'every argument leaf and the return value arrive intact', 'got': r[1], 'mode': 'interop'}
                if region:
                    v['known_id'] = region[0]
                corr.violations.append(v)
    return


# ------------------------------------------------------------------ probes

def run_probes(ctx, corr):
    d = os.path.join(ctx.scratch, 'probe')
    os.makedirs(d, exist_ok=True)
    H = os.path.join(VERIF, 'tools', 'harness')
    rc, o, e = sh(GCC + ['-O1', '-fno-omit-frame-pointer', '-c', os.path.join(H, 'c06_probe_ref.c'), '-o', 'ref.o'], cwd=d)
    if rc != 0:
        raise RuntimeError('probe reference does not compile: ' + e[-400:])
    for who in ('gcc', 'chibicc'):
        rc, e = compile_obj(ctx, who, os.path.join(H, 'c06_probe_impl.c'), f'impl_{who}.o', d)
        if rc != 0:
            if who == 'chibicc':
                corr.violations.append({'what': 'probe source rejected by chibicc', 'input': 'tools/harness/c06_probe_impl.c', 'expected': 'compiles', 'got': e[-300:]})
            continue
        r, err = link_run(ctx, ['ref.o', f'impl_{who}.o'], f'probe_{who}', d)
        if err:
            raise RuntimeError(err)
        rc, out = r
        for l in out.strip().split('\n'):
            corr.evaluations += 1
            corr.count(f'probe-{who}')
            name = l.split(' ')[0]
            if ' ok' in l[:len(name) + 3]:
                continue
            if who == 'gcc':
                corr.disagreements.append({'kind': 'probe-invalid', 'what': 'the probe fails on gcc-compiled code: ' + l})
            else:
                corr.violations.append({'what': f'probe {name}: {l}', 'input': 'tools/harness/c06_probe_impl.c compiled by chibicc, linked with c06_probe_ref.c (gcc)',
                                        'expected': f'{name} ok', 'got': l, 'mode': 'probe'})
        if rc != 0:
            corr.violations.append({'what': f'probe program ({who}) exit status {rc}', 'input': 'c06_probe_impl.c', 'expected': 'exit 0', 'got': out[-300:], 'mode': 'probe'})
    corr.sample({'probe': out.strip().split('\n')})


VA_SRC = r'''
#include <stdarg.h>
int vsnprintf(char *, unsigned long, const char *, va_list);
int fwd(char *buf, const char *fmt, ...) {
  va_list ap; va_start(ap, fmt);
  int r = vsnprintf(buf, 400, fmt, ap);
  va_end(ap);
  return r;
}
int fwd7(int a, int b, int c, int d, int e, char *buf, const char *fmt, ...) {
  va_list ap; va_start(ap, fmt);
  int r = vsnprintf(buf, 400, fmt, ap);
  va_end(ap);
  return r + a + b + c + d + e;
}
double vsumd(int n, va_list ap) { double s = 0; for (int i = 0; i < n; i++) s += va_arg(ap, double) * (i + 1); return s; }
long vsuml(int n, va_list ap) { long s = 0; for (int i = 0; i < n; i++) s += va_arg(ap, long) * (i + 1); return s; }
long double vsumx(int n, va_list ap) {
  long double s = 0;
  for (int i = 0; i < n; i++) { s += va_arg(ap, int); s += va_arg(ap, double); s += va_arg(ap, long double); }
  return s;
}
double own_d(int n, ...) { va_list ap; va_start(ap, n); double r = vsumd(n, ap); va_end(ap); return r; }
long own_l(int n, ...) { va_list ap; va_start(ap, n); long r = vsuml(n, ap); va_end(ap); return r; }
long double own_x(int n, ...) { va_list ap; va_start(ap, n); long double r = vsumx(n, ap); va_end(ap); return r; }
double copy_d(int n, ...) {
  va_list ap, aq; va_start(ap, n); va_copy(aq, ap);
  double r = vsumd(n, ap) + 1000 * vsumd(n, aq);
  va_end(ap); va_end(aq); return r;
}
'''

VA_MAIN = r'''
#include <stdio.h>
#include <stdarg.h>
int fwd(char *buf, const char *fmt, ...);
int fwd7(int a, int b, int c, int d, int e, char *buf, const char *fmt, ...);
double vsumd(int n, va_list ap); long vsuml(int n, va_list ap); long double vsumx(int n, va_list ap);
double own_d(int n, ...); long own_l(int n, ...); long double own_x(int n, ...); double copy_d(int n, ...);
static double ref_d(int n, ...) { va_list ap; va_start(ap, n); double r = vsumd(n, ap); va_end(ap); return r; }
static long ref_l(int n, ...) { va_list ap; va_start(ap, n); long r = vsuml(n, ap); va_end(ap); return r; }
static long double ref_x(int n, ...) { va_list ap; va_start(ap, n); long double r = vsumx(n, ap); va_end(ap); return r; }
int main(void) {
  char b[400];
  fwd(b, "%d %d %d %d %d %d %d %d", 1, 2, 3, 4, 5, 6, 7, 8); puts(b);
  fwd(b, "%g %g", 1.5, 2.5); puts(b);
  fwd(b, "%g %g %g %d %g %g %g %g %g %g %g %s %ld", 1.5, 2.5, 3.5, 4, 5.5, 6.5, 7.5, 8.5, 9.5, 10.5, 11.5, "str", 123456789012L); puts(b);
  fwd(b, "%Lg %d %Lg %g", 1.25L, 7, 2.5L, 0.5); puts(b);
  fwd(b, "%d %Lg %d %d %d %d %Lg %g %g %g %g %g %g %g %g %g", 1, 1.25L, 2, 3, 4, 5, 2.5L, .5, 1.5, 2.5, 3.5, 4.5, 5.5, 6.5, 7.5, 8.5); puts(b);
  printf("%d ", fwd7(1, 2, 3, 4, 5, b, "%d %g %d %g %s", 6, 6.5, 7, 7.5, "x")); puts(b);
  printf("%g %g\n", ref_d(1, 1.5), ref_d(10, 1., 2., 3., 4., 5., 6., 7., 8., 9., 10.));
  printf("%ld %ld\n", ref_l(3, 1L, 2L, 3L), ref_l(9, 1L, 2L, 3L, 4L, 5L, 6L, 7L, 8L, 9L));
  printf("%Lg\n", ref_x(3, 1, 1.5, 2.5L, 2, 3.5, 4.5L, 3, 5.5, 6.5L));
  printf("%g %ld %Lg\n", own_d(9, 1., 2., 3., 4., 5., 6., 7., 8., 9.), own_l(8, 1L, 2L, 3L, 4L, 5L, 6L, 7L, 8L), own_x(2, 1, 1.5, 2.5L, 2, 3.5, 4.5L));
  printf("%g\n", copy_d(9, 1., 2., 3., 4., 5., 6., 7., 8., 9.));
  return 0;
}
'''


def run_va_lists(ctx, corr):
    """va_list objects cross the compiler boundary: chibicc's va_list is read by libc and by gcc code, gcc's by chibicc's va_arg"""
    d = os.path.join(ctx.scratch, 'va')
    os.makedirs(d, exist_ok=True)
    open(os.path.join(d, 'va.c'), 'w').write(VA_SRC)
    open(os.path.join(d, 'vamain.c'), 'w').write(VA_MAIN)
    sh(GCC + ['-O1', '-c', 'vamain.c', '-o', 'vamain.o'], cwd=d)
    outs = {}
    for who in ('gcc', 'clang', 'chibicc'):
        rc, e = compile_obj(ctx, who, 'va.c', f'va_{who}.o', d)
        if rc != 0:
            outs[who] = 'compile failed: ' + e[-200:]
            continue
        r, err = link_run(ctx, ['vamain.o', f'va_{who}.o'], f'va_{who}', d)
        outs[who] = err or (r[1] if r[0] == 0 else f'exit status {r[0]}\n' + r[1])
    corr.evaluations += 1
    corr.count('va_list-crossing')
    if outs['gcc'] != outs['clang']:
        corr.disagreements.append({'kind': 'va-probe-invalid', 'what': 'gcc and clang disagree on the va_list probe', 'gcc': outs['gcc'], 'clang': outs['clang']})
        return
    corr.nontrivial.add('va_list-crossing')
    if outs['chibicc'] != outs['gcc']:
        a, b = outs['gcc'].split('\n'), outs['chibicc'].split('\n')
        j = next((j for j in range(min(len(a), len(b))) if a[j] != b[j]), min(len(a), len(b)))
        corr.violations.append({'what': 'a va_list crossing the compiler boundary is read wrongly', 'input': 'checklib/C06.py VA_SRC compiled by chibicc, VA_MAIN by gcc',
                                'expected': a[j] if j < len(a) else '<end>', 'got': b[j] if j < len(b) else '<end>', 'line': j, 'mode': 'va_list'})


CONV_CALLEE = r'''
#include <stdio.h>
#include <stdarg.h>
void cl(long a, unsigned long b, double c, float d, char e, _Bool f, short g, unsigned char h, long double i, int j) {
  printf("cl %ld %lu %g %g %d %d %d %d %Lg %d\n", a, b, c, (double)d, e, f, g, h, i, j);
}
void cv(int n, ...) {
  va_list ap; va_start(ap, n);
  printf("cv");
  for (int k = 0; k < n; k++) {
    if (k == 3 || k == 6) printf(" %g", va_arg(ap, double));
    else if (k == 5) printf(" %u", va_arg(ap, unsigned));
    else if (k == 7) printf(" %ld", va_arg(ap, long));
    else printf(" %d", va_arg(ap, int));
  }
  printf("\n"); va_end(ap);
}
int old(int a, double b, int c) { printf("old %d %g %d\n", a, b, c); return a + c; }
'''

CONV_CALLER = r'''
void cl(long a, unsigned long b, double c, float d, char e, _Bool f, short g, unsigned char h, long double i, int j);
void cv(int n, ...);
int old();
int main(void) {
  char c = -3; short s = -300; unsigned char uc = 200; float f = 1.5f; int i = -7; unsigned u = 4000000000u;
  long l = 0x123456789abcL; _Bool b = 1; double d = 2.25; long double ld = 3.5L; unsigned long ul = 18000000000000000000UL;
  cl(i, u, f, d, l, i, l, i, d, ul);          /* int->long, unsigned->unsigned long, float->double, double->float, long->char,
                                                 int->_Bool, long->short, int->unsigned char, double->long double, unsigned long->int */
  cl(c, s, i, u, 65, 256, 65536 + 5, 511, f, d);
  cv(8, c, s, uc, f, b, u, d, l);             /* default argument promotions */
  old(c, f, uc);                              /* call without a prototype */
  cl(ld, ld, ld, ld, ld, 0.5, ld, ld, ld, ld);  /* long double -> everything; 0.5 -> _Bool is 1 */
  return 0;
}
'''


def run_argconv(ctx, corr):
    """C11 6.5.2.2p6-7: arguments are converted to the parameter types; default argument promotions for `...` and for calls
    without a prototype.  The chibicc-compiled caller must print what the gcc- and clang-compiled callers print."""
    d = os.path.join(ctx.scratch, 'conv')
    os.makedirs(d, exist_ok=True)
    open(os.path.join(d, 'conv_callee.c'), 'w').write(CONV_CALLEE)
    open(os.path.join(d, 'conv_caller.c'), 'w').write(CONV_CALLER)
    sh(GCC + ['-O1', '-c', 'conv_callee.c', '-o', 'conv_callee.o'], cwd=d)
    outs = {}
    for who in ('gcc', 'clang', 'chibicc'):
        rc, e = compile_obj(ctx, who, 'conv_caller.c', f'conv_caller_{who}.o', d)
        if rc != 0:
            outs[who] = 'compile failed: ' + e[-200:]
            continue
        r, err = link_run(ctx, [f'conv_caller_{who}.o', 'conv_callee.o'], f'conv_{who}', d)
        outs[who] = err or (r[1] if r[0] == 0 else f'exit status {r[0]}\n' + r[1])
    corr.evaluations += 1
    corr.count('argument-conversions')
    if outs['gcc'] != outs['clang']:
        corr.count('skipped_oracles_disagree')
        return
    corr.nontrivial.add('argument-conversions')
    if outs['chibicc'] != outs['gcc']:
        a, b = outs['gcc'].split('\n'), outs['chibicc'].split('\n')
        j = next((j for j in range(min(len(a), len(b))) if a[j] != b[j]), min(len(a), len(b)))
        corr.violations.append({'what': 'arguments are not converted to the parameter types / not promoted', 'input': 'checklib/C06.py CONV_CALLER compiled by chibicc',
                                'expected': a[j] if j < len(a) else '<end>', 'got': b[j] if j < len(b) else '<end>', 'line': j, 'mode': 'argconv'})


# ------------------------------------------------------------------ main entry points

def setup(ctx):
    ctx.gcc_opt = ctx.rng.choice(['-O0', '-O1', '-O2'])
    ctx.clang_opt = ctx.rng.choice(['-O0', '-O1', '-O2'])


def correspond(ctx, corr):
    setup(ctx)
    corr.rule = ('signatures: corpus of past failures and fixed witnesses; boundary battery = (INTEGER registers used 0..7) x (SSE registers '
                 'used 0..9) x probed class {int, fp, long double, struct classes I S II SS IS SI, >16 bytes} x {fixed, variadic} x call depth '
                 '0..2; seeded random signatures (up to 15 parameters, nested structs/unions/arrays, unprototyped calls); signatures inside the '
                 'known-finding regions.  Each is (1) compared line by line: chibicc -S text of the call and of the callee vs the Lean model; '
                 '(2) dumped: where gcc, clang and chibicc callers put every argument byte vs Spec/PsABI.lean and vs the model; (3) run: caller and '
                 'callee compiled by different compilers (chibicc->chibicc, chibicc<->gcc, chibicc<->clang), every leaf value compared.  '
                 'non-trivial = not (all arguments integers in registers, integer/void return, depth 0); distinct = by signature text.  '
                 'Argument conversions: (4) whole-call text of generated calls (every scalar parameter x argument pair, variadic tails, '
                 'unprototyped callees, arrays, structs, register exhaustion, wrong counts) vs Model/C06Args.callText; (5) executed: parameter '
                 'type x argument type x boundary values x position {first register, third register, 7th integer / 9th SSE = stack slot, between '
                 'SSE arguments, through a function pointer, variadic tail in registers / overflow area, unprototyped callee} x argument '
                 'expression {variable, member, element, dereference} with callers chibicc/gcc/clang and callees gcc -O0, gcc -O2, clang -O2, '
                 'chibicc against the gcc->gcc reference and Spec.IntSpec.convert; (6) the 64-bit image of the argument register / stack slot. '
                 'distinct = by (types, value, position, form); every one of these is non-trivial (a conversion or promotion takes place).  '
                 'Return values: (7) whole-body text of `T f(void) { return g; }` / `{ return h(); }` for every scalar pair, arrays, structs '
                 '(the all-float structs of 12 and 16 bytes) vs Model/C06Ret; (8) executed: return type x expression type x boundary values x '
                 'form {parameter, global, member, dereference} x {direct, function pointer} with callers and callees as in (5), stored and '
                 'directly used results; (9) %rax / %xmm0 / %st(0) as a chibicc callee leaves them vs C06_return_extension; (10) assembly '
                 'callees that leave garbage above the returned type, read by chibicc / gcc / clang callers; (11) `T f(T *p) { return *p; }` '
                 'for structs / unions of 1..16 bytes placed in the last bytes of a page followed by an unmapped page (no access outside the object).')
    # argument conversions first: cheap, and independent of the signature legs
    A.run_tie(ctx, corr)
    A.run_exec(ctx, corr)
    A.run_dump(ctx, corr)
    # return values
    R.run_tie(ctx, corr)
    R.run_exec(ctx, corr)
    R.run_dump(ctx, corr)
    R.run_stub(ctx, corr)
    R.run_guard(ctx, corr)
    cases = gen_sigs(ctx)
    # witnesses of the known findings (they must still fail; anything else that fails is new)
    known = known_witnesses()
    infos = [parse_assign(l) for l in drive(ctx, [('assign', s) for _, s in cases])]
    for (tag, s), info in zip(cases, infos):
        corr.count(tag.split(':')[0])
        for r in info['regions']:
            corr.count('region:' + r)
        if nontrivial(s):
            corr.nontrivial.add(s.key())
        # model-level cross-checks that do not need the compiler
        if info['caller'] != info['callee'][:len(info['callee'])] and not s.variadic and not isinstance(info['callee'], str) \
                and not isinstance(info['caller'], str) and info['caller'] != info['callee']:
            corr.disagreements.append({'kind': 'model caller != callee', 'sig': s.short(), 'caller': info['caller'], 'callee': info['callee']})
    corr.sample({'signature': cases[len(corr_first(cases))][1].short() if len(cases) > 20 else cases[0][1].short(),
                 'assign': infos[len(corr_first(cases))] if len(cases) > 20 else infos[0]})
    run_tie(ctx, corr, cases)
    run_dump(ctx, corr, cases, infos)
    run_retdump(ctx, corr, cases, infos)
    run_interop(ctx, corr, cases, infos)
    run_probes(ctx, corr)
    run_va_lists(ctx, corr)
    run_argconv(ctx, corr)
    # known findings: do the witnesses still fail?
    d = os.path.join(ctx.scratch, 'known')
    os.makedirs(d, exist_ok=True)
    for fid, sigs in known.items():
        still = False
        for s in sigs:
            for combo in (('chibicc', 'gcc'), ('gcc', 'chibicc')):
                r = check_one(ctx, s, combo, d)
                if r is not None and r[0] != 'layout':
                    still = True
        if still:
            corr.known_hits.append(fid)
        else:
            ctx.notes.append(f'known finding {fid}: the witness no longer fails (fixed?)')
    corr.extra['gcc_opt'] = ctx.gcc_opt
    corr.extra['clang_opt'] = ctx.clang_opt
    corr.extra['signatures'] = len(cases)


def corr_first(cases):
    return [c for c in cases if c[0].startswith('corpus')]


def search(ctx, broken, corr):
    """a proof or the tie broke and the standard run saw no violation: a larger interoperation run"""
    setup(ctx)
    # argument conversions: the thorough family (all positions, more values)
    c0 = Corr()
    was = ctx.thorough
    ctx.thorough = True
    try:
        A.run_exec(ctx, c0, report_limit=1)
        if not c0.violations:
            A.run_dump(ctx, c0)
        if not c0.violations:
            R.run_exec(ctx, c0, report_limit=1)
        if not c0.violations:
            R.run_dump(ctx, c0)
        if not c0.violations:
            R.run_stub(ctx, c0)
        if not c0.violations:
            R.run_guard(ctx, c0)
    finally:
        ctx.thorough = was
    if c0.violations:
        return c0.violations[0]
    rng = random.Random(ctx.seed * 7919 + 13)
    cells = [(g, f, k) for g in range(0, 8) for f in range(0, 10) for k in PROBE_ARGS]
    rng.shuffle(cells)
    cases = []
    for (g, f, k) in cells[:400]:
        cases.append(('search', boundary_sig(rng, g, f, k, variadic=rng.random() < 0.3, depth=rng.choice([0, 1, 2]))))
    infos = [parse_assign(l) for l in drive(ctx, [('assign', s) for _, s in cases])]
    keep = [(c, i) for c, i in zip(cases, infos) if not i['regions']]
    c2 = Corr()
    run_dump(ctx, c2, [c for c, _ in keep], [i for _, i in keep])
    if not c2.violations:
        run_interop(ctx, c2, [c for c, _ in keep], [i for _, i in keep])
    vs = [v for v in c2.violations if not v.get('known_id')]
    return vs[0] if vs else None


def replay(ctx, corr, path):
    setup(ctx)
    payload = json.load(open(path))
    if payload.get('mode') == 'argexec' and payload.get('case'):
        corr.evaluations = 1
        A.run_exec(ctx, corr, cases=[A.case_from_payload(payload)])
        print('replay:', 'still fails' if corr.violations else 'the call now passes')
        return
    if payload.get('mode') == 'retexec' and payload.get('case'):
        corr.evaluations = 1
        R.run_exec(ctx, corr, cases=[R.case_from_payload(payload)])
        print('replay:', 'still fails' if corr.violations else 'the call now passes')
        return
    if payload.get('mode') in ('retdump', 'retstub', 'retguard'):
        {'retdump': R.run_dump, 'retstub': R.run_stub, 'retguard': R.run_guard}[payload['mode']](ctx, corr)
        print('replay:', 'still fails' if corr.violations else 'the probe now passes')
        return
    if payload.get('mode') == 'argdump':
        A.run_dump(ctx, corr)
        print('replay:', 'still fails' if corr.violations else 'the probe now passes')
        return
    lean = payload.get('lean')
    if not lean:
        corr.extra['replay'] = 'replay file carries no signature'
        return
    s = sig_from_lean(lean, payload.get('input', ''))
    info = parse_assign(drive(ctx, [('assign', s)])[0])
    corr.evaluations = 1
    d = os.path.join(ctx.scratch, 'replay')
    os.makedirs(d, exist_ok=True)
    bad = False
    if payload.get('mode') == 'dump':
        run_dump(ctx, corr, [('replay', s)], [info])
        bad = bool(corr.violations)
    else:
        combos = [tuple(payload['combo'])] if payload.get('combo') else COMBOS[:5]
        for combo in combos:
            r = check_one(ctx, s, combo, d)
            if r is not None:
                bad = True
                corr.violations.append({'what': f'caller {combo[0]}, callee {combo[1]}: {r[0]}: {r[1]}', 'input': s.short(), 'lean': lean,
                                        'combo': list(combo), 'expected': 'values arrive intact', 'got': r[1], 'mode': 'interop'})
    print('replay:', 'still fails' if bad else 'signature now passes')


def sig_from_lean(text, short=''):
    """inverse of Sig.lean() (types get fresh tags; scalars of equal size map to one C type)"""
    toks = text.split()
    depth, va, nn = int(toks[0]), toks[1] == '1', int(toks[2])
    rest = toks[3:]
    groups = []
    cur = []
    for t in rest:
        if t == ';':
            groups.append(cur)
            cur = []
        else:
            cur.append(t)
    groups.append(cur)
    scal = {'b': G.BOOL, 'i1': G.SCHAR, 'u1': G.UCHAR, 'i2': G.SHORT, 'u2': G.USHORT, 'i4': G.INT, 'u4': G.UINT, 'i8': G.LONG,
            'u8': G.ULONG, 'f': G.FLT, 'd': G.DBL, 'ld': G.LDBL}
    def ty(ts):
        t = ts.pop(0)
        if t in scal:
            return scal[t]
        if t == '[':
            n = int(ts.pop(0))
            e = ty(ts)
            assert ts.pop(0) == ']'
            return G.arr(e, n)
        if t == '{':
            isu = ts.pop(0) == 'u'
            size, align = int(ts.pop(0)), int(ts.pop(0))
            ms = []
            while ts[0] != '}':
                off = int(ts.pop(0))
                ms.append((off, ty(ts)))
            ts.pop(0)
            # rebuild with the generator's layout; packed / _Alignas are recovered from the offsets
            natural = G.agg([m for _, m in ms], isunion=isu)
            if natural.size == size and [o for _, _, o, _ in natural.members] == [o for o, _ in ms]:
                return natural
            packed = G.agg([m for _, m in ms], isunion=isu, packed=True)
            if packed.size == size:
                return packed
            return G.agg([(ms[0][1], align)] + [m for _, m in ms[1:]], isunion=isu)
        raise ValueError(t)
    ret = None if groups[0] == ['v'] else ty(list(groups[0]))
    params = [ty(list(g)) for g in groups[1:] if g]
    return Sig(ret, params, n_named=nn, variadic=va, depth=depth, unproto='unprototyped' in short)


MANIFEST = {
    'level_text': 'Lean 4 theorems over a model of push_args/ND_FUNCALL/assign_lvar_offsets/emit_text/copy_struct_*/stdarg.h and an '
                  'independent psABI 3.2.3 specification, for every signature of any length and order: caller and callee place every '
                  'argument identically (C06_self), both equal the psABI placement outside the listed known-finding regions (C06_abi_partial), '
                  'return locations likewise, rsp = 0 mod 16 at every call (C06_align), `add $8*stack,%rsp` removes exactly what was pushed '
                  '(C06_cleanup), no emitted instruction template mentions rbx/r12-r15 and rbp/rsp are restored (C06_callee_saved, decided over the '
                  'regenerated list of all println templates), va_arg finds every variadic scalar where the psABI put it (C06_va_partial).  '
                  'Argument conversions (parse.c funcall(), translated from the source on every run): for every parameter and argument list '
                  'funcall() inserts the conversions and issues the diagnostics of C11 6.5.2.2 (C06_funcall_spec, C06_param_decl); for every pair of '
                  'integer types and all 2^64 register contents the callee\'s parameter object holds the C11 conversion of the argument value, in a '
                  'register or a stack slot (C06_arg_convert, on top of C01_cast), a _Bool argument register/slot is exactly 0 or 1 '
                  '(C06_arg_bool_normalised), narrow arguments are extended to 32 bits (C06_arg_extension), chibicc\'s callee reads only the low '
                  'sizeof bytes (C06_param_home), trailing arguments are promoted (C06_arg_default_promotions); with a floating side relative to '
                  'C02\'s FpuSpec (Props/C06Fp.lean: C06_arg_convert_fp, C06_arg_bool_normalised_fp, C06_arg_default_promotions_fp).  '
                  'Return values (the return arm of parse.c stmt(), ND_RETURN, the epilogue and the normalisation after `call`, translated from '
                  'the source on every run; Props/C06Ret.lean): `return e;` converts to the return type exactly for scalar return types '
                  '(C06_return_stmt_spec), caller and callee split struct returns at the same size (C06_return_struct_path), for every pair of '
                  'integer types and all 2^64 register contents the call expression has the C11 conversion of the returned value '
                  '(C06_return_convert, on top of C01_cast), a chibicc caller reads only the low sizeof bytes of %rax (C06_return_caller), a '
                  'chibicc callee returns narrow values extended to 32 bits and _Bool as exactly 0 or 1 (C06_return_extension), with a '
                  'floating side relative to FpuSpec (C06_return_convert_fp).  '
                  'Tied to the code on every run by equality of the emitted assembly lines, a register-dump comparison with gcc and clang, and '
                  'link-time interoperation in both directions.',
    'level_note': 'Trusted: Lean kernel; the hand model (tied by asm-text equality on generated signatures = testing); tools/extract/templates.py; '
                  'Spec/PsABI.lean (validated against gcc 12 and clang 14 placements each run); `depth` is taken as the real operand-stack depth (C20). '
                  'The argument-conversion theorems take the value of the argument expression in %rax as given (C01) and the stack discipline '
                  'between an argument\'s push and its pop as given (C20); likewise the return-value theorems start from the value of the '
                  'returned expression where gen_expr leaves it. '
                  'Five known findings are regions excluded from C06_abi (struct with long double, long double stack alignment, padding-only '
                  'eightbyte, packed struct parameters with unaligned members, va_arg of small structs).',
    'technique': 'Lean 4: structural induction on member trees (has_flonum vs eightbyte classes), induction on argument lists with (gp, fp, stack) '
                 'invariants, whole-table decide over translator-extracted instruction templates, induction on parameter/argument lists over the '
                 'translated argument loop of funcall(), bit-vector reasoning over Model/X86 for push/pop/store_gp composed with C01_cast; asm-text '
                 'tie; register-dump and link-time interoperation with gcc and clang as ABI oracles',
    'design_ref': 'DESIGN.md section 6, C06',
}
