"""C12: directed inputs of the stage-1 / stage-2 comparison, the driver battery, and the planted sites used to self-test
the static audit (tools/extract/c12audit.py) on every run."""
import os, re

def directed():
    """(kind, text) programs aimed at the places where the order of evaluation, or an operation whose result C leaves
    undefined, inside the COMPILER could show: chibicc-built chibicc evaluates the right operand / last argument first,
    gcc-built chibicc mostly the left one.  Every program is a legitimate input of the stage comparison (most are
    rejected with a diagnostic: then the diagnostic, its position and the exit status must agree)."""
    progs = []
    bops = ['+', '-', '*', '/', '%', '&', '|', '^', '<<', '>>', '==', '!=', '<', '<=', '>', '>=', '&&', '||', ',']
    # both operands are not constant (two different diagnostics positions)
    for op in bops:
        progs.append(('order-const-int', f'int a, b;\nstatic int x = a {op} b;\n'))
        progs.append(('order-const-int', f'int a, b;\nstatic long x = (long)(a {op} b);\n'))
        progs.append(('order-const-flo', f'double a, b;\nstatic double x = a {op} b;\n') if op in ('+', '-', '*', '/', '==', '!=', '<', '<=', '>', '>=') else ('order-const-int', f'int a, b; enum {{ E = a {op} b }};\n'))
        progs.append(('order-const-label', f'int f(void) {{ static long x = &&l1 {op} &&l2; l1: l2: return x; }}\n'))
        progs.append(('order-const-addr', f'int a[4], b[4];\nstatic long x = (long)(a {op} b);\n'))
        progs.append(('order-const-div0', f'static int x = (1 / 0) {op} (2 % 0);\n'))
        progs.append(('order-case', f'int a, b; int f(int x) {{ switch (x) {{ case a {op} b: return 1; }} return 0; }}\n'))
        progs.append(('order-arraylen', f'int a, b; int arr[a {op} b];\n'))
        progs.append(('order-pp', f'#if (1 / 0) {op} (2 % 0)\n#endif\n'))
        progs.append(('order-pp', f'#if A( {op} B(\n#endif\n'))
        progs.append(('order-type', f'int f(void) {{ return (*1) {op} (*2); }}\n'))
        progs.append(('order-type', f'struct S {{ int a; }} s; int f(void) {{ return (s.nope) {op} (s.nada); }}\n'))
        progs.append(('order-undecl', f'int f(void) {{ return u1 {op} u2; }}\n'))
        progs.append(('order-stmtexpr', f'int f(void) {{ return ({{ static int s1 = 1; "A"; s1; }}) {op} ({{ static int s2 = 2; "B"; s2; }}); }}\n'))
    tern = ['a ? b : c', 'a ? 1 : c', '1 ? b : c', '0 ? b : c', '(a, b)', '-a', '~a', '!a', '(long)a', '(_Bool)a', 'a ?: b', '&a == &b', '&a - &b', '(char)a + (short)b']
    for e in tern:
        progs.append(('order-const-int', f'int a, b, c;\nstatic int x = {e};\n'))
    for args in ['a, b', 'u1, u2', '*1, *2', 's.x, s.y', '({ static int q; "s"; 1; }), ({ static int r; "t"; 2; })', '(struct T){1}.a, (struct T){2}.a', '"x", "y", L"z", u"w"']:
        progs.append(('order-call', f'struct T {{ int a; }}; int a, b; int g(); int f(void) {{ return g({args}); }}\n'))
        progs.append(('order-init', f'struct T {{ int a; }}; int a, b; int g(); int f(void) {{ int v[] = {{ {args} }}; return v[0]; }}\n'))
        progs.append(('order-init', f'struct T {{ int a; }}; int a, b; int g(); static int v[] = {{ {args} }};\n'))
    # the reviewed sites of the audit: __func__ scope entries, ++/-- on every kind of lvalue, empty struct arguments
    progs.append(('site-func', 'int printf(); int f(void) { return printf("%s %s %s", __func__, __FUNCTION__, "lit"); }\nint g(void) { char *__func__x = "a"; return __func__[0] + __FUNCTION__[1]; }\n'))
    lv = [('int', 'i'), ('char', 'c'), ('long', 'l'), ('float', 'f'), ('double', 'd'), ('long double', 'ld'), ('int *', 'p'), ('_Bool', 'b'), ('unsigned char', 'uc'), ('_Atomic int', 'ai'), ('short', 'sh')]
    body = ''.join(f'{t} {n}; ' for t, n in lv) + 'struct B { int x : 3; unsigned y : 5; long z : 40; } bf; int arr[3]; struct B *pb;\nvoid f(void) {\n'
    for t, n in lv:
        body += f'  {n}++; {n}--; ++{n}; --{n}; ({n})++; {n} += 1; {n} -= 1;\n'
    body += '  bf.x++; bf.y--; ++bf.z; pb->x++; --pb->y; arr[i++]++; (*p)++; *p++; p[i]--; (*(&i))++; int (*vp)[i]; vp++; vp--;\n}\n'
    progs.append(('site-incdec', body))
    progs.append(('site-emptystruct', 'struct E {}; struct E e; int g(struct E, int, struct E, double, struct E, ...); struct E h(struct E a, int x, struct E b) { g(a, 1, b, 2.0, e, e, 3); return b; }\n'))
    # chibicc's own arithmetic on inputs for which C leaves the result of the HOST operation undefined or implementation-defined
    ub = ['1 << 64', '1 << -1', '1 << 63', '1L << 64', '1L << 63 << 1', '-1 << 3', '-8 >> 1', '1 >> 64', '1u << 32', '1 << 31', '2147483647 + 1', '-2147483647 - 2',
          '9223372036854775807L + 1', '-9223372036854775807L - 2', '9223372036854775807L * 3', '(-9223372036854775807L - 1) / -1', '(-9223372036854775807L - 1) % -1',
          '(-2147483647 - 1) / -1', '-(-9223372036854775807L - 1)', '(int)1e10', '(int)-1e10', '(long)1e19', '(long)-1e19', '(unsigned long)-1.5', '(unsigned long)1e20',
          '(unsigned long)-1e20', '(unsigned)-1.5', '(unsigned)1e10', '(char)300.7', '(unsigned char)-3.5', '(short)1e6', '(long)1e19L', '(unsigned long)-1.5L', '(unsigned long)1e20L',
          '(int)(0.0/0.0)', '(long)(0.0/0.0)', '(unsigned long)(0.0/0.0)', '(int)(1.0/0.0)', '(unsigned long)(1.0/0.0)', '(unsigned long)(-1.0/0.0)', '(long)(float)1e30', '(_Bool)(0.0/0.0)',
          '(unsigned long)18446744073709551615.0', '(unsigned long)18446744073709551616.0', '(unsigned long)9223372036854775808.0', '(long)9223372036854775808.0',
          '(unsigned long)(float)1.8446744e19f', '(int)2147483648.0', '(int)-2147483649.0', '(unsigned)4294967296.0', '(unsigned)-0.5', '(unsigned long)-0.5', '(unsigned long)-0.5L']
    for e in ub:
        progs.append(('host-ub', f'long x = {e};\nint f(void) {{ return sizeof(char[({e}) ? 1 : 2]); }}\n#if ({e.replace("(int)", "").replace("(long)", "").replace("(unsigned long)", "").replace("(unsigned)", "")}) > 0\nint y;\n#endif\n' if all(c not in e for c in 'e.LfF') else f'long x = {e};\nint f(void) {{ return sizeof(char[({e}) ? 1 : 2]); }}\n'))
    fub = ['1e308 * 10', '1e-308 / 1e10', '(float)1e39', '(float)1e-46', '0.0 / 0.0', '-(0.0 / 0.0)', '1.0 / 0.0', '(float)16777217', '(double)9007199254740993L', '(float)(0.0/0.0)',
           '(long double)1e308 * 1e308L', '1e4932L * 10', '(double)1e4000L', '(float)1e4000L', '(double)18446744073709551615UL', '(float)18446744073709551615UL', '(long double)18446744073709551615UL',
           '(double)-9223372036854775807L', '3.0f / 7', '3.0 / 7', '3.0L / 7', '0x1p-1074 / 2', '0x1.fffffffffffffp1023 + 0x1p970', '1e22 + 1', '(float)0x1.000001p0 * (float)0x1.000001p0']
    for e in fub:
        progs.append(('host-fp', f'double d = {e};\nfloat f = {e};\nlong double l = {e};\nint i = ({e}) > 1;\n'))
    return progs


def random_order(rng, n):
    """random operand shapes (constants, non-constants, label addresses, ill-typed, undeclared, statement expressions, calls) at every
    operator, in the contexts where the compiler evaluates or type-checks both operands: static initializer, return expression,
    case label, call arguments, initializer list"""
    atoms = ['a', 'b', '&&l1', '&&l2', '(1/0)', 'u1', '*1', 's.nope', 'arr', '1.5', 'f()', '({ static int q; q; })', '"s"', '(long)&a', 'x ? a : b', '7', '-3', '(char)300',
             '&arr[1]', 's.m', '(1 << 40)', '0x7fffffff', 'sizeof(arr)', '_Alignof(long)', '(struct S){1}.m', 'arr[1]', '!a', '1.0f', '1e400L']
    ops = ['+', '-', '*', '/', '%', '&', '|', '^', '<<', '>>', '==', '!=', '<', '<=', '&&', '||', ',']
    def e(d):
        if d == 0 or rng.random() < 0.3:
            return rng.choice(atoms)
        if rng.random() < 0.12:
            return f'({e(d-1)} ? {e(d-1)} : {e(d-1)})'
        return f'({e(d-1)} {rng.choice(ops)} {e(d-1)})'
    pre = 'int a, b, arr[3], x; struct S { int m; } s; int f();\n'
    ctxs = ['int g(void) {{ static long v = {0}; l1: l2: return v; }}\n', 'int g(void) {{ l1: l2: return {0}; }}\n',
            'int g(int y) {{ l1: l2: switch (y) {{ case {0}: return 1; }} return 0; }}\n', 'int g(void) {{ l1: l2: return f({0}, {1}); }}\n',
            'static long v[] = {{ {0}, {1} }};\n', 'int g(void) {{ l1: l2: {{ long v[] = {{ {0}, {1} }}; return v[0]; }} }}\n', 'enum {{ E = {0} }};\n',
            'char buf[{0}];\n', 'struct B {{ int f : {0}; }};\n', '_Static_assert({0}, "m");\n', '#if {0}\n#endif\n', 'int g(void) {{ l1: l2: return _Generic({0}, default: {1}); }}\n',
            'double dv = {0};\n', 'int g(void) {{ l1: l2: return sizeof(char[{0}]); }}\n']
    out = []
    for k in range(n):
        out.append(pre + rng.choice(ctxs).format(e(rng.randrange(1, 3)), e(rng.randrange(1, 3))))
    return out

# ---------------------------------------------------------------------------------------------------------------------
# Planted order-dependent expressions: appended to a scratch copy of strings.c, run through the audit and through the
# Lean decision (`drv_c12 verdict`).  `None` = must be listed and have NO verdict; a string = must be listed with that
# verdict; 'absent' = must not be listed at all.
PLANTED_C = r"""
static int c12p_g1;
static int c12p_bump(void) { return c12p_g1++; }
static int c12p_rd(void) { return c12p_g1; }
static int c12p_die1(Token *t) { if (!t) error_tok(t, "a"); return 1; }
static int c12p_die2(Token *t) { if (!t) error_tok(t, "b"); return 2; }
static int c12p_int1(Token *t) { if (!t) unreachable(); return 3; }
static int c12p_emit(void) { fprintf(stderr, "x"); return 1; }
static int c12p_two(int a, int b) { return a - b; }
static int c12p_set(Token **rest, Token *tok) { *rest = tok->next; return 1; }
static Token *c12p_mk(Token *t) { Token *n = calloc(1, sizeof(Token)); n->next = t; return n; }
static void c12p_pub(Token *t, Token *n) { t->next = n; }
struct c12p_P { int a, b; };
int c12p_two_diag(Token *t) { return c12p_die1(t) + c12p_die2(t); }
int c12p_write_read(void) { return c12p_bump() + c12p_rd(); }
int c12p_write_write(void) { return c12p_bump() * c12p_bump(); }
void c12p_store_bare(int *a, int i) { a[i] = i++; }
int c12p_assign_self(void) { int x = 0; return (x = 1) + x; }
void c12p_init_list(Token *t) { struct c12p_P p = { c12p_die1(t), c12p_die2(t) }; (void)p; }
int c12p_call_args(void) { return c12p_two(c12p_bump(), c12p_rd()); }
int c12p_out_vs_exit(Token *t) { return c12p_die1(t) + c12p_emit(); }
int c12p_alias_param(Token *tok) { Token *p = tok; return c12p_set(&p, p) + (p != 0); }
int c12p_publish(Token *t) { return (c12p_pub(t, 0), 1) + (t->next != 0); }
int c12p_cmp_diag(Token *t) { return c12p_die1(t) == c12p_die2(t); }
int c12p_subscript(int *a) { return a[c12p_bump()] + a[c12p_rd()]; }
int c12h_fresh(Token *t) { return c12p_mk(c12p_mk(t)) == c12p_mk(t); }
int c12h_seq(Token *t) { int r = c12p_die1(t) && c12p_die2(t); r = (c12p_die1(t), c12p_die2(t)); r = c12p_die1(t) ? c12p_die2(t) : 0; r = c12p_die1(t) || c12p_die2(t); return r; }
void c12h_disjoint(char *a, char *b) { int i = 0, j = 0; a[i++] = b[j++]; }
int c12h_one_side(Token *t) { return c12p_die1(t) + t->len; }
int c12h_internal(Token *t) { return c12p_int1(t) + c12p_die2(t); }
int c12h_setarg(Token *tok) { Token *p = tok; return c12p_set(&p, p); }
"""
PLANTED_EXPECT = {
    'c12p_two_diag': None, 'c12p_write_read': None, 'c12p_write_write': None, 'c12p_store_bare': None, 'c12p_assign_self': None,
    'c12p_init_list': None, 'c12p_call_args': None, 'c12p_out_vs_exit': None, 'c12p_alias_param': None, 'c12p_publish': None,
    'c12p_cmp_diag': None, 'c12p_subscript': None,
    'c12h_fresh': 'absent', 'c12h_seq': 'absent', 'c12h_disjoint': 'disjoint', 'c12h_one_side': 'absent',
    'c12h_internal': 'disjointUpToInternal', 'c12h_setarg': 'absent',
}

# ---------------------------------------------------------------------------------------------------------------------
# Driver battery: command lines for main.c (option parsing, -M family, -x, -include, stdin, assembling and linking, error
# exits).  Run in a fresh directory holding FIXTURES, in this order (later commands use files made by earlier ones).
FIXTURES = {
    'a.c': '#include <stdio.h>\n#include "inc.h"\nint ext(void);\nint main(void) { printf("%d\\n", VAL + ext()); return 0; }\n',
    'b.c': 'int ext(void) { return 2; }\n',
    'inc.h': '#define VAL 40\n',
    'sub/pre.h': '#define PRE 1\nint from_pre;\n',
    'sub/late.h': 'int late;\n',
    'x.s': '  .globl ext\n  .text\next:\n  mov $7, %eax\n  ret\n',
    'd e$f#g.c': 'int spaced;\n',
    'noext': 'int x;\n',
    'bad.xyz': 'int x;\n',
}
BATTERY = [
    # (args, stdin text or None)
    (['-o', 'prog1', 'a.c', 'b.c'], None),
    (['-c', 'a.c'], None),
    (['-c', '-o', 'obj.o', 'b.c'], None),
    (['-S', 'a.c', 'b.c'], None),
    (['-S', '-o', 'out.s', 'b.c'], None),
    (['-S', '-o', '-', 'b.c'], None),
    (['-S', '-oattached.s', 'b.c'], None),
    (['-E', 'a.c'], None),
    (['-E', '-o', 'a.i', 'a.c'], None),
    (['-E', '-DVAL2=3', '-D', 'FOO', '-DBAR', '-UBAR', '-U', 'VAL2', '-Isub', '-I', '.', '-include', 'pre.h', '-include', 'sub/late.h', 'a.c'], None),
    (['-E', '-include', 'no_such_include.h', 'a.c'], None),
    (['-E', '-idirafter', 'sub', '-xc', 'inc.h'], None),
    (['-M', 'a.c'], None),
    (['-M', '-MF', 'dep1.d', 'a.c'], None),
    (['-M', '-o', 'dep3.d', 'a.c'], None),
    (['-MMD', '-MP', '-c', '-o', 'mmdp.o', 'a.c'], None),
    (['-E', '-MD', '-o', 'emd.i', 'a.c'], None),
    (['-E', '-MD', '-MF', 'emd2.d', 'a.c'], None),
    (['-MD', '-c', 'nofile.c'], None),
    (['-MD', '-c', 'a.c'], None),
    (['-MD', '-MF', 'dep2.d', '-MT', 'tgt', '-MT', 'tgt2', '-MP', '-c', '-o', 'md.o', 'a.c'], None),
    (['-MMD', '-MQ', 'a b$c#d', '-MQ', 'e\\ f', '-c', '-o', 'mmd.o', 'a.c'], None),
    (['-MD', '-o', 'prog2', 'a.c', 'b.c'], None),
    (['-M', '-MP', '-MT', 'x', 'd e$f#g.c'], None),
    (['-###', '-o', 'prog3', 'a.c', 'b.c'], None),
    (['-###', '-c', 'a.c'], None),
    (['-x', 'c', '-E', 'noext'], None),
    (['-xassembler', '-c', '-o', 'xs.o', 'x.s'], None),
    (['-x', 'none', '-c', 'b.c'], None),
    (['-x', 'bogus', 'a.c'], None),
    (['-c', 'x.s'], None),
    (['-S', 'x.s'], None),
    (['x.s', 'a.c', '-o', 'prog4'], None),
    (['obj.o', 'a.c', '-o', 'prog5'], None),
    (['-o', 'prog6', 'a.c', 'b.c', '-lm', '-L.', '-L', 'sub', '-Wl,--as-needed,-s', '-s', '-Xlinker', '--no-undefined'], None),
    (['-shared', '-fPIC', '-o', 'libb.so', 'b.c'], None),
    (['-static', '-o', 'prog7', 'a.c', 'b.c'], None),
    (['-o', 'prog8', 'a.c', 'libb.a'], None),
    (['-o', 'prog9', 'a.c', 'libb.so'], None),
    (['-O2', '-W', '-g', '-std=c11', '-ffreestanding', '-fno-builtin', '-fno-omit-frame-pointer', '-fno-stack-protector', '-fno-strict-aliasing',
      '-m64', '-mno-red-zone', '-w', '-fcommon', '-fno-common', '-fpic', '-c', '-o', 'flags.o', 'a.c'], None),
    (['-xc', '-E', '-'], '#define A 3\nint a = A;\n'),
    (['-xc', '-S', '-o', '-', '-'], 'int from_stdin(void) { return 1; }\n'),
    (['-c', '-o', 'both.o', 'a.c', 'b.c'], None),
    (['-o', 'x', '-S', 'a.c', 'b.c'], None),
    ([], None),
    (['--help'], None),
    (['-o'], None),
    (['-I'], None),
    (['-unknown-flag', 'a.c'], None),
    (['nofile.c'], None),
    (['-E', 'bad.xyz'], None),
    (['-o', '/nonexistent-dir/out.s', '-S', 'b.c'], None),
    (['-hashmap-test'], None),
    (['-cc1', '-cc1-input', 'b.c', '-cc1-output', 'cc1.s', 'b.c'], None),
    (['-cc1', '-E', '-cc1-input', 'a.c', 'a.c'], None),
]
