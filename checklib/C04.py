"""C04 - every lvalue designates exactly its object's bytes and bits.

Legs (DESIGN 3.3):
  model <-> code  (tie, -> corr.disagreements)
      bfseq : the emitted load / assign lines of generated bit-field accessors (`chibicc -S`) against the model's sequences
              (`drv_c04 bfseq`), text equality, for (declared type, width, bit offset) triples;
      frame : every `lea N(%rbp)`, the `sub $N, %rsp` and the alloca_bottom slot of functions with generated
              parameter / local lists against `drv_c04 frame`;
      path  : `(char *)&lvalue - (char *)&object` printed by the chibicc-compiled program against `drv_c04 path`;
      alloca: block addresses relative to a local, printed by the chibicc-compiled program, against `drv_c04 alloca`;
      bfmodel: bytes of the storage unit after `s.f = v` in the chibicc-compiled program against `drv_c04 bfmodel`;
      seqtext: the lines of `cast(from, _Bool); store(_Bool)`, of the struct-store byte loop, of push_struct and of
              copy_struct_mem in `chibicc -S` against `drv_c04 boolseq / structseq / pushseq / retseq`;
      x86cpu : the model's own sequences (bit-field assign + load for (type, width, offset) triples, _Bool store, the three
              byte loops) assembled and run on the host CPU against `X86.run` of the same lists (`drv_c04 x86bf / x86bool /
              x86copy / x86push / x86ret`): ties Model/X86 — what the machine-level theorems (Props/C04Machine.lean) are
              about — to the CPU on exactly these instruction forms;
      chains : offset / size / changed bytes of `a.b[i].c->d` chains (pointers, unions, anonymous members, flexible array
              members) in the compiled program against `drv_c04 pathb` (designate, gen_addr, pathOk, enclosing, offset sum).
  spec <-> gcc    (validates Spec/C04Spec.lean and `designate`; a difference is a spec bug -> corr.disagreements)
  code <-> gcc / self-checks  (the property itself -> corr.violations): byte images after a store through a generated
      lvalue, read-back values, values of assignment expressions, whole-struct assignment, pass/return by value,
      zero fill, VLA / alloca programs with canaries, alignment and overlap probes; parameter objects: functions whose
      parameter lists push parameters of every alignment (long double, 16-aligned and byte-aligned memory structs, small
      structs that no longer fit the registers) into the stack argument area after odd and even numbers of 8-byte slots —
      every parameter is dumped through its lvalue, some are stored to, all are dumped again; caller and callee compiled
      by chibicc against gcc, and across compilers outside the region of known finding C06-ldouble-stack-align.
"""
import os, json, hashlib, itertools, time, concurrent.futures
from .framework import *

PROPERTY = 'C04'
GEN_MODULES = ['declspec', 'c04gen']
LEAN_TARGETS = ['ChibiVerif.Props.C04', 'ChibiVerif.Props.C04Machine', 'ChibiVerif.Findings.C04']
PROPS_FILES = ['ChibiVerif/Props/C04.lean', 'ChibiVerif/Props/C04Machine.lean']
NEEDS_HOOKS = False
TRUSTED_BASE = [
    'Lean 4.33.0 kernel; axioms admitted: propext, Classical.choice, Quot.sound (audited per theorem on every run)',
    'translator tools/extract/c04gen.py (bit-field arms, load/store tails, byte loops, assign_lvar_offsets arithmetic, '
    'builtin_alloca instruction list) and tools/extract/declspec.py (align_to, type.c literals); both refuse shapes they do not know',
    'Model/X86.lean (executable x86-64 semantics, shared with C01) for the bit-field load / assign sequences, integer load / store, '
    'the conversion to _Bool and the three struct byte loops: the theorems of Props/C04Machine.lean are about X86.run of the regenerated '
    'instruction lists; Model/X86 is validated against the host CPU on exactly these sequences on every run (leg x86cpu)',
    'hand-written meaning, not derived from Model/X86: Model/Alloca.lean (state machine + ascending byte copy: the emitted loop has '
    'jumps and a hexadecimal immediate, which Model/X86 does not decode), `rep stosb` in Model/Copy.lean (ND_MEMZERO), Model/Lval.lean '
    '(struct_ref, new_add, gen_addr), Model/Frame.lean (the two loops of assign_lvar_offsets); tied by text equality of the emitted '
    'lines / offsets and by running the compiled programs (which is testing)',
    'gcc 12 and the host CPU as the independent implementation of C11 6.5.2.1-3, 6.5.16, 6.7.2.1 and the psABI',
    'member offsets are inputs of the lvalue-path model (struct_decl belongs to C08); which parameters travel on the stack is an '
    'input of the frame model (classification belongs to C06)',
]
ASSUMPTIONS = [
    'addresses are unbounded integers in the alloca / Int-copy / path models (no wrap-around of the address space, stack exhaustion not modelled); '
    'the machine-level theorems use 64-bit wrapping addresses and state the no-wrap condition where they need it',
    '%rbp is 16-byte aligned at run time (psABI 3.2.2; hypothesis `hrbp` of C04_frame_aligned); alignments are powers of two; alignments above 16 on '
    'automatic objects are not honoured by chibicc (stack is never realigned): C04_frame_aligned guarantees min(align, 16), Findings shows this is sharp',
    'the layout invariant `fits` (every member inside its aggregate) is an input of C04_path_in_bounds (struct_decl belongs to C08); array indices in '
    'range (`pathOk`); what a pointer points to is the program\'s business (the enclosing object moves to the pointee)',
    'alloca / VLA sizes are below 2^32 - 15 (the emitted `and $0xfffffff0, %edi` truncates larger requests)',
    'frames are smaller than 2 GiB (C int arithmetic of assign_lvar_offsets modelled in Int)',
    'plain char/short/int/long bit-fields are signed (psABI, gcc); enum bit-fields behave as int',
]

MASK64 = (1 << 64) - 1
POOL = concurrent.futures.ThreadPoolExecutor(max_workers=max(2, min(8, NPROC)))      # one task per program
POOL2 = concurrent.futures.ThreadPoolExecutor(max_workers=max(2, min(16, NPROC)))    # the two compilers of one program (never waits on POOL)

# ------------------------------------------------------------------ small helpers

def write(ctx, name, text):
    p = os.path.join(ctx.scratch, name)
    with open(p, 'w') as f:
        f.write(text)
    return p

def asm_of(ctx, src, tag):
    p = write(ctx, tag + '.c', src)
    rc, o, e = sh([ctx.cc, '-S', '-o', '-', p], timeout=300)
    if rc != 0:
        return None, (e or o)[-600:]
    return [l.strip() for l in o.splitlines() if l.strip() and not l.strip().startswith('.loc')], ''

def run_prog(ctx, src, tag, which, extra=()):
    """compile + run with chibicc ('c') or gcc ('g'); (ok, lines | error text)"""
    p = write(ctx, f'{tag}.c', src) if not os.path.exists(os.path.join(ctx.scratch, f'{tag}.c')) else os.path.join(ctx.scratch, f'{tag}.c')
    exe = os.path.join(ctx.scratch, f'{tag}.{which}.exe')
    cmd = [ctx.cc, '-o', exe, p] if which == 'c' else ['gcc', '-std=gnu11', '-w', '-O0', '-o', exe, p]
    rc, o, e = sh(cmd + list(extra), timeout=300)
    if rc != 0:
        return False, 'compile: ' + (e or o)[-800:]
    rc, o, e = sh([exe], timeout=120)
    try:
        os.unlink(exe)
    except OSError:
        pass
    if rc != 0:
        return False, f'run: rc={rc} ' + (e or o)[-300:]
    return True, o.splitlines()

def both(ctx, src, tag):
    write(ctx, tag + '.c', src)
    fg = POOL2.submit(run_prog, ctx, src, tag, 'g')
    fc = POOL2.submit(run_prog, ctx, src, tag, 'c')
    return fg.result(), fc.result()

def functions(asm):
    """{name: [lines]} of the text of each function"""
    out, cur = {}, None
    for l in asm:
        m = re.fullmatch(r'([A-Za-z_]\w*):', l)
        if m:
            cur = m.group(1)
            out[cur] = []
        elif cur is not None:
            if l.startswith('.L.return.'):
                cur = None
            else:
                out[cur].append(l)
    return out

# ------------------------------------------------------------------ types and layout (psABI; also what struct_decl does for non-packed)

BF_TYPES = {   # driver name -> (C spelling, size, unsigned-or-bool)
    'bool': ('_Bool', 1, True), 'char': ('char', 1, False), 'uchar': ('unsigned char', 1, True),
    'short': ('short', 2, False), 'ushort': ('unsigned short', 2, True), 'int': ('int', 4, False), 'uint': ('unsigned', 4, True),
    'long': ('long', 8, False), 'ulong': ('unsigned long', 8, True)}

SCALARS = {'char': (1, 1), 'signed char': (1, 1), 'unsigned char': (1, 1), 'short': (2, 2), 'unsigned short': (2, 2),
           'int': (4, 4), 'unsigned': (4, 4), 'long': (8, 8), 'unsigned long': (8, 8), '_Bool': (1, 1),
           'float': (4, 4), 'double': (8, 8)}

def align_to(n, a):
    return (n + a - 1) // a * a

def size_align(t):
    k = t[0]
    if k == 'prim':
        return SCALARS[t[1]]
    if k == 'ptr':
        return (8, 8)
    if k == 'arr':
        s, a = size_align(t[1])
        return (s * t[2], a)
    if k in ('struct', 'union'):
        return layout(t)[:2]
    raise ValueError(t)

_layout_cache = {}

def layout(t):
    """(size, align, [(offset, bit_offset, bit_width or None)]) of a struct/union"""
    key = json.dumps(t, sort_keys=True)
    if key in _layout_cache:
        return _layout_cache[key]
    kind, _tag, mems = t
    placed = []
    if kind == 'struct':
        bits, al = 0, 1
        for m in mems:
            s, a = size_align(m['ty'])
            if m.get('bits') is not None and m['bits'] == 0:
                bits = align_to(bits, s * 8)
                placed.append((bits // 8, 0, 0))
            elif m.get('bits') is not None:
                w = m['bits']
                if bits // (s * 8) != (bits + w - 1) // (s * 8):
                    bits = align_to(bits, s * 8)
                placed.append((bits // 8 // s * s, bits % (s * 8), w))
                bits += w
            else:
                bits = align_to(bits, a * 8)
                placed.append((bits // 8, 0, None))
                bits += s * 8
            if m.get('bits') is not None and m['name'] is None:
                continue
            al = max(al, a)
        r = (align_to(bits, al * 8) // 8, al, placed)
    else:
        sz, al = 0, 1
        for m in mems:
            s, a = size_align(m['ty'])
            placed.append((0, 0, m.get('bits')))
            if m.get('bits') is not None and m['name'] is None:
                sz = max(sz, (m['bits'] + 7) // 8)
                continue
            al = max(al, a)
            sz = max(sz, s)
        r = (align_to(sz, al), al, placed)
    _layout_cache[key] = r
    return r

def decl(t, name):
    """C declarator text"""
    k = t[0]
    if k == 'prim':
        return f'{t[1]} {name}'
    if k == 'ptr':
        return decl(t[1], f'(*{name})') if t[1][0] == 'arr' else decl(t[1], f'*{name}')
    if k == 'arr':
        return decl(t[1], f'{name}[{t[2] if t[2] else ""}]')
    if k in ('struct', 'union'):
        return f'{k} {t[1]} {name}' if t[1] else f'{agg_body(t)} {name}'
    raise ValueError(t)

def agg_body(t):
    out = [t[0] + (' ' + t[1] if t[1] else '') + ' {']
    for m in t[2]:
        if m['name'] is None and m.get('bits') is None:
            out.append(agg_body((m['ty'][0], '', m['ty'][2])) + ';')
        elif m.get('bits') is not None:
            out.append(f"{m['ty'][1]} {m['name'] or ''}:{m['bits']};")
        else:
            out.append(decl(m['ty'], m['name']) + ';')
    out.append('}')
    return ' '.join(out)

def covered_bytes(t, base, out):
    """set of byte offsets that belong to some member (the rest is padding)"""
    k = t[0]
    if k in ('prim', 'ptr'):
        out.update(range(base, base + size_align(t)[0]))
    elif k == 'arr':
        s = size_align(t[1])[0]
        for i in range(t[2]):
            covered_bytes(t[1], base + i * s, out)
    else:
        _, _, pl = layout(t)
        for m, (off, bo, bw) in zip(t[2], pl):
            if bw is not None:
                if bw > 0 and m['name'] is not None:
                    s = size_align(m['ty'])[0]
                    for b in range(bo, bo + bw):
                        out.add(base + off + b // 8)
            else:
                covered_bytes(m['ty'], base + off, out)
    return out

def ser_ty(t):
    """serialisation for `drv_c04 path` (offsets from the python layout)"""
    k = t[0]
    if k == 'prim':
        return f'S{SCALARS[t[1]][0]}'
    if k == 'ptr':
        return f'P({ser_ty(t[1])})'
    if k == 'arr':
        return f'A{t[2]}({ser_ty(t[1])})'
    if k == 'vla':
        return f'V{t[2]}({ser_ty(t[1])})'
    sz, _, pl = layout(t)
    ms = ''
    for m, (off, bo, bw) in zip(t[2], pl):
        if bw is not None:
            continue          # bit-fields have no address; paths never end in them for the address tie
        ms += f"{m['name'] or '_'}@{off}:{ser_ty(m['ty'])};"
    return f'G{sz}{{{ms}}}'

# ------------------------------------------------------------------ leg A: bit-field sequences (text)

def bf_triples(ctx):
    out = []
    for t, (_, s, _) in BF_TYPES.items():
        n = 8 * s
        if t == 'bool':
            out += [(t, 1, o) for o in range(8)]
            continue
        for w in range(1, n + 1):
            for o in range(0, n - w + 1):
                out.append((t, w, o))
    if ctx.thorough:
        return out
    rng = ctx.rng
    keep = set()
    for t, (_, s, _) in BF_TYPES.items():
        n = 8 * s
        ws = sorted({1, 2, 3, 7, 8, 9, 15, 16, 17, 31, 32, 33, 63, 64, n - 1, n} & set(range(1, n + 1))) if t != 'bool' else [1]
        for w in ws:
            for o in sorted({0, 1, (n - w) // 2, n - w - 1, n - w} & set(range(0, n - w + 1))):
                keep.add((t, w, o))
    pool = [x for x in out if x not in keep]
    keep |= set(rng.sample(pool, min(len(pool), 350)))
    return sorted(keep)

def bf_accessor_src(triples, base):
    src = []
    for k, (t, w, o) in enumerate(triples):
        cty = BF_TYPES[t][0]
        k += base
        pad = f'{cty} pad:{o}; ' if o else ''
        src.append(f'struct B{k} {{ {pad}{cty} f:{w}; }};')
        src.append(f'long get{k}(struct B{k} *p) {{ return p->f; }}')
        src.append(f'void set{k}(struct B{k} *p, long v) {{ p->f = v; }}')
    return '\n'.join(src) + '\n'

def leg_bfseq(ctx, corr):
    triples = bf_triples(ctx)
    model = ctx.driver('bfseq', ''.join(f'{t} {w} {o}\n' for t, w, o in triples)).splitlines()
    if len(model) != len(triples):
        corr.disagreements.append({'kind': 'bfseq', 'note': f'driver printed {len(model)} lines for {len(triples)} operations'})
        return
    chunk = 250
    futs = []
    for i in range(0, len(triples), chunk):
        part = triples[i:i + chunk]
        futs.append((i, part, POOL.submit(asm_of, ctx, bf_accessor_src(part, i), f'bfseq{i}')))
    for i, part, fut in futs:
        asm, err = fut.result()
        if asm is None:
            corr.violations.append({'what': 'chibicc rejects / fails on bit-field accessor functions', 'input': bf_accessor_src(part[:1], i),
                                    'expected': 'assembly', 'got': err})
            return
        fns = functions(asm)
        for k, (t, w, o) in enumerate(part):
            k += i
            corr.evaluations += 1
            corr.count('bfseq')
            ml, ma = model[k].split(' ## ')
            ml = ml[3:].split(' | ')
            ma = ma[3:].split(' | ')
            g, s = fns.get(f'get{k}', []), fns.get(f'set{k}', [])
            # load: the line before the first `shl $N, %rax`, that line and the next
            j = next((x for x, l in enumerate(g) if re.fullmatch(r'shl \$-?\d+, %rax', l)), None)
            real_l = g[j - 1:j + 2] if j else []
            # assign: from the last `mov %rax, %rdi` that is followed by `mov $N, %r9`
            js = [x for x in range(len(s) - 1) if s[x] == 'mov %rax, %rdi' and re.fullmatch(r'mov \$-?\d+, %r9', s[x + 1])]
            real_a = s[js[-1]:js[-1] + len(ma)] if js else []
            if not (w == 8 * BF_TYPES[t][1] and o == 0):
                corr.nontrivial.add(f'bfseq:{t}:{w}:{o}')
            if real_l != ml or real_a != ma or (js and len(s) != js[-1] + len(ma)):
                corr.disagreements.append({'kind': 'bit-field sequence text', 'input': f'{BF_TYPES[t][0]} f:{w} at bit {o}',
                                           'model': {'load': ml, 'assign': ma}, 'impl': {'load': real_l, 'assign': real_a,
                                           'trailing': s[js[-1] + len(ma):] if js else s[-4:]}})
                return
    corr.sample({'bfseq': {'field': f'{BF_TYPES[triples[-1][0]][0]} f:{triples[-1][1]} at bit {triples[-1][2]}', 'assign_lines': model[-1].split(' ## ')[1][:160]}})

# ------------------------------------------------------------------ leg B: bit-field behaviour (images, read-back, assignment value)

def rand_value(rng, w):
    v = _rand_value(rng, w)
    v = ((v + (1 << 63)) & MASK64) - (1 << 63)          # a valid `long` constant
    return v if v != -(1 << 63) else 0

def _rand_value(rng, w):
    r = rng.random()
    if r < 0.2:
        return rng.choice([0, 1, -1, (1 << w) - 1, 1 << (w - 1), (1 << (w - 1)) - 1, -(1 << (w - 1)), 1 << w, (1 << w) + 1])
    return rng.getrandbits(63) - (1 << 62) if r < 0.6 else rng.getrandbits(w + 2) - (1 << w)

def gen_bf_struct(rng, idx):
    """struct with bit-fields of mixed types/widths, unnamed and zero-width ones, and ordinary members between"""
    mems = []
    n = rng.randrange(2, 9)
    fi = 0
    for _ in range(n):
        r = rng.random()
        if r < 0.7:
            t = rng.choice(list(BF_TYPES))
            cty, s, _ = BF_TYPES[t]
            if t == 'bool':
                w = 1
            else:
                w = rng.choice([1, 2, 3, 5, 7, 8, 9, 13, 16, 17, 24, 31, 32, 33, 40, 63, 64, rng.randrange(1, 8 * s + 1)])
                w = min(w, 8 * s)
            x = rng.random()
            if x < 0.12 and t != 'bool':
                mems.append({'name': None, 'ty': ('prim', cty), 'bits': rng.choice([0, w]), 'bf': t})
            else:
                mems.append({'name': f'f{fi}', 'ty': ('prim', cty), 'bits': w, 'bf': t})
                fi += 1
        else:
            mems.append({'name': f'f{fi}', 'ty': ('prim', rng.choice(['char', 'short', 'int', 'long', 'unsigned char'])), 'bits': None})
            fi += 1
    if not any(m['name'] and m.get('bits') for m in mems):
        mems.append({'name': f'f{fi}', 'ty': ('prim', 'int'), 'bits': rng.randrange(1, 33), 'bf': 'int'})
    return ('struct', f'Q{idx}', mems)

ACCESS_FORMS = ['dot', 'arrow', 'nested', 'anon', 'array', 'ptrarith', 'complit', 'global']

def leg_bf_behaviour(ctx, corr, ncases, tagbase='bfb', collect=None, tie=True):
    """returns list of violations (also appended to corr)"""
    rng = ctx.rng
    per_prog = 40
    progs = []
    for pi in range(0, ncases, per_prog):
        src = ['#include <stdio.h>', '#include <string.h>',
               'static void dump(const char *k, void *p, int n) { unsigned char *b = p; printf("%s img=", k); for (int i = 0; i < n; i++) printf("%02x", b[i]); printf("\\n"); }']
        body = []
        cases = []
        for ci in range(pi, min(ncases, pi + per_prog)):
            mark = len(src)
            st = gen_bf_struct(rng, ci)
            size, al, pl = layout(st)
            named = [(m, p) for m, p in zip(st[2], pl) if m['name'] and m.get('bits')]
            m, (off, bo, bw) = rng.choice(named)
            form = rng.choice(ACCESS_FORMS)
            pat = rng.choice([0x00, 0xff, 0xa5, 0x5a, rng.randrange(256)])
            v = rand_value(rng, bw)
            src.append(agg_body(st) + ';')
            f = m['name']
            k = f'c{ci}'
            qoff = 0
            if form == 'dot':
                pre, obj, lv = f'struct Q{ci} s;', '&s', f's.{f}'
            elif form == 'arrow':
                pre, obj, lv = f'struct Q{ci} s, *p = &s;', '&s', f'p->{f}'
            elif form == 'nested':
                src.append(f'struct N{ci} {{ char lead; struct Q{ci} in; char tail; }};')
                pre, obj, lv = f'struct N{ci} s;', '&s', f's.in.{f}'
                qoff = align_to(1, al)
            elif form == 'anon':
                src.append(f'struct A{ci} {{ char lead; union {{ struct {{ char l2; {agg_body(("struct", "", st[2]))}; }}; long w; }}; char tail; }};')
                pre, obj, lv = f'struct A{ci} s;', '&s', f's.{f}'
                qoff = align_to(1, max(al, 8)) + align_to(1, al)
            elif form == 'array':
                i = rng.randrange(3)
                pre, obj, lv = f'struct Q{ci} s[3]; int i = {i};', 's', f's[i].{f}'
                qoff = i * size
            elif form == 'ptrarith':
                i = rng.randrange(3)
                pre, obj, lv = f'struct Q{ci} s[3], *p = s; int i = {i};', 's', f'(p + i)->{f}'
                qoff = i * size
            elif form == 'complit':
                pre, obj, lv = f'struct Q{ci} *p = &(struct Q{ci}){{0}};', 'p', f'p->{f}'
            else:
                src.append(f'struct Q{ci} g{ci}[2];')
                pre, obj, lv = f'struct Q{ci} *p = &g{ci}[1];', f'g{ci}', f'p->{f}'
                qoff = size
            szexpr = 'sizeof s' if obj in ('&s', 's') else (f'sizeof *p' if obj == 'p' else f'sizeof g{ci}')
            reads = ' '.join(f'printf("{k} {mm["name"]}=%ld\\n", (long)({lv.rsplit(f, 1)[0]}{mm["name"]}));' for mm, _ in named)
            body.append(f'  {{ {pre} memset({obj}, {pat}, {szexpr}); long r = ({lv} = {v}L); printf("{k} r=%ld\\n", r); '
                        f'dump("{k}", {obj}, {szexpr}); {reads} }}')
            cases.append({'k': k, 'struct': agg_body(st), 'field': f, 'type': m['bf'], 'w': bw, 'o': bo, 'off': off, 'form': form,
                          'pattern': pat, 'value': v, 'lvalue': lv, 'qoff': qoff,
                          'mini': '\n'.join(src[:3] + src[mark:]) + '\nint main(void) {\n' + body[-1] + '\n  return 0;\n}\n'})
        src.append('int main(void) {')
        src += body
        src.append('  return 0;\n}')
        progs.append(('\n'.join(src) + '\n', cases))
    results = list(POOL.map(lambda a: both(ctx, a[1][0], f'{tagbase}{a[0]}'), enumerate(progs)))
    # model predictions for every case: storage unit before (all pattern bytes) -> after
    ops = []
    allcases = [c for _, cs in progs for c in cs]
    for c in allcases:
        s = BF_TYPES[c['type']][1]
        old = int.from_bytes(bytes([c['pattern']]) * s, 'little')
        v = c['value']
        vv = (1 if v != 0 else 0) if c['type'] == 'bool' else v & MASK64
        ops.append(f"{c['type']} {c['w']} {c['o']} {old:x} {vv:x}\n")
    model = ctx.driver('bfmodel', ''.join(ops)).splitlines() if tie else ['unit=0 rax=0 load=0 spec=0'] * len(ops)
    mi = 0
    viol = []
    for (src, cases), ((gok, gout), (cok, cout)) in zip(progs, results):
        if not gok:
            raise RuntimeError('gcc rejects a generated bit-field program: ' + str(gout)[-400:])
        if not cok:
            v = {'what': 'chibicc fails on a bit-field program gcc accepts and runs', 'input': src, 'expected': 'same output as gcc', 'got': cout}
            corr.violations.append(v); viol.append(v)
            mi += len(cases)
            continue
        gd = {}
        for l in gout:
            gd.setdefault(l.split()[0], []).append(l)
        cd = {}
        for l in cout:
            cd.setdefault(l.split()[0], []).append(l)
        for c in cases:
            corr.evaluations += 1
            corr.count('bf-' + c['form'])
            mline = dict(x.split('=') for x in model[mi].split())
            mi += 1
            g, ch = gd.get(c['k'], []), cd.get(c['k'], [])
            s = BF_TYPES[c['type']][1]
            w = c['w']
            if not (w == 8 * s and c['o'] == 0):
                corr.nontrivial.add(f"bfb:{c['type']}:{w}:{c['o']}:{c['form']}:{c['pattern']}")
            # spec <-> gcc: assignment value and read-back of the assigned field
            spec = int(mline['spec'], 16)
            spec = spec - (1 << 64) if spec >> 63 else spec
            gr = next((int(l.split('r=')[1]) for l in g if ' r=' in l), None)
            gf = next((int(l.split('=')[1]) for l in g if l.split()[1].startswith(c['field'] + '=')), None)
            if tie and (gr != spec or gf != spec):
                corr.disagreements.append({'kind': 'spec-vs-gcc bit-field value', 'case': c, 'spec': spec, 'gcc_assign_value': gr, 'gcc_readback': gf})
                return viol
            # model <-> code: the unit's bytes in the image chibicc produced
            cimg = next((l.split('img=')[1] for l in ch if 'img=' in l), '')
            gimg = next((l.split('img=')[1] for l in g if 'img=' in l), '')
            if g != ch:
                v = {'what': 'store through a bit-field lvalue: bytes / read-back / assignment value differ from gcc',
                     'input': {'struct': c['struct'], 'statement': f"memset(obj, {c['pattern']}, size); r = ({c['lvalue']} = {c['value']}L);",
                               'field': f"{BF_TYPES[c['type']][0]} {c['field']}:{w} at byte {c['off']} bit {c['o']}", 'access': c['form']},
                     'expected': g, 'got': ch, 'model_unit': mline['unit'], 'program': c['mini']}
                corr.violations.append(v); viol.append(v)
                if collect is None:
                    return viol
                continue
            # locate the unit inside the dumped object: offset of the Q struct inside the object is found from the image diff
            unit_model = int(mline['unit'], 16).to_bytes(s, 'little').hex()
            base = c['qoff'] + c['off']
            if tie and cimg[2 * base:2 * (base + s)] != unit_model:
                corr.disagreements.append({'kind': 'bfmodel vs executed program', 'case': c, 'model_unit': unit_model, 'image': cimg, 'unit_at': base})
                return viol
    if allcases:
        corr.sample({'bit-field store': {k: allcases[-1][k] for k in ('struct', 'lvalue', 'value', 'pattern', 'form')}})
    return viol

# ------------------------------------------------------------------ leg C: general aggregates, paths, copies, zero fill

LEAF = ['char', 'unsigned char', 'short', 'unsigned short', 'int', 'unsigned', 'long', 'unsigned long', 'float', 'double', '_Bool']

class Namer:
    def __init__(self, p):
        self.p, self.n = p, 0
    def fresh(self, k='m'):
        self.n += 1
        return f'{k}{self.p}_{self.n}'

def gen_agg(rng, nm, depth, anon_ok=True):
    kind = 'struct' if rng.random() < 0.8 else 'union'
    mems = []
    for _ in range(rng.randrange(1, 6)):
        r = rng.random()
        if r < 0.45 or depth == 0:
            t = ('prim', rng.choice(LEAF))
            if rng.random() < 0.25:
                t = ('arr', t, rng.randrange(1, 5))
            mems.append({'name': nm.fresh(), 'ty': t, 'bits': None})
        elif r < 0.6:
            bt = rng.choice([x for x in BF_TYPES if x != 'bool'])
            mems.append({'name': nm.fresh(), 'ty': ('prim', BF_TYPES[bt][0]), 'bits': rng.randrange(1, 8 * BF_TYPES[bt][1] + 1), 'bf': bt})
        elif r < 0.8:
            sub = gen_agg(rng, nm, depth - 1)
            t = sub
            if rng.random() < 0.3:
                t = ('arr', sub, rng.randrange(1, 4))
            mems.append({'name': nm.fresh(), 'ty': t, 'bits': None})
        elif anon_ok:
            sub = gen_agg(rng, nm, depth - 1)
            mems.append({'name': None, 'ty': (sub[0], '', sub[2]), 'bits': None})
        else:
            mems.append({'name': nm.fresh(), 'ty': ('prim', 'int'), 'bits': None})
    return (kind, '', mems)

def named_members(t):
    """(name, ty, bits) reachable by one `.name` step (anonymous aggregates are transparent); first declaration wins"""
    out = []
    for m in t[2]:
        if m['name'] is None and m.get('bits') is None:
            out += named_members(m['ty'])
        elif m['name'] is not None:
            out.append(m)
    return out

def rand_path(rng, t, expr_is_ptr=False):
    """walk from an object of type t to a scalar leaf: [(step text for C, step for the driver)], leaf type, is_bitfield"""
    steps = []
    cur = t
    for _ in range(12):
        if cur[0] == 'prim':
            return steps, cur, False
        if cur[0] == 'arr':
            i = rng.randrange(cur[2])
            steps.append((f'[{i}]', f'[{i}]'))
            cur = cur[1]
            continue
        ms = named_members(cur)
        if not ms:
            return None
        m = rng.choice(ms)
        steps.append((f'.{m["name"]}', f'.{m["name"]}'))
        if m.get('bits') is not None:
            return steps, m['ty'], True
        cur = m['ty']
    return None

def leaf_value(rng, ty):
    n = ty[1]
    if n == '_Bool':
        return '1'
    if n in ('float', 'double'):
        return rng.choice(['1.5', '-2.25', '1024.0', '0.5'])
    s = SCALARS[n][0]
    return str(rng.getrandbits(8 * s - 1)) + ('L' if s == 8 else '')

def leg_aggregates(ctx, corr, ncases, tagbase='agg', collect=None, tie=True):
    rng = ctx.rng
    per_prog = 25
    progs = []
    for pi in range(0, ncases, per_prog):
        src = ['#include <stdio.h>', '#include <string.h>',
               'static void dump(const char *k, void *p, int n) { unsigned char *b = p; printf("%s img=", k); for (int i = 0; i < n; i++) printf("%02x", b[i]); printf("\\n"); }',
               'static void dirty(void) { volatile char junk[2048]; for (int i = 0; i < 2048; i++) junk[i] = 0xEE; }']
        body, cases = [], []
        for ci in range(pi, min(ncases, pi + per_prog)):
            nm = Namer(ci)
            mark = len(src)
            for _ in range(20):
                st = gen_agg(rng, nm, rng.randrange(0, 3))
                st = (st[0], f'T{ci}', st[2])
                pth = rand_path(rng, st)
                if pth and size_align(st)[0] <= 600:
                    break
            else:
                continue
            steps, leafty, isbf = pth
            size, al, _ = layout(st)
            src.append(agg_body(st) + ';')
            pat = rng.choice([0x00, 0xff, 0xa5, 0x3c])
            val = leaf_value(rng, leafty) if not isbf else str(rng.getrandbits(20))
            cpath = ''.join(s for s, _ in steps)
            k = f'c{ci}'
            kind = rng.choice(['local', 'ptr', 'array', 'global', 'complit', 'assign', 'byvalue', 'zerofill'])
            pad = sorted(set(range(size)) - covered_bytes(st, 0, set()))
            c = {'k': k, 'type': agg_body(st), 'path': cpath, 'kind': kind, 'pattern': pat, 'value': val, 'size': size, 'padding': pad,
                 'driver': (ser_ty(st), ' '.join(d for _, d in steps)) if not isbf else None}
            T = f'{st[0]} T{ci}'
            offp = '' if isbf else f'printf("{k} off=%ld\\n", (long)((char *)&(LV) - (char *)(BASE)));'
            if kind == 'local':
                b = f'{T} s; memset(&s, {pat}, sizeof s); s{cpath} = {val}; dump("{k}", &s, sizeof s); ' + offp.replace('LV', f's{cpath}').replace('BASE', '&s')
            elif kind == 'ptr':
                first = cpath[1:] if cpath.startswith('.') else None
                lv = f'p->{first}' if first else f'(*p){cpath}'
                b = f'{T} s, *p = &s; memset(&s, {pat}, sizeof s); {lv} = {val}; dump("{k}", &s, sizeof s); ' + offp.replace('LV', lv).replace('BASE', 'p')
                if c['driver']:
                    c['driver'] = (f'P({c["driver"][0]})', ('>' + c['driver'][1][1:]) if first else None)
                    c['ptr_base'] = True
            elif kind == 'array':
                i = rng.randrange(3)
                b = (f'{T} a[3], *p = a; int i = {i}; memset(a, {pat}, sizeof a); (*(p + i)){cpath} = {val}; dump("{k}", a, sizeof a); '
                     + offp.replace('LV', f'a[i]{cpath}').replace('BASE', 'a'))
                c['size'] = 3 * size
                c['padding'] = [j * size + x for j in range(3) for x in pad]
                if c['driver']:
                    c['driver'] = (f'A3({c["driver"][0]})', f'[{i}] ' + c['driver'][1])
            elif kind == 'global':
                src.append(f'{T} g{ci};')
                b = f'memset(&g{ci}, {pat}, sizeof g{ci}); g{ci}{cpath} = {val}; dump("{k}", &g{ci}, sizeof g{ci}); ' + offp.replace('LV', f'g{ci}{cpath}').replace('BASE', f'&g{ci}')
            elif kind == 'complit':
                b = f'{T} *p = &({T}){{0}}; memset(p, {pat}, sizeof *p); (*p){cpath} = {val}; dump("{k}", p, sizeof *p); ' + offp.replace('LV', f'(*p){cpath}').replace('BASE', 'p')
            elif kind == 'assign':
                b = (f'{T} s, d; memset(&s, {pat}, sizeof s); memset(&d, {pat ^ 0xff}, sizeof d); s{cpath} = {val}; d = s; '
                     f'dump("{k}", &d, sizeof d); {T} e[3]; memset(e, {pat ^ 0xff}, sizeof e); e[1] = d; dump("{k}", e, sizeof e);')
                c['mask_padding'] = True
                c['driver'] = None
            elif kind == 'byvalue':
                src.append(f'static {T} id{ci}({T} x) {{ return x; }}')
                src.append(f'static void mod{ci}({T} x) {{ x{cpath} = {val}; }}')
                src.append(f'static {T} mk{ci}({T} *q) {{ {T} t = *q; t{cpath} = {val}; return t; }}')
                b = (f'{T} s, d, e[3]; memset(&s, {pat}, sizeof s); memset(&d, {pat ^ 0xff}, sizeof d); memset(e, {pat ^ 0xff}, sizeof e); mod{ci}(s); '
                     f'dump("{k}", &s, sizeof s); d = id{ci}(s); dump("{k}", &d, sizeof d); e[1] = mk{ci}(&s); dump("{k}", e, sizeof e);')
                c['mask_padding'] = True
                c['driver'] = None
            else:
                leaf_init = leaf_value(rng, ('prim', 'int'))
                b = (f'dirty(); {{ {T} s = {{0}}; dump("{k}", &s, sizeof s); }} dirty(); {{ {T} a[2] = {{0}}; dump("{k}", a, sizeof a); }} '
                     f'dirty(); {{ char z[{rng.randrange(1, 70)}] = "ab"; dump("{k}", z, sizeof z); int y[{rng.randrange(1, 9)}] = {{{leaf_init}}}; dump("{k}", y, sizeof y); }}')
                c['mask_padding'] = True
                c['zerofill'] = True
                c['driver'] = None
            body.append(f'  {{ {b} }}')
            c['mini'] = '\n'.join(src[:4] + src[mark:]) + '\nint main(void) {\n' + body[-1] + '\n  return 0;\n}\n'
            cases.append(c)
        src.append('int main(void) {')
        src += body
        src.append('  return 0;\n}')
        progs.append(('\n'.join(src) + '\n', cases))
    results = list(POOL.map(lambda a: both(ctx, a[1][0], f'{tagbase}{a[0]}'), enumerate(progs)))
    allc = [c for _, cs in progs for c in cs]
    drv = [c for c in allc if c.get('driver') and c['driver'][1] is not None]
    model = ctx.driver('path', ''.join(f'{c["driver"][0]} | {c["driver"][1]}\n' for c in drv)).splitlines() if drv and tie else []
    pred = {c['k']: l for c, l in zip(drv, model)}
    viol = []
    for (src, cases), ((gok, gout), (cok, cout)) in zip(progs, results):
        if not gok:
            raise RuntimeError('gcc rejects a generated aggregate program: ' + str(gout)[-400:])
        if not cok:
            v = {'what': 'chibicc fails on an aggregate program gcc accepts and runs', 'input': src, 'expected': 'same output as gcc', 'got': cout}
            corr.violations.append(v); viol.append(v)
            continue
        def by_case(lines):
            d = {}
            for l in lines:
                d.setdefault(l.split()[0], []).append(l)
            return d
        gd, cd = by_case(gout), by_case(cout)
        for c in cases:
            corr.evaluations += 1
            corr.count('agg-' + c['kind'])
            corr.nontrivial.add(hashlib.sha1((c['type'] + c['path'] + c['kind']).encode()).hexdigest())
            g, ch = gd.get(c['k'], []), cd.get(c['k'], [])
            def masked(lines):
                out = []
                for l in lines:
                    if 'img=' in l and c.get('mask_padding'):
                        h = l.split('img=')[1]
                        b = [h[2 * i:2 * i + 2] for i in range(len(h) // 2)]
                        n = c['size']
                        for x in range(len(b)):
                            if (x % n) in set(c['padding']):
                                b[x] = '..'
                        out.append(l.split('img=')[0] + 'img=' + ''.join(b))
                    else:
                        out.append(l)
                return out
            if masked(g) != masked(ch):
                v = {'what': f'access through an lvalue ({c["kind"]}): object bytes / offset differ from gcc',
                     'input': {'type': c['type'], 'path': c['path'], 'kind': c['kind'], 'pattern': c['pattern'], 'value': c['value']},
                     'expected': masked(g), 'got': masked(ch), 'program': c['mini']}
                corr.violations.append(v); viol.append(v)
                if collect is None:
                    return viol
                continue
            if c.get('zerofill'):
                imgs = [l.split('img=')[1] for l in ch if 'img=' in l][:2]
                if any(set(h) != {'0'} for h in imgs):
                    v = {'what': 'partially initialised local: bytes outside the initialised members are not zero (ND_MEMZERO)',
                         'input': {'type': c['type'], 'statement': 'T s = {0}; T a[2] = {0}; after a call that filled the stack with 0xEE'},
                         'expected': 'all bytes 00', 'got': imgs, 'program': c['mini']}
                    corr.violations.append(v); viol.append(v)
                    if collect is None:
                        return viol
                    continue
            if c['k'] in pred:
                # model <-> code and spec <-> gcc on the address
                m = re.match(r'addr=(\d+) spec=(\d+)', pred[c['k']])
                base = 2000000 if c.get('ptr_base') else 1000000
                goff = next((int(l.split('off=')[1]) for l in g if 'off=' in l), None)
                coff = next((int(l.split('off=')[1]) for l in ch if 'off=' in l), None)
                if not m:
                    corr.disagreements.append({'kind': 'path model rejects a path both compilers accept', 'case': c, 'model': pred[c['k']]})
                    return viol
                if int(m.group(2)) - base != goff:
                    corr.disagreements.append({'kind': 'spec-vs-gcc designated address', 'case': c, 'spec': int(m.group(2)) - base, 'gcc': goff})
                    return viol
                if int(m.group(1)) - base != coff:
                    corr.disagreements.append({'kind': 'gen_addr model vs executed program', 'case': c, 'model': int(m.group(1)) - base, 'impl': coff})
                    return viol
    if allc:
        corr.sample({'aggregate': {k: allc[-1][k] for k in ('type', 'path', 'kind', 'value')}})
    return viol

# ------------------------------------------------------------------ leg D: frames

LOCAL_TYPES = [('char', 1, 1, 0), ('short', 2, 2, 0), ('int', 4, 4, 0), ('long', 8, 8, 0), ('double', 8, 8, 0), ('long double', 16, 16, 0),
               ('char *', 8, 8, 0)]

def gen_frame_fn(rng, idx, overaligned_ok):
    """returns (source of function f<idx>, model input, names in reference order, probes)"""
    params, pdecl = [], []
    gp = fp = 0
    structs = []
    np_ = rng.choice([0, 1, 2, 3, 6, 7, 8, 9, 11])
    for i in range(np_):
        r = rng.random()
        if r < 0.55:
            t = rng.choice(['char', 'short', 'int', 'long', 'char *', 'unsigned char'])
            s = {'char': 1, 'unsigned char': 1, 'short': 2, 'int': 4, 'long': 8, 'char *': 8}[t]
            st = gp >= 6
            gp += 1
            params.append((s, s, 0, int(st)))
            pdecl.append((t, f'p{i}', s, s))
        elif r < 0.8:
            t = rng.choice(['double', 'float'])
            s = 8 if t == 'double' else 4
            st = fp >= 8
            fp += 1
            params.append((s, s, 0, int(st)))
            pdecl.append((t, f'p{i}', s, s))
        elif r < 0.9:
            params.append((16, 16, 0, 1))
            pdecl.append(('long double', f'p{i}', 16, 16))
        else:
            n = rng.choice([17, 24, 33, 40])
            structs.append(f'struct BS{idx}_{i} {{ char c[{n}]; }};')
            params.append((n, 1, 0, 1))
            pdecl.append((f'struct BS{idx}_{i}', f'p{i}', n, 1))
    locs = []
    for i in range(rng.randrange(1, 9)):
        r = rng.random()
        if r < 0.45:
            t, s, a, _ = rng.choice(LOCAL_TYPES)
            al = a
            text = f'{t} v{i};'
            if rng.random() < 0.2:
                al = rng.choice([x for x in (2, 4, 8, 16, 32, 64) if x >= a and (overaligned_ok or x <= 16)])
                text = f'_Alignas({al}) {t} v{i};'
            locs.append((f'v{i}', s, al, 0, text, max(a, al)))
        elif r < 0.8:
            t, s, a, _ = rng.choice(LOCAL_TYPES[:5])
            n = rng.choice([1, 2, 3, 5, 7, 15, 16, 17, 24, 31, 33])
            locs.append((f'v{i}', s * n, a, 1, f'{t} v{i}[{n}];', a))
        else:
            n = rng.choice([1, 3, 9, 17])
            structs.append(f'struct LS{idx}_{i} {{ char c[{n}]; {rng.choice(["char", "short", "int", "long"])} x; }};')
            xs = {'char': 1, 'short': 2, 'int': 4, 'long': 8}[structs[-1].split('; ')[1].split()[0]]
            sz = align_to(align_to(n, xs) + xs, xs)
            locs.append((f'v{i}', sz, xs, 0, f'struct LS{idx}_{i} v{i};', xs))
    # fn->locals: most recent first; __alloca_size__ is created right after the parameters
    body = [(s, al, arr, 0) for (_, s, al, arr, _, _) in reversed(locs)] + [(8, 8, 0, 0)]
    model_in = ';'.join(','.join(map(str, x)) for x in body) + ' / ' + ';'.join(','.join(map(str, x)) for x in params)
    order = [n for (n, *_rest) in locs] + [p[1] for p in pdecl]
    refs = ' '.join(f'sink(&{n});' for n in order)
    probes = ' '.join(f'probe({idx}, "{n}", &{n}, sizeof {n}, {al});' for (n, s, a0, arr, txt, al) in locs) + ' ' + \
             ' '.join(f'probe({idx}, "{n}", &{n}, sizeof {n}, {1 if t.startswith("struct") else min(a, 8)});' for (t, n, s, a) in pdecl)
    src = '\n'.join(structs) + f'\nvoid f{idx}({", ".join(t + " " + n for t, n, _, _ in pdecl) or "void"}) {{ ' + ' '.join(l[4] for l in locs) + f' {refs} {probes} endprobe({idx}); }}\n'
    call_args = ', '.join('(' + t + '){0}' if t.startswith('struct') else '0' for t, n, _, _ in pdecl)
    # expected offsets in `order`: locals are body reversed (drop alloca slot), params after
    return src, model_in, order, len(locs), f'f{idx}({call_args});', any(l[5] > 16 for l in locs)

def leg_frames(ctx, corr, nfn, tagbase='frm', collect=None, tie=True):
    rng = ctx.rng
    known = {f['id'] for f in load_known().get('findings', []) if f.get('property') == 'C04'}
    over_ok = 'C04-overaligned-auto' in known
    hdr = ('#include <stdio.h>\n#include <stdint.h>\n'
           'struct P { int fn; const char *n; uintptr_t a; unsigned long sz; int al; } P[64]; int np;\n'
           'void sink(void *p) {}\n'
           'void probe(int fn, const char *n, void *p, unsigned long sz, int al) { P[np++] = (struct P){fn, n, (uintptr_t)p, sz, al}; }\n'
           'void endprobe(int fn) { for (int i = 0; i < np; i++) { if (P[i].a % P[i].al) printf("f%d misaligned %s %d\\n", fn, P[i].n, P[i].al);\n'
           '  if (P[i].a % (P[i].al < 16 ? P[i].al : 16)) printf("f%d below16 %s %d\\n", fn, P[i].n, P[i].al);\n'
           '  for (int j = i + 1; j < np; j++) if (P[i].a < P[j].a + P[j].sz && P[j].a < P[i].a + P[i].sz && P[i].sz && P[j].sz) printf("f%d overlap %s %s\\n", fn, P[i].n, P[j].n); }\n'
           '  printf("f%d probed %d\\n", fn, np); np = 0; }\n')
    per = 30
    viol = []
    for base in range(0, nfn, per):
        fns = [gen_frame_fn(rng, i, over_ok) for i in range(base, min(nfn, base + per))]
        calls = []
        for depth, f in enumerate(fns):
            calls.append(f[4])
        src = hdr + ''.join(f[0] for f in fns) + 'static void deeper(int d) { volatile char pad[8]; pad[0] = d; ' + ' '.join(calls) + ' }\n' + \
              'int main(void) { ' + ' '.join(calls) + ' deeper(1); return 0; }\n'
        asm, err = asm_of(ctx, src, f'{tagbase}{base}')
        if asm is None:
            v = {'what': 'chibicc fails on a function with generated locals', 'input': src, 'expected': 'assembly', 'got': err}
            corr.violations.append(v); viol.append(v)
            return viol
        fa = functions(asm)
        model = ctx.driver('frame', ''.join(f[1] + '\n' for f in fns)).splitlines() if tie else []
        for f, ml in zip(fns, model):
            idx = int(f[4][1:f[4].index('(')])
            corr.evaluations += 1
            corr.count('frame')
            m = re.fullmatch(r'stack=(-?\d+) offs=(.*)', ml)
            offs = [int(x) for x in m.group(2).split(',')]
            nloc = f[3]
            # model order: reversed locals, alloca slot, params  ->  reference order: locals, params
            want = list(reversed(offs[:nloc])) + offs[nloc + 1:]
            lines = fa.get(f'f{idx}', [])
            got = [int(x) for l in lines for x in re.findall(r'^lea (-?\d+)\(%rbp\), %rax$', l)]
            got = got[:len(want)]      # the first references are the sink(&x) calls in declaration order
            sub = next((int(re.fullmatch(r'sub \$(\d+), %rsp', l).group(1)) for l in lines if re.fullmatch(r'sub \$(\d+), %rsp', l)), None)
            ab = next((int(re.fullmatch(r'mov %rsp, (-?\d+)\(%rbp\)', l).group(1)) for l in lines if re.fullmatch(r'mov %rsp, (-?\d+)\(%rbp\)', l)), None)
            if len(set(want)) > 2:
                corr.nontrivial.add('frame:' + hashlib.sha1(f[1].encode()).hexdigest())
            if got != want or sub != int(m.group(1)) or ab != offs[nloc]:
                corr.disagreements.append({'kind': 'frame offsets', 'input': f[0], 'model_input': f[1], 'model': {'offsets': want, 'stack_size': int(m.group(1)), 'alloca_bottom': offs[nloc]},
                                           'impl': {'offsets': got, 'stack_size': sub, 'alloca_bottom': ab}})
                return viol
        # run-time probes (alignment, overlap) on the chibicc-compiled program
        ok, out = run_prog(ctx, src, f'{tagbase}{base}', 'c')
        if not ok:
            v = {'what': 'program with generated frames fails under chibicc', 'input': src, 'expected': 'runs', 'got': out}
            corr.violations.append(v); viol.append(v)
            return viol
        bad = [l for l in out if 'misaligned' in l or 'overlap' in l or 'below16' in l]    # below16: not even min(align, 16) (C04_frame_aligned)
        for l in bad:
            idx = int(l.split()[0][1:])
            f = fns[idx - base]
            v = {'what': 'automatic objects overlap or are misaligned at run time: ' + l, 'input': f[0], 'expected': 'every object aligned, no two live objects overlap', 'got': l}
            if f[5] and 'misaligned' in l and over_ok:
                v['known_id'] = 'C04-overaligned-auto'
                if 'C04-overaligned-auto' not in corr.known_hits:
                    corr.known_hits.append('C04-overaligned-auto')
                corr.violations.append(v)
                continue
            corr.violations.append(v); viol.append(v)
            if collect is None:
                return viol
        if not over_ok:
            corr.count('skipped_extended_alignment', 0)
    if tie:
        corr.sample({'frame': {'function': fns[-1][0][-300:], 'model_input': fns[-1][1], 'model_output': model[-1]}})
    return viol

# ------------------------------------------------------------------ leg E: VLA / alloca

def gen_alloca_fn(rng, idx):
    """function t<idx>: allocations interleaved with calls and nested expressions; self-checking; prints the block addresses
    relative to a local.  Returns (source, model operations in chibicc's evaluation order, indices of the recorded blocks)"""
    n = rng.randrange(2, 7)
    sizes = [rng.choice([1, 2, 7, 8, 15, 16, 17, 31, 32, 33, 100, 255, 256, 1000]) for _ in range(n)]
    lines = ['char anchor; sink(&anchor);', f'int ok = 1; char *b[{n}]; unsigned long sz[{n}];']
    ops, rec = [], []
    for i, s in enumerate(sizes):
        r = rng.random()
        if r < 0.3:
            lines.append(f'b[{i}] = alloca({s}); sz[{i}] = {s};')
        elif r < 0.55:
            lines.append(f'int n{i} = ident({s}); char vla{i}[n{i}]; b[{i}] = vla{i}; sz[{i}] = sizeof vla{i}; if (sizeof vla{i} != {s}) ok = 0;')
        elif r < 0.75:
            # alloca evaluated while the other arguments are already on the stack (arguments are evaluated right to left)
            k = rng.randrange(3, 9)
            args = ', '.join(str(100 + j) for j in range(k))
            lines.append(f'b[{i}] = pick{k}(alloca({s}), {args}); sz[{i}] = {s}; if (lastsum != {sum(100 + j for j in range(k))}) ok = 0;')
        else:
            # alloca in the left operand: right operands are live temporaries during the call.  chibicc evaluates the right
            # operand of a binary operator first, so nest(alloca(8), ..) runs before b[i] = alloca(s)
            v = rng.randrange(1, 1 << 30)
            lines.append(f'{{ long t = (((long)(b[{i}] = alloca({s})) & 0) + {v}L) * 3 + (ident({v}) - (((long)ident(7)) + (long)nest(alloca(8), {v})));'
                         f' sz[{i}] = {s}; if (t != {v}L * 3 - 7) ok = 0; }}')
            ops.append('a8')
        rec.append(len(ops))
        ops.append(f'a{s}')
        lines.append(f'memset(b[{i}], {i + 1}, sz[{i}]);')
        if rng.random() < 0.5:
            lines.append(f'clobber({rng.randrange(1, 200)});')
    lines.append(f'for (int i = 0; i < {n}; i++) {{ if ((unsigned long)b[i] % 16) ok = 0; for (unsigned long j = 0; j < sz[i]; j++) if (b[i][j] != i + 1) ok = 0;')
    lines.append(f'  for (int k = i + 1; k < {n}; k++) if (b[i] < b[k] + sz[k] && b[k] < b[i] + sz[i]) ok = 0;')
    lines.append('  if (b[i] < (char *)&anchor + 1 && (char *)&anchor < b[i] + sz[i]) ok = 0; }')
    lines.append(f'printf("t{idx} ok=%d rel=", ok); for (int i = 0; i < {n}; i++) printf("%ld,", (long)(b[i] - &anchor)); printf("\\n");')
    return f'void t{idx}(void) {{\n  ' + '\n  '.join(lines) + '\n}\n', ops, rec

def gen_vla2_fn(rng, idx):
    n, m = rng.randrange(1, 7), rng.randrange(1, 7)
    k = rng.randrange(1, 4)
    return (f'void w{idx}(int n, int m, int k) {{ int before = 0x1111; int a[n][m]; long c[k][n][m]; int after = 0x2222; int ok = 1;\n'
            f'  if (sizeof a != (unsigned long)n * m * sizeof(int) || sizeof a[0] != m * sizeof(int) || sizeof c != (unsigned long)k * n * m * 8 || sizeof c[0] != (unsigned long)n * m * 8) ok = 0;\n'
            f'  for (int i = 0; i < n; i++) for (int j = 0; j < m; j++) a[i][j] = i * 100 + j;\n'
            f'  for (int h = 0; h < k; h++) for (int i = 0; i < n; i++) for (int j = 0; j < m; j++) c[h][i][j] = h * 10000 + i * 100 + j;\n'
            f'  int (*p)[m] = a; for (int i = 0; i < n; i++) for (int j = 0; j < m; j++) if (p[i][j] != i * 100 + j || *(*(a + i) + j) != i * 100 + j || (char *)&a[i][j] - (char *)a != (i * m + j) * 4) ok = 0;\n'
            f'  for (int h = 0; h < k; h++) for (int i = 0; i < n; i++) for (int j = 0; j < m; j++) if (c[h][i][j] != h * 10000 + i * 100 + j || (char *)&c[h][i][j] - (char *)c != ((h * n + i) * m + j) * 8) ok = 0;\n'
            f'  if (before != 0x1111 || after != 0x2222) ok = 0;\n'
            f'  printf("w{idx} ok=%d %lu %lu\\n", ok, (unsigned long)sizeof a, (unsigned long)sizeof c); }}\n', f'w{idx}({n}, {m}, {k});')

ALLOCA_HDR = ('#include <stdio.h>\n#include <string.h>\nvoid *alloca(unsigned long);\n'
              'long lastsum;\nvoid sink(void *p) {}\nint ident(int x) { return x; }\n'
              'void clobber(int n) { volatile char junk[512]; for (int i = 0; i < 512; i++) junk[i] = n; }\n'
              'long nest(void *p, long v) { memset(p, 0x77, 8); return v; }\n' +
              ''.join(f'void *pick{k}(void *p, {", ".join("long a%d" % j for j in range(k))}) {{ lastsum = {" + ".join("a%d" % j for j in range(k))}; clobber(1); return p; }}\n' for k in range(3, 9)))

def leg_alloca(ctx, corr, nfn, tagbase='alc', collect=None, tie=True):
    rng = ctx.rng
    viol = []
    per = 20
    for base in range(0, nfn, per):
        fns = [gen_alloca_fn(rng, i) for i in range(base, min(nfn, base + per))]
        vl = [gen_vla2_fn(rng, i) for i in range(base, min(nfn, base + per), 2)]
        src = ALLOCA_HDR + ''.join(f[0] for f in fns) + ''.join(v[0] for v in vl) + 'int main(void) { ' + \
              ' '.join(f't{i}();' for i in range(base, base + len(fns))) + ' ' + ' '.join(v[1] for v in vl) + ' return 0; }\n'
        gsrc = src.replace('void *alloca(unsigned long);\n', '#include <alloca.h>\n')
        write(ctx, f'{tagbase}{base}.c', src)
        write(ctx, f'{tagbase}{base}g.c', gsrc)
        fg = POOL2.submit(run_prog, ctx, gsrc, f'{tagbase}{base}g', 'g')
        (cok, cout) = run_prog(ctx, src, f'{tagbase}{base}', 'c')
        (gok, gout) = fg.result()
        if not gok:
            raise RuntimeError('gcc rejects a generated VLA/alloca program: ' + str(gout)[-400:])
        if not cok:
            # isolate one function
            small = None
            for (fsrc, ops, rec), i in zip(fns, range(base, base + len(fns))):
                one = ALLOCA_HDR + fsrc + f'int main(void) {{ t{i}(); return 0; }}\n'
                ok1, out1 = run_prog(ctx, one, f'{tagbase}{base}_one{i}', 'c')
                if not ok1 or ' ok=1 ' not in (out1[0] if out1 else ''):
                    small = (one, out1)
                    break
            if small is None:
                for (vsrc, call) in vl:
                    one = ALLOCA_HDR + vsrc + f'int main(void) {{ {call} return 0; }}\n'
                    ok1, out1 = run_prog(ctx, one, f'{tagbase}{base}_onev', 'c')
                    if not ok1 or ' ok=1 ' not in (out1[0] if out1 else ''):
                        small = (one, out1)
                        break
            v = {'what': 'VLA / alloca program crashes or fails under chibicc (blocks or live temporaries corrupted)', 'input': small[0] if small else src,
                 'expected': 'ok=1 for every function, as under gcc', 'got': small[1] if small else cout}
            corr.violations.append(v); viol.append(v)
            return viol
        asm, err = asm_of(ctx, src, f'{tagbase}{base}s')
        fa = functions(asm or [])
        cl = {l.split()[0]: l for l in cout}
        gl = {l.split()[0]: l for l in gout}
        model_ops, metas = [], []
        for (fsrc, ops, rec), i in zip(fns, range(base, base + len(fns))):
            corr.evaluations += 1
            corr.count('alloca')
            corr.nontrivial.add('alloca:' + hashlib.sha1(fsrc.encode()).hexdigest())
            line = cl.get(f't{i}', '')
            if ' ok=1 ' not in line:
                v = {'what': 'alloca / VLA blocks: misaligned, overlapping, corrupted by a later allocation or a call, or a live temporary was lost',
                     'input': ALLOCA_HDR + fsrc + f'int main(void) {{ t{i}(); return 0; }}\n', 'expected': gl.get(f't{i}', '').split(' rel=')[0], 'got': line.split(' rel=')[0]}
                corr.violations.append(v); viol.append(v)
                if collect is None:
                    return viol
                continue
            lines = fa.get(f't{i}', [])
            sub = next((int(re.fullmatch(r'sub \$(\d+), %rsp', l).group(1)) for l in lines if re.fullmatch(r'sub \$(\d+), %rsp', l)), None)
            anchor = next((int(x) for l in lines for x in re.findall(r'^lea (-?\d+)\(%rbp\), %rax$', l)), None)
            if not tie:
                continue
            if sub is None or anchor is None:
                corr.disagreements.append({'kind': 'alloca tie: prologue / anchor not found in the assembly', 'function': fsrc})
                return viol
            model_ops.append(f'{-sub} ' + ' '.join(ops) + '\n')
            metas.append((anchor, line, fsrc, rec))
        if model_ops:
            mo = ctx.driver('alloca', ''.join(model_ops)).splitlines()
            for (anchor, line, fsrc, rec), ml in zip(metas, mo):
                blocks = [int(x.split(':')[0]) for x in ml.split('blocks=')[1].split(',') if x]
                rel = [int(x) for x in line.split('rel=')[1].split(',') if x]
                want = [blocks[r] - anchor for r in rec]
                if want != rel:
                    corr.disagreements.append({'kind': 'alloca state machine vs executed program', 'function': fsrc, 'model': ml, 'anchor_offset': anchor,
                                               'model_rel': want, 'impl_rel': rel})
                    return viol
        for (vsrc, call) in vl:
            name = call.split('(')[0]
            corr.evaluations += 1
            corr.count('vla-2d')
            if cl.get(name) != gl.get(name) or ' ok=1 ' not in cl.get(name, ''):
                v = {'what': 'multi-dimensional VLA: element addresses / sizeof / neighbours wrong', 'input': ALLOCA_HDR + vsrc + f'int main(void) {{ {call} return 0; }}',
                     'expected': gl.get(name), 'got': cl.get(name)}
                corr.violations.append(v); viol.append(v)
                if collect is None:
                    return viol
    corr.sample({'alloca': {'function': fns[-1][0][:500]}})
    return viol

# ------------------------------------------------------------------ leg F: _Bool stores and struct copies (text), the sequences on the host CPU

BOOL_SRC = [('char', 1), ('unsigned char', 1), ('short', 2), ('unsigned short', 2), ('int', 4), ('unsigned', 4), ('long', 8),
            ('unsigned long', 8), ('char *', 8), ('_Bool', 1)]

def leg_seqtext(ctx, corr):
    """text tie of `cast(from, _Bool); store(_Bool)` and of the struct-store byte loop against chibicc -S"""
    src = ['struct WB { char lead; _Bool b; char tail; };']
    for k, (t, sz) in enumerate(BOOL_SRC):
        src.append(f'void sb{k}(_Bool *p, {t} v) {{ *p = v; }}')
        src.append(f'void sm{k}(struct WB *p, {t} v) {{ p->b = v; }}')
    sizes = [0, 1, 2, 3, 4, 7, 8, 9, 15, 16, 17, 24, 33, 64, 100] + ([ctx.rng.randrange(1, 300) for _ in range(6)] if not ctx.thorough else list(range(101, 180)))
    sizes = sorted(set(sizes))
    for n in sizes:
        src.append(f'struct CP{n} {{ char c[{n}]; }}; void cp{n}(struct CP{n} *d, struct CP{n} *s) {{ *d = *s; }}' if n else
                   'struct CP0 {}; void cp0(struct CP0 *d, struct CP0 *s) { *d = *s; }')
    psizes = [n for n in sizes if n >= 17][:8] + [17, 24, 40]        # > 16 bytes: always passed / returned in memory
    psizes = sorted(set(psizes))
    for n in psizes:
        src.append(f'struct PV{n} {{ char c[{n}]; }}; void take{n}(struct PV{n} v); void call{n}(struct PV{n} *p) {{ take{n}(*p); }} '
                   f'struct PV{n} ret{n}(struct PV{n} *p) {{ return *p; }}')
    # whole statements `local.member = c` (int bit-fields: the constant needs no conversion)
    stm = []
    for n in range(14 if not ctx.thorough else 120):
        lead = ctx.rng.choice([0, 1, 3, 4, 5, 8, 9, 17])
        w = ctx.rng.randrange(1, 33)
        o = ctx.rng.randrange(0, 33 - w)
        c = ctx.rng.choice([0, 1, 5, 9, 1000, 77, 2147483647, ctx.rng.randrange(0, 2 ** 31)])      # a negative constant is ND_NEG over ND_NUM
        mems = ([{'name': 'lead', 'ty': ('arr', ('prim', 'char'), lead), 'bits': None}] if lead else []) + \
               ([{'name': 'pad', 'ty': ('prim', 'int'), 'bits': o}] if o else []) + \
               [{'name': 'f', 'ty': ('prim', 'int'), 'bits': w}, {'name': 'tail', 'ty': ('prim', 'char'), 'bits': None}]
        st = ('struct', f'ST{n}', mems)
        k, o, _ = layout(st)[2][len(mems) - 2]          # byte offset of the unit and bit offset of `f` (it may have moved to the next unit)
        src.append(f'{agg_body(st)}; void st{n}(void) {{ struct ST{n} s; s.f = {c}; }}')
        stm.append((n, k, w, o, c))
    asm, err = asm_of(ctx, '\n'.join(src) + '\n', 'seqtext')
    if asm is None:
        corr.violations.append({'what': 'chibicc fails on _Bool stores / struct assignments', 'input': '\n'.join(src), 'expected': 'assembly', 'got': err})
        return
    fns = functions(asm)
    bm = ctx.driver('boolseq', '0\n1\n').splitlines()
    sm = ctx.driver('structseq', ''.join(f'{n}\n' for n in sizes)).splitlines()
    if len(bm) != 2 or len(sm) != len(sizes):
        corr.disagreements.append({'kind': 'seqtext', 'note': 'driver answered a wrong number of lines'})
        return
    for k, (t, sz) in enumerate(BOOL_SRC):
        for fn in (f'sb{k}', f'sm{k}'):
            corr.evaluations += 1
            corr.count('boolseq')
            corr.nontrivial.add(f'boolseq:{fn}')
            lines = fns.get(fn, [])
            want = bm[1 if sz <= 4 else 0].split(' | ')      # `_Bool v` too: cast() converts whenever the target is _Bool
            j = [x for x in range(len(lines)) if lines[x:x + len(want)] == want]
            # the sequence must be the tail of the function (nothing after the store)
            if not j or j[-1] + len(want) != len(lines):
                corr.disagreements.append({'kind': '_Bool store sequence text', 'input': [l for l in src if f' {fn}(' in l][0], 'model': want, 'impl': lines[-8:]})
                return
    reqs, metas = [], []
    for n, k, w, o, c in stm:
        lines = fns.get(f'st{n}', [])
        j = [x for x in range(len(lines)) if re.fullmatch(r'lea (-?\d+)\(%rbp\), %rax', lines[x])]
        if not j:
            corr.disagreements.append({'kind': 'statement text', 'input': [l for l in src if f' st{n}(' in l][0], 'impl': lines})
            return
        d = int(re.fullmatch(r'lea (-?\d+)\(%rbp\), %rax', lines[j[-1]]).group(1))
        reqs.append(f'{d} {k} {c} int {w} {o}\n')
        metas.append((n, lines[j[-1]:]))
    stmodel = ctx.driver('bfstmt', ''.join(reqs)).splitlines() if reqs else []
    for (n, got), ml in zip(metas, stmodel):
        corr.evaluations += 1
        corr.count('bfstmt')
        corr.nontrivial.add('bfstmt:' + [l for l in src if f' st{n}(' in l][0])
        if got != ml.split(' | '):
            corr.disagreements.append({'kind': 'statement text (gen_addr; push; constant; bit-field arm)', 'input': [l for l in src if f' st{n}(' in l][0],
                                       'model': ml.split(' | '), 'impl': got})
            return
    pm = ctx.driver('pushseq', ''.join(f'{n}\n' for n in psizes)).splitlines()
    for n, ml in zip(psizes, pm):
        corr.evaluations += 2
        corr.count('pushseq'); corr.count('retseq')
        corr.nontrivial.add(f'pushseq:{n}'); corr.nontrivial.add(f'retseq:{n}')
        want = ml.split(' | ')
        lines = fns.get(f'call{n}', [])
        j = [x for x in range(len(lines)) if lines[x] == want[0]]
        if not j or lines[j[0]:j[0] + len(want)] != want:
            corr.disagreements.append({'kind': 'push_struct text', 'input': f'struct of {n} bytes passed by value', 'model': want[:5], 'impl': lines[j[0]:j[0] + 5] if j else lines[:12]})
            return
        lines = fns.get(f'ret{n}', [])
        j = [x for x in range(len(lines)) if re.fullmatch(r'mov (-?\d+)\(%rbp\), %rdi', lines[x])]
        # the hidden pointer is the first parameter: its slot is read back by copy_struct_mem (last match)
        if not j:
            corr.disagreements.append({'kind': 'copy_struct_mem text', 'input': f'struct of {n} bytes returned by value', 'impl': lines[-8:]})
            return
        off = int(re.fullmatch(r'mov (-?\d+)\(%rbp\), %rdi', lines[j[-1]]).group(1))
        want = ctx.driver('retseq', f'{off} {n}\n').splitlines()[0].split(' | ')
        rest = lines[j[-1] + len(want):]
        if lines[j[-1]:j[-1] + len(want)] != want or rest not in ([], [f'jmp .L.return.ret{n}']):
            corr.disagreements.append({'kind': 'copy_struct_mem text', 'input': f'struct of {n} bytes returned by value', 'model_tail': want[-4:], 'impl_tail': lines[-4:],
                                       'model_len': len(want), 'impl_len': len(lines) - j[-1]})
            return
    for n, ml in zip(sizes, sm):
        corr.evaluations += 1
        corr.count('structseq')
        if n:
            corr.nontrivial.add(f'structseq:{n}')
        lines = fns.get(f'cp{n}', [])
        want = ml.split(' | ')
        if lines[-len(want):] != want:
            corr.disagreements.append({'kind': 'struct store loop text', 'input': f'struct of {n} bytes, *d = *s', 'model_tail': want[-4:], 'impl_tail': lines[-4:],
                                       'model_len': len(want), 'impl_len': len(lines)})
            return

CPU_FN = ('seq_{n}:\n  push %rbx\n  push %r12\n  mov %rdx, %rbx\n  push %rdi\n  mov %rsp, %r12\n  mov %rsi, %rax\n{body}'
          '  mov %rax, 0(%rbx)\n  mov %rsp, %r11\n  sub %r12, %r11\n  mov %r11, 16(%rbx)\n{tail}  pop %r12\n  pop %rbx\n  ret\n')

def leg_x86cpu(ctx, corr):
    """Model/X86 (`X86.run`, what the machine-level theorems are about) against the host CPU on the model's own sequences"""
    rng = ctx.rng
    triples = bf_triples(ctx)
    if not ctx.thorough:
        keepn = 260
        triples = sorted(set(rng.sample(triples, min(len(triples), keepn)) + [t for t in triples if t[1] in (1, 8 * BF_TYPES[t[0]][1]) or t[2] == 0][:140]))
    seqs = ctx.driver('bfseq', ''.join(f'{t} {w} {o}\n' for t, w, o in triples)).splitlines()
    bools = ctx.driver('boolseq', '0\n1\n').splitlines()
    csizes = [0, 1, 2, 3, 5, 8, 13, 16, 31] + ([40, 64, 129] if ctx.thorough else [])
    cseqs = ctx.driver('structseq', ''.join(f'{n}\n' for n in csizes)).splitlines()
    if len(seqs) != len(triples) or len(bools) != 2 or len(cseqs) != len(csizes):
        corr.disagreements.append({'kind': 'x86cpu', 'note': 'driver answered a wrong number of lines'})
        return
    asm = '  .text\n'
    nfn = 0
    def body(text):
        return ''.join('  ' + l + '\n' for l in text.split(' | ') if l)
    for (t, w, o), sl in zip(triples, seqs):
        ml, ma = sl.split(' ## ')
        asm += CPU_FN.format(n=nfn, body=body(ma[3:]), tail='  mov %rdi, %rax\n' + body(ml[3:]) + '  mov %rax, 8(%rbx)\n')
        nfn += 1
    bool_base = nfn
    for bl in bools:
        asm += CPU_FN.format(n=nfn, body=body(bl), tail='')
        nfn += 1
    copy_base = nfn
    for cl in cseqs:
        asm += CPU_FN.format(n=nfn, body=body(cl), tail='')
        nfn += 1
    push_base = nfn
    pseqs = ctx.driver('pushseq', ''.join(f'{n}\n' for n in csizes)).splitlines()
    for pl in pseqs:
        # %rdi = the value %rsp has before the sequence (inside the buffer), %rsi = source
        asm += (f'seq_{nfn}:\n  push %rbx\n  push %r12\n  mov %rdx, %rbx\n  mov %rsp, %r12\n  mov %rdi, %rsp\n  mov %rsi, %rax\n' + body(pl) +
                '  mov %rax, 0(%rbx)\n  mov %rsp, %r11\n  mov %r11, 16(%rbx)\n  mov %r12, %rsp\n  pop %r12\n  pop %rbx\n  ret\n')
        nfn += 1
    ret_base = nfn
    rseqs = ctx.driver('retseq', ''.join(f'-8 {n}\n' for n in csizes)).splitlines()
    for rl in rseqs:
        asm += (f'seq_{nfn}:\n  push %rbp\n  mov %rsp, %rbp\n  push %rdi\n  push %rbx\n  mov %rdx, %rbx\n  mov %rsi, %rax\n' + body(rl) +
                '  mov %rax, 0(%rbx)\n  pop %rbx\n  add $8, %rsp\n  pop %rbp\n  ret\n')
        nfn += 1
    asm += '  .data\n  .globl seq_table\nseq_table:\n' + ''.join(f'  .quad seq_{n}\n' for n in range(nfn))
    asm += f'  .globl seq_count\nseq_count:\n  .quad {nfn}\n  .section .note.GNU-stack,"",@progbits\n'
    spath = write(ctx, 'c04seqs.s', asm)
    exe = os.path.join(ctx.scratch, 'c04x86h')
    rc, o, e = sh(['gcc', '-O1', '-o', exe, os.path.join(VERIF, 'tools/harness/c04_x86_harness.c'), spath], timeout=300)
    if rc != 0:
        corr.disagreements.append({'kind': 'x86cpu', 'note': 'the model\'s sequences do not assemble: ' + e[-600:]})
        return
    def rbuf(n=24):
        r = rng.random()
        if r < 0.3:
            return bytes([rng.choice([0x00, 0xff, 0xa5, 0x5a])]) * n
        return bytes(rng.getrandbits(8) for _ in range(n))
    cpu_in, ops = [], {'x86bf': [], 'x86bool': [], 'x86copy': [], 'x86push': [], 'x86ret': []}
    order = []
    per = 3 if not ctx.thorough else 8
    for n, (t, w, o) in enumerate(triples):
        for _ in range(per):
            b = rbuf().hex()
            v = rand_value(rng, w) & MASK64
            cpu_in.append(f'b {n} {b} {v:x}\n')
            ops['x86bf'].append(f'{t} {w} {o} {b} {v:x}\n')
            order.append(('x86bf', f'{BF_TYPES[t][0]} f:{w} at bit {o}, buffer {b}, value {v:#x}'))
    for sm in (0, 1):
        for v in [0, 1, 2, 0x80, 0x100, 0xff00, 0x10000, 0x80000000, 0xffffffff, 0x100000000, 0xffffffff00000000, 0x8000000000000000, MASK64] + \
                 [rng.getrandbits(64) for _ in range(12 if not ctx.thorough else 200)]:
            b = rbuf().hex()
            cpu_in.append(f'o {bool_base + sm} {b} {v:x}\n')
            ops['x86bool'].append(f'{sm} {b} {v:x}\n')
            order.append(('x86bool', f'small={sm}, value {v:#x}'))
    for k, n in enumerate(csizes):
        L = 2 * n + 40
        places = [(0, n + 8), (n + 8, 0), (4, 4), (3, 5), (5, 3)] + [(rng.randrange(0, L - n + 1), rng.randrange(0, L - n + 1)) for _ in range(4 if not ctx.thorough else 30)]
        for d, sr in places:
            b = rbuf(L).hex()
            cpu_in.append(f'c {copy_base + k} {d} {sr} {b}\n')
            ops['x86copy'].append(f'{n} {d} {sr} {b}\n')
            order.append(('x86copy', f'size {n}, dst +{d}, src +{sr}'))
            b = rbuf(L).hex()
            n8 = align_to(n, 8)
            if d + n8 <= L:
                cpu_in.append(f'p {push_base + k} {d + n8} {sr} {b}\n')
                ops['x86push'].append(f'{n} {d} {sr} {b}\n')
                order.append(('x86push', f'size {n}, copy lands at +{d}, src +{sr}'))
            b = rbuf(L).hex()
            cpu_in.append(f'r {ret_base + k} {d} {sr} {b}\n')
            ops['x86ret'].append(f'{n} {d} {sr} {b}\n')
            order.append(('x86ret', f'size {n}, dst +{d}, src +{sr}'))
    rc, cpu, e = sh([exe], input=''.join(cpu_in), timeout=900)
    cpu = cpu.splitlines()
    model = {k: ctx.driver(k, ''.join(v)).splitlines() for k, v in ops.items()}
    if rc != 0 or len(cpu) != len(order) or any(len(model[k]) != len(ops[k]) for k in ops):
        corr.disagreements.append({'kind': 'x86cpu', 'note': f'harness rc={rc}, {len(cpu)} cpu lines for {len(order)} cases; model lines '
                                   + str({k: len(v) for k, v in model.items()}) + ' ' + e[-200:]})
        return
    idx = {k: 0 for k in ops}
    for (kind, what), hw in zip(order, cpu):
        md = model[kind][idx[kind]]
        idx[kind] += 1
        corr.evaluations += 1
        corr.count('cpu-' + kind)
        corr.nontrivial.add('cpu:' + hashlib.sha1((kind + what).encode()).hexdigest())
        if md != hw:
            corr.disagreements.append({'kind': 'Model/X86 run of the model\'s sequence vs the host CPU', 'sequence': kind, 'case': what, 'cpu': hw, 'model': md})
            return
    corr.extra['x86_sequences_run_on_cpu'] = nfn
    corr.sample({'x86-cpu': {'case': order[0][1], 'cpu_and_model': cpu[0]}})

# ------------------------------------------------------------------ leg G: stores to _Bool lvalues (behaviour)

def leg_boolstore(ctx, corr, ncases, tagbase='bst', collect=None, tie=True):
    rng = ctx.rng
    viol = []
    per = 60
    vals_int = ['0', '1', '2', '-1', '255', '256', '0x100', '0x8000', '65536', '0x7fffffff', '(-0x7fffffff - 1)', '0x80', '128', '-128']
    vals_long = vals_int + ['0x100000000L', '0xffffffff00000000UL', '0x8000000000000000UL', '(1L << 40)', '-4294967296L']
    progs = []
    for pi in range(0, ncases, per):
        src = ['#include <stdio.h>', '#include <string.h>',
               'static void dump(const char *k, void *p, int n) { unsigned char *b = p; printf("%s img=", k); for (int i = 0; i < n; i++) printf("%02x", b[i]); printf("\\n"); }',
               'struct SB { char a; _Bool b; short c; _Bool d[3]; union { _Bool u; int w; }; struct { _Bool x; } in; };',
               'struct SB gsb[2]; _Bool gb;']
        body, cases = [], []
        for ci in range(pi, min(ncases, pi + per)):
            t, sz = rng.choice(BOOL_SRC[:-1] + [('float', 4), ('double', 8), ('long double', 16)])
            if t == 'char *':
                v = rng.choice(['(char *)0', '(char *)&gb', '(char *)0x100000000UL'])
            elif t in ('float', 'double', 'long double'):
                v = rng.choice(['0.0', '-0.0', '0.5', '1.0', '-2.5', '1e-30', '256.0'])
            else:
                v = rng.choice(vals_long if sz == 8 else vals_int)
            form = rng.choice(['ptr', 'member', 'arrow', 'array', 'union', 'nested', 'global', 'complit', 'local'])
            pat = rng.choice([0x00, 0xff, 0xa5, 0x02])
            k = f'c{ci}'
            pre = f'struct SB s, *p = &s; memset(&s, {pat}, sizeof s); {t} v = ({t}){v};'
            if form == 'ptr':
                lv, obj, szx = '*q', '&s', 'sizeof s'
                pre += ' _Bool *q = &s.d[1];'
            elif form == 'member':
                lv, obj, szx = 's.b', '&s', 'sizeof s'
            elif form == 'arrow':
                lv, obj, szx = 'p->b', '&s', 'sizeof s'
            elif form == 'array':
                lv, obj, szx = f'p->d[{rng.randrange(3)}]', '&s', 'sizeof s'
            elif form == 'union':
                lv, obj, szx = 's.u', '&s', 'sizeof s'
            elif form == 'nested':
                lv, obj, szx = 'p->in.x', '&s', 'sizeof s'
            elif form == 'global':
                pre += f' memset(gsb, {pat}, sizeof gsb);'
                lv, obj, szx = 'gsb[1].b', 'gsb', 'sizeof gsb'
            elif form == 'complit':
                pre += f' _Bool *q = &(_Bool){{0}}; memset(q, {pat}, 1);'
                lv, obj, szx = '*q', 'q', '1'
            else:
                pre += f' _Bool lb; memset(&lb, {pat}, 1);'
                lv, obj, szx = 'lb', '&lb', '1'
            body.append(f'  {{ {pre} int r = ({lv} = v); dump("{k}", {obj}, {szx}); printf("{k} r=%d rb=%d\\n", r, (int){lv}); }}')
            cases.append({'k': k, 'type': t, 'value': v, 'form': form, 'pattern': pat, 'lvalue': lv,
                          'mini': '\n'.join(src) + '\nint main(void) {\n' + body[-1] + '\n  return 0;\n}\n'})
        src.append('int main(void) {')
        src += body
        src.append('  return 0;\n}')
        progs.append(('\n'.join(src) + '\n', cases))
    results = list(POOL.map(lambda a: both(ctx, a[1][0], f'{tagbase}{a[0]}'), enumerate(progs)))
    for (src, cases), ((gok, gout), (cok, cout)) in zip(progs, results):
        if not gok:
            raise RuntimeError('gcc rejects a generated _Bool program: ' + str(gout)[-400:])
        if not cok:
            v = {'what': 'chibicc fails on a _Bool store program gcc accepts and runs', 'input': src, 'expected': 'same output as gcc', 'got': cout}
            corr.violations.append(v); viol.append(v)
            continue
        gd, cd = {}, {}
        for l in gout:
            gd.setdefault(l.split()[0], []).append(l)
        for l in cout:
            cd.setdefault(l.split()[0], []).append(l)
        for c in cases:
            corr.evaluations += 1
            corr.count('bool-' + c['form'])
            corr.nontrivial.add(f"bool:{c['type']}:{c['value']}:{c['form']}:{c['pattern']}")
            g, ch = gd.get(c['k'], []), cd.get(c['k'], [])
            if g != ch:
                v = {'what': 'store to a _Bool lvalue: stored byte is not 0/1 as gcc stores it, a neighbour changed, or the value of the assignment differs',
                     'input': {'statement': f"{c['type']} v = {c['value']}; r = ({c['lvalue']} = v);", 'object filled with': c['pattern'], 'access': c['form']},
                     'expected': g, 'got': ch, 'program': c['mini']}
                corr.violations.append(v); viol.append(v)
                if collect is None:
                    return viol
    return viol

# ------------------------------------------------------------------ leg H: chains  a.b[i].c->d  through pointers, unions, anonymous members, flexible arrays

INT_LEAF = ['char', 'unsigned char', 'short', 'unsigned short', 'int', 'unsigned', 'long', 'unsigned long', '_Bool']

def gen_level(rng, nm, lower, tagp, allow_flex):
    """a struct/union whose members may use the aggregates in `lower` (by value, as arrays, through pointers)"""
    kind = 'struct' if rng.random() < 0.8 else 'union'
    mems = []
    def member():
        r = rng.random()
        if r < 0.25 or not lower:
            t = ('prim', rng.choice(INT_LEAF))
            if rng.random() < 0.3:
                t = ('arr', t, rng.randrange(1, 5))
            return t
        sub = rng.choice(lower)
        r = rng.random()
        if r < 0.3:
            return sub
        if r < 0.55:
            return ('arr', sub, rng.randrange(1, 4))
        return ('ptr', sub)
    for _ in range(rng.randrange(2, 6)):
        if rng.random() < 0.2:
            inner_kind = rng.choice(['struct', 'union'])
            inner = [{'name': nm.fresh(), 'ty': member(), 'bits': None} for _ in range(rng.randrange(1, 4))]
            mems.append({'name': None, 'ty': (inner_kind, '', inner), 'bits': None})
        else:
            mems.append({'name': nm.fresh(), 'ty': member(), 'bits': None})
    flex = None
    if allow_flex and kind == 'struct' and rng.random() < 0.5:
        flex = {'name': nm.fresh('fx'), 'ty': ('arr', ('prim', rng.choice(['char', 'int', 'long', 'short'])), 0), 'bits': None}
        mems.append(flex)
    return (kind, tagp, mems), flex is not None

def find_member(t, name, base=0):
    """(offset, type) of the member `name` designates, descending into anonymous aggregates in declaration order"""
    _, _, pl = layout(t)
    for m, (off, bo, bw) in zip(t[2], pl):
        if m['name'] == name:
            return base + off, m['ty']
        if m['name'] is None and m.get('bits') is None:
            r = find_member(m['ty'], name, base + off)
            if r:
                return r
    return None

def has_flex(t):
    return t[0] in ('struct', 'union') and any(m['ty'][0] == 'arr' and m['ty'][2] == 0 for m in t[2])

INDEX_TYPES = ['int', 'unsigned', 'long', 'unsigned long', 'short', 'unsigned short', 'signed char', 'unsigned char', '_Bool']

def index_spelling(rng, base, i, n):
    """the element `base[i]` of an array / pointed-to run of n elements (n = 0: unknown), spelled through pointer arithmetic with
    an index or a subtracted offset of every integer type: the same lvalue, so the same bytes (C11 6.5.2.1p2, 6.5.6p8)"""
    r = rng.random()
    if r < 0.55:
        return f'{base}[{i}]'
    T = rng.choice(INDEX_TYPES)
    if r < 0.7:
        if T == '_Bool' and i > 1:
            T = 'unsigned'
        return f'(*({base} + ({T}){i}))' if rng.random() < 0.5 else f'(*(({T}){i} + {base}))'
    # &base[i + d] - (T)d : stays inside the array or one past its end
    room = (n - i) if n else 0
    if room < 1:
        return f'{base}[{i}]'
    d = rng.randrange(1, min(room, 3) + 1)
    if T == '_Bool':
        d = 1
    return f'(*(&{base}[{i + d}] - ({T}){d}))'

def gen_chain_case(rng, ci):
    nm = Namer(ci)
    l2, _ = gen_level(rng, nm, [], f'C{ci}_2', True)
    l2b, _ = gen_level(rng, nm, [], f'C{ci}_2b', False)
    l1, _ = gen_level(rng, nm, [l2, l2b], f'C{ci}_1', False)
    l0, _ = gen_level(rng, nm, [l1, l2b], f'C{ci}_0', False)
    # flexible-array structs may only be used through pointers (not as members / array elements)
    def uses_flex_by_value(t):
        for m in t[2]:
            x = m['ty']
            while x[0] == 'arr':
                x = x[1]
            if x[0] in ('struct', 'union'):
                if has_flex(x) or uses_flex_by_value(x):
                    return True
        return False
    if uses_flex_by_value(l1) or uses_flex_by_value(l0):
        return None
    decls = [agg_body(x) + ';' for x in (l2, l2b, l1, l0)]
    ROOT = 1000000
    cur_ty, cur_addr, expr = l0, ROOT, 'root'
    obj, obj_base, obj_size = 0, ROOT, size_align(l0)[0]        # object index the current address lies in
    targets, setup, env, steps = [], [], [], []
    in_range = True
    for _ in range(14):
        k = cur_ty[0]
        if k == 'prim':
            break
        if k == 'arr':
            if cur_ty[2] == 0:
                i = rng.randrange(0, 4)          # flexible array member: storage follows the struct
                in_range = False
            else:
                i = rng.randrange(cur_ty[2])
            steps.append(f'[{i}]')
            expr = index_spelling(rng, expr, i, cur_ty[2])
            cur_addr += i * size_align(cur_ty[1])[0]
            cur_ty = cur_ty[1]
            continue
        if k == 'ptr':
            pointee = cur_ty[1]
            tb = 3000000 + 1000000 * len(targets)
            psz = size_align(pointee)[0]
            ti = len(targets) + 1
            if has_flex(pointee):
                n = 1
                targets.append((f'union {{ {decl(pointee, "f")}; char raw[{psz + 64}]; }} tgt{ti};', f'tgt{ti}', psz + 64))
                setup.append(f'{expr} = &tgt{ti}.f;')
            else:
                n = rng.randrange(1, 4)
                targets.append((decl(pointee, f'tgt{ti}[{n}]') + ';', f'tgt{ti}', n * psz))
                setup.append(f'{expr} = tgt{ti};')
            env.append((cur_addr, tb))
            obj, obj_base, obj_size = ti, tb, targets[-1][2]
            if pointee[0] in ('struct', 'union') and rng.random() < 0.6:
                ms = named_members(pointee)
                fx = [m for m in ms if m['ty'][0] == 'arr' and m['ty'][2] == 0]
                deep = [m for m in ms if m['ty'][0] != 'prim']
                m = rng.choice(fx) if fx and rng.random() < 0.6 else rng.choice(deep) if deep and rng.random() < 0.6 else rng.choice(ms)
                steps.append('>' + m['name'])
                expr += '->' + m['name']
                off, ty = find_member(pointee, m['name'])
                cur_addr, cur_ty = tb + off, ty
            else:
                i = rng.randrange(n)
                steps.append(f'[{i}]')
                expr = index_spelling(rng, expr, i, n)
                cur_addr, cur_ty = tb + i * psz, pointee
            continue
        ms = [m for m in named_members(cur_ty) if m.get('bits') is None]
        if not ms:
            return None
        deep = [m for m in ms if m['ty'][0] != 'prim']
        m = rng.choice(deep) if deep and rng.random() < 0.75 else rng.choice(ms)
        steps.append('.' + m['name'])
        expr += '.' + m['name']
        off, ty = find_member(cur_ty, m['name'])
        cur_addr, cur_ty = cur_addr + off, ty
    else:
        return None
    if cur_ty[0] != 'prim' or not steps:
        return None
    leaf = cur_ty[1]
    lsz = SCALARS[leaf][0]
    val = '1' if leaf == '_Bool' else f'({leaf})0xdadadadadadadadaUL'
    return {'decls': decls, 'root_ty': l0, 'targets': targets, 'setup': setup, 'env': env, 'steps': steps, 'expr': expr, 'leaf': leaf,
            'addr': cur_addr, 'size': lsz, 'obj': obj, 'obj_base': obj_base, 'obj_size': obj_size, 'in_range': in_range, 'value': val,
            'ser': ser_ty(l0)}

def leg_chains(ctx, corr, ncases, tagbase='chn', collect=None, tie=True):
    rng = ctx.rng
    viol = []
    per = 20
    progs = []
    hdr = ['#include <stdio.h>', '#include <string.h>',
           'static void diff(const char *k, int obj, const void *a, const void *b, int n) { const unsigned char *x = a, *y = b; int lo = -1;',
           '  for (int i = 0; i <= n; i++) { int ch = i < n && x[i] != y[i]; if (ch && lo < 0) lo = i; if (!ch && lo >= 0) { printf("%s changed %d:%d-%d\\n", k, obj, lo, i); lo = -1; } } }']
    for pi in range(0, ncases, per):
        src = list(hdr)
        calls, cases = [], []
        for ci in range(pi, min(ncases, pi + per)):
            c = None
            want_flex = rng.random() < 0.12
            for att in range(60):
                c = gen_chain_case(rng, ci)
                if c and size_align(c['root_ty'])[0] <= 4000 and (att >= 45 or want_flex == (not c['in_range'])):
                    break
                c = None
            if c is None:
                continue
            k = f'c{ci}'
            c['k'] = k
            objs = [('root', 'sizeof root')] + [(t[1], f'sizeof {t[1]}') for t in c['targets']]
            stor = rng.choice(['static ', ''])
            fn = c['decls'] + [f'static void case{ci}(void) {{', f'  {stor}{decl(c["root_ty"], "root")};'] + [f'  {stor}' + t[0] for t in c['targets']]
            fn += [f'  static unsigned char sv{j}[{sz}];' for j, (n, sz) in enumerate(objs)]
            fn += [f'  memset(&{n}, 0xa5, {sz});' for n, sz in objs]
            fn += ['  ' + st for st in c['setup']]
            fn += [f'  memcpy(sv{j}, &{n}, {sz});' for j, (n, sz) in enumerate(objs)]
            on = objs[c['obj']][0]
            fn += [f'  printf("{k} off=%ld size=%lu\\n", (long)((char *)&({c["expr"]}) - (char *)&{on}), (unsigned long)sizeof({c["expr"]}));',
                   f'  {c["expr"]} = {c["value"]};']
            fn += [f'  diff("{k}", {j}, sv{j}, &{n}, {sz});' for j, (n, sz) in enumerate(objs)]
            fn += [f'  printf("{k} rb=%ld\\n", (long)({c["expr"]}));', '}']
            c['mini'] = '\n'.join(hdr + fn) + f'\nint main(void) {{ case{ci}(); return 0; }}\n'
            src += fn
            calls.append(f'case{ci}();')
            cases.append(c)
        src.append('int main(void) { ' + ' '.join(calls) + ' return 0; }')
        progs.append(('\n'.join(src) + '\n', cases))
    results = list(POOL.map(lambda a: both(ctx, a[1][0], f'{tagbase}{a[0]}'), enumerate(progs)))
    allc = [c for _, cs in progs for c in cs]
    model = ctx.driver('pathb', ''.join(f"{c['ser']} | {' '.join(c['steps'])} | {' '.join(f'{a}={v}' for a, v in c['env'])}\n" for c in allc)).splitlines() if tie and allc else []
    pred = {id(c): l for c, l in zip(allc, model)}
    for (src, cases), ((gok, gout), (cok, cout)) in zip(progs, results):
        if not gok:
            raise RuntimeError('gcc rejects a generated chain program: ' + str(gout)[-600:])
        if not cok:
            v = {'what': 'chibicc fails on a member-chain program gcc accepts and runs', 'input': src, 'expected': 'same output as gcc', 'got': cout}
            corr.violations.append(v); viol.append(v)
            continue
        gd, cd = {}, {}
        for l in gout:
            gd.setdefault(l.split()[0], []).append(l)
        for l in cout:
            cd.setdefault(l.split()[0], []).append(l)
        for c in cases:
            corr.evaluations += 1
            nptr = len(c['env'])
            corr.count(f'chain-ptr{min(nptr, 3)}' + ('' if c['in_range'] else '-flex'))
            corr.nontrivial.add('chain:' + hashlib.sha1((c['ser'] + ' '.join(c['steps'])).encode()).hexdigest())
            g, ch = gd.get(c['k'], []), cd.get(c['k'], [])
            rel = c['addr'] - c['obj_base']
            want = [f"{c['k']} off={rel} size={c['size']}", f"{c['k']} changed {c['obj']}:{rel}-{rel + c['size']}"]
            if g[:2] != want:
                # the generator's own expectation (python layout) against gcc: a generator / spec problem, not chibicc's
                corr.disagreements.append({'kind': 'chain generator vs gcc', 'case': {x: c[x] for x in ('expr', 'steps', 'env', 'addr', 'obj')}, 'gcc': g, 'expected': want, 'program': c['mini']})
                return viol
            if g != ch:
                v = {'what': 'store through a chain of member / index / pointer steps: designated offset, size, changed bytes or read-back differ from gcc',
                     'input': {'lvalue': c['expr'], 'value': c['value'], 'pointer_steps': nptr}, 'expected': g, 'got': ch, 'program': c['mini']}
                corr.violations.append(v); viol.append(v)
                if collect is None:
                    return viol
                continue
            if not tie:
                continue
            ml = pred.get(id(c), '')
            m = re.fullmatch(r'addr=(-?\d+) spec=(-?\d+) size=(\d+) ok=([01]) encl=(-?\d+):(\d+) in=([01]) sum=(\S+) fits=([01]) wf=([01])', ml)
            if not m:
                corr.disagreements.append({'kind': 'path model rejects a chain both compilers accept', 'case': c['expr'], 'type': c['ser'], 'steps': c['steps'], 'model': ml})
                return viol
            addr, spec, msz, ok, eb, es, inside, ssum, fits, wf = m.groups()
            eb, es = int(eb), int(es)
            problems = []
            if int(spec) != c['addr'] or int(msz) != c['size']:
                problems.append('spec (designate) differs from the executed programs')
            if int(addr) != c['addr']:
                problems.append('gen_addr model differs from the executed programs')
            if fits != '1' or wf != '1':
                problems.append('generated type violates fits / allWf')
            if (ok == '1') != c['in_range']:
                problems.append('pathOk differs from the generator\'s notion of in-range')
            if c['in_range'] and (inside != '1' or not (c['obj_base'] <= eb and eb + es <= c['obj_base'] + c['obj_size'])):
                problems.append('designated object / enclosing object not inside the object the program allocated')
            if nptr == 0 and c['in_range'] and (ssum != str(c['addr']) or (eb, es) != (1000000, size_align(c['root_ty'])[0])):
                problems.append('offset sum / enclosing object of a pointer-free path')
            if nptr > 0 and ssum != 'none':
                problems.append('offsetTerms defined for a path through a pointer')
            if problems:
                corr.disagreements.append({'kind': 'lvalue chain model vs executed program', 'problems': problems, 'lvalue': c['expr'], 'type': c['ser'],
                                           'steps': c['steps'], 'env': c['env'], 'model': ml, 'program_offset': rel, 'object': c['obj'], 'program': c['mini']})
                return viol
    if allc:
        corr.sample({'chain': {'lvalue': allc[-1]['expr'], 'pointer_steps': len(allc[-1]['env']), 'model': model[-1] if model else None}})
    return viol

# ------------------------------------------------------------------ leg I: parameter objects (stack-passed parameters of every alignment after odd / even slots)

PARAM_KINDS = [
    # (C type, size, align, class: 'gp' | 'fp' | 'mem' | ('regs', [classes of the eightbytes]), struct definition or None)
    ('char', 1, 1, 'gp', None), ('short', 2, 2, 'gp', None), ('int', 4, 4, 'gp', None), ('long', 8, 8, 'gp', None), ('unsigned char', 1, 1, 'gp', None),
    ('char *', 8, 8, 'gp', None), ('float', 4, 4, 'fp', None), ('double', 8, 8, 'fp', None), ('long double', 16, 16, 'mem', None),
    ('struct PA', 16, 8, ('regs', ['gp', 'gp']), 'struct PA { long a; long b; };'),
    ('struct PB', 16, 8, ('regs', ['fp', 'fp']), 'struct PB { double x; double y; };'),
    ('struct PC', 16, 8, ('regs', ['fp', 'gp']), 'struct PC { double d; long l; };'),
    ('struct PD', 8, 4, ('regs', ['gp']), 'struct PD { int a; int b; };'),
    ('struct PE', 3, 1, ('regs', ['gp']), 'struct PE { char c[3]; };'),
    ('struct PF', 12, 4, ('regs', ['gp', 'gp']), 'struct PF { int a; int b; int c; };'),
    ('struct PG', 17, 1, 'mem', 'struct PG { char c[17]; };'),
    ('struct PH', 24, 8, 'mem', 'struct PH { long a[3]; };'),
    ('struct PI', 20, 4, 'mem', 'struct PI { int a[5]; };'),
    ('struct PJ', 32, 16, 'mem', 'struct PJ { _Alignas(16) long a; long b; long c; long d; };'),
    ('struct PK', 40, 8, 'mem', 'struct PK { char c[33]; short s; int i; };'),
]

def gen_param_fn(rng, idx):
    """a function whose parameter list pushes parameters of every alignment into the stack argument area after odd and even
    numbers of 8-byte slots.  Returns (prototype, definition, call, in_c06_region, n_stack)"""
    n = rng.choice([3, 5, 7, 8, 9, 10, 11, 12, 14])
    params = []
    # bias: first fill one register class, so that later parameters of that class go to the stack
    fill = rng.choice(['gp', 'fp', 'mix', 'mem'])
    for i in range(n):
        r = rng.random()
        if fill == 'gp' and i < 7 and r < 0.8:
            k = rng.choice([x for x in PARAM_KINDS if x[3] == 'gp'])
        elif fill == 'fp' and i < 9 and r < 0.8:
            k = rng.choice([x for x in PARAM_KINDS if x[3] == 'fp'])
        elif fill == 'mem' and r < 0.5:
            k = rng.choice([x for x in PARAM_KINDS if x[3] == 'mem'])
        else:
            k = rng.choice(PARAM_KINDS)
        params.append(k)
    gp = fp = 0
    slots = 0                  # 8-byte slots of the stack argument area used so far (chibicc packs; the psABI additionally aligns)
    region = False
    nstack = 0
    for (t, sz, al, cls, _) in params:
        on_stack = False
        if cls == 'gp':
            if gp < 6: gp += 1
            else: on_stack = True
        elif cls == 'fp':
            if fp < 8: fp += 1
            else: on_stack = True
        elif cls == 'mem':
            on_stack = True
        else:
            need_gp, need_fp = cls[1].count('gp'), cls[1].count('fp')
            if gp + need_gp <= 6 and fp + need_fp <= 8:
                gp += need_gp; fp += need_fp
            else:
                on_stack = True
        if on_stack:
            nstack += 1
            if al == 16 and slots % 2 == 1:
                region = True          # known finding C06-ldouble-stack-align: callers of other compilers put it 8 bytes higher
            slots += (sz + 7) // 8
    names = [f'p{i}' for i in range(n)]
    proto = f'void pf{idx}({", ".join(t + " " + nm for (t, *_), nm in zip(params, names))})'
    def val(k, i, salt):
        t, sz, al, cls, sd = k
        v = (idx * 131 + i * 17 + salt * 7) % 97 + 1
        if sd is not None:
            return f'mk_{t.split()[1]}({v})'
        if t == 'char *':
            return f'(char *)(unsigned long){v * 1000 + 7}'
        if t in ('float', 'double'):
            return f'{v}.5'
        if t == 'long double':
            return f'{v}.25L'
        return str(v)
    body = []
    def dumps(tag):
        for (t, sz, *_), nm in zip(params, names):
            body.append(f'  pdump("pf{idx} {tag} {nm}", &{nm}, {10 if t == "long double" else sz});')
    dumps('in')
    # store through every parameter lvalue in turn; the others must keep their bytes
    order = list(range(n))
    rng.shuffle(order)
    for i in order[:4]:
        body.append(f'  {names[i]} = {val(params[i], i, 1)};')
    dumps('st')
    definition = proto + ' {\n' + '\n'.join(body) + '\n}\n'
    call = f'pf{idx}({", ".join(val(k, i, 0) for i, k in enumerate(params))});'
    return proto + ';', definition, call, region, nstack, ', '.join(k[0] for k in params)

def leg_params(ctx, corr, nfn, tagbase='prm', collect=None, tie=True):
    rng = ctx.rng
    viol = []
    per = 25
    sdefs = [k[4] for k in PARAM_KINDS if k[4]]
    mk = ''.join(f'static {k[0]} mk_{k[0].split()[1]}(int v) {{ {k[0]} r; memset(&r, v, sizeof r); ((char *)&r)[0] = v + 1; return r; }}\n' for k in PARAM_KINDS if k[4])
    hdr = ('#include <stdio.h>\n#include <string.h>\n' + '\n'.join(sdefs) + '\n'
           'void pdump(const char *k, const void *p, int n);\n')
    for base in range(0, nfn, per):
        fns = [gen_param_fn(rng, i) for i in range(base, min(nfn, base + per))]
        def program(sel):
            return (hdr + mk + ''.join(f[0] + '\n' for f in sel) +
                    '#ifdef CALLEE\nvoid pdump(const char *k, const void *p, int n) { const unsigned char *b = p; printf("%s ", k); for (int i = 0; i < n; i++) printf("%02x", b[i]); printf("\\n"); }\n' +
                    ''.join(f[1] for f in sel) + '#endif\n#ifdef CALLER\nint main(void) {\n' + ''.join('  ' + f[2] + '\n' for f in sel) + '  return 0;\n}\n#endif\n')
        src = program(fns)
        path = write(ctx, f'{tagbase}{base}.c', src)
        def build(tag, cc_caller, cc_callee, path=path):
            exe = os.path.join(ctx.scratch, f'{tagbase}{base}.{tag}.exe')
            def cmd(which, extra):
                return ([ctx.cc] if which == 'c' else ['gcc', '-std=gnu11', '-w', '-O0']) + extra
            if cc_caller == cc_callee:
                rc, o, e = sh(cmd(cc_caller, ['-DCALLER', '-DCALLEE', '-o', exe, path]), timeout=300)
                if rc != 0:
                    return False, 'compile: ' + (e or o)[-800:]
            else:
                o1, o2 = exe + '.caller.o', exe + '.callee.o'
                for which, d, out in ((cc_caller, '-DCALLER', o1), (cc_callee, '-DCALLEE', o2)):
                    rc, o, e = sh(cmd(which, ['-c', d, '-o', out, path]), timeout=300)
                    if rc != 0:
                        return False, f'compile {d}: ' + (e or o)[-800:]
                rc, o, e = sh(['gcc', '-o', exe, o1, o2], timeout=300)
                if rc != 0:
                    return False, 'link: ' + (e or o)[-800:]
            rc, o, e = sh([exe], timeout=120)
            if rc != 0:
                return False, f'run: rc={rc} ' + (e or o)[-300:]
            return True, o.splitlines()
        fg = POOL2.submit(build, 'gg', 'g', 'g')
        fc = POOL2.submit(build, 'cc', 'c', 'c')
        (gok, gout), (cok, cout) = fg.result(), fc.result()
        if not gok:
            raise RuntimeError('gcc rejects / fails a generated parameter program: ' + str(gout)[-400:])
        def by_fn(lines):
            d = {}
            for l in lines:
                d.setdefault(l.split()[0], []).append(l)
            return d
        def one(f, cc_caller, cc_callee):
            p1 = write(ctx, f'{tagbase}{base}_one.c', program([f]))
            return p1
        gd = by_fn(gout)
        cd = by_fn(cout) if cok else {}
        for f in fns:
            name = f[0].split('(')[0].split()[-1]
            corr.evaluations += 1
            corr.count('params-self' + ('-stack16odd' if f[3] else ''))
            if f[4]:
                corr.nontrivial.add('params:' + f[5])
            g, ch = gd.get(name, []), cd.get(name, [])
            if g != ch:
                diffl = [(a, b) for a, b in zip(g, ch) if a != b][:4]
                v = {'what': 'parameter objects: the bytes the callee reads through a parameter lvalue (or keeps after a store to another parameter) are not the '
                             'bytes the caller passed (caller and callee both compiled by chibicc; reference: gcc)',
                     'input': {'signature': f[0], 'call': f[2], 'stack_parameters': f[4]}, 'expected': [a for a, _ in diffl] or g[:4], 'got': [b for _, b in diffl] or (ch[:4] if cok else cout),
                     'program': '#define CALLER\n#define CALLEE\n' + program([f])}
                corr.violations.append(v); viol.append(v)
                if collect is None:
                    return viol
        # across compilers, outside the regions of the C06 known findings (a 16-aligned stack argument after an odd number of slots)
        elig = [f for f in fns if not f[3]]
        corr.count('skipped_known_c06_ldouble_stack_align', len(fns) - len(elig))
        if elig and cok:
            xsrc = program(elig)
            xpath = write(ctx, f'{tagbase}{base}x.c', xsrc)
            f1 = POOL2.submit(build, 'gc', 'g', 'c', xpath)
            f2 = POOL2.submit(build, 'cg', 'c', 'g', xpath)
            for tag, (ok, out) in (('gcc caller, chibicc callee', f1.result()), ('chibicc caller, gcc callee', f2.result())):
                xd = by_fn(out) if ok else {}
                for f in elig:
                    name = f[0].split('(')[0].split()[-1]
                    corr.evaluations += 1
                    corr.count('params-cross')
                    if gd.get(name, []) != xd.get(name, []):
                        g = gd.get(name, [])
                        diffl = [(a, b) for a, b in zip(g, xd.get(name, [])) if a != b][:4]
                        v = {'what': f'parameter objects across compilers ({tag}): the callee does not find the argument bytes where the caller put them',
                             'input': {'signature': f[0], 'call': f[2], 'stack_parameters': f[4]}, 'expected': [a for a, _ in diffl] or g[:4],
                             'got': [b for _, b in diffl] or (out if not ok else xd.get(name, [])[:4]), 'program': '#define CALLER\n#define CALLEE\n' + program([f])}
                        corr.violations.append(v); viol.append(v)
                        if collect is None:
                            return viol
                        break
    corr.sample({'params': {'signature': fns[-1][0], 'stack_parameters': fns[-1][4]}})
    return viol

# ------------------------------------------------------------------ corpus and known findings

def leg_corpus(ctx, corr):
    d = os.path.join(VERIF, 'corpus', 'C04')
    if not os.path.isdir(d):
        return
    for fn in sorted(os.listdir(d)):
        if not fn.endswith('.c'):
            continue
        src = open(os.path.join(d, fn)).read()
        (gok, gout), (cok, cout) = both(ctx, src, 'corpus_' + fn[:-2])
        corr.evaluations += 1
        corr.count('corpus')
        corr.nontrivial.add('corpus:' + fn)
        if not gok:
            raise RuntimeError(f'gcc rejects corpus program {fn}: {gout}')
        if not cok or gout != cout:
            corr.violations.append({'what': f'corpus program {fn} (a past failure) fails again', 'input': src, 'expected': gout, 'got': cout})

KNOWN_WITNESS = ('#include <stdio.h>\n#include <stdint.h>\n'
                 'int probe(int d) { _Alignas(32) char a; _Alignas(64) int b; int bad = ((uintptr_t)&a % 32 != 0) || ((uintptr_t)&b % 64 != 0);\n'
                 '  if (d) { volatile char pad[8]; pad[0] = 1; return bad | probe(d - 1); } return bad; }\n'
                 'int main(void) { printf("%d\\n", probe(3)); return 0; }\n')

def leg_known(ctx, corr):
    known = {f['id'] for f in load_known().get('findings', []) if f.get('property') == 'C04'}
    if 'C04-overaligned-auto' in known:
        ok, out = run_prog(ctx, KNOWN_WITNESS, 'known_overaligned', 'c')
        corr.evaluations += 1
        if ok and out == ['1'] and 'C04-overaligned-auto' not in corr.known_hits:
            corr.known_hits.append('C04-overaligned-auto')
    else:
        corr.count('skipped_extended_alignment')

# ------------------------------------------------------------------ entry points

def correspond(ctx, corr):
    T = ctx.thorough
    corr.rule = ('(a) text tie: emitted load/assign lines of bit-field accessors for (declared type, width, bit offset) triples against the model '
                 '(quick: boundary widths/offsets of every type + 350 random triples; thorough: all 5,568 triples); frame offsets of functions with '
                 'generated parameter/local lists against the model; (b) behaviour: generated programs fill an object with a byte pattern, store through '
                 'one lvalue (. -> nested anonymous [] pointer arithmetic compound literal global; bit-field or scalar leaf), dump every byte, read every '
                 'bit-field back and print the value of the assignment; whole-struct assignment, pass/return by value (padding masked), zero fill after '
                 'dirtying the stack; VLA/alloca functions with canaries in every block, allocations inside argument lists and inside operands with live '
                 'temporaries, nested calls between allocations, 2-D/3-D VLAs; run-time alignment and overlap probes of all live automatic objects. '
                 'chibicc output must equal gcc 12 output and the model prediction (unit bytes, designated address, block addresses). '
                 'non-trivial = field not filling its whole unit at offset 0 / a path of at least one step / a frame with more than two distinct offsets / '
                 'an allocation history; distinct by the canonical key of the case. (c) machine: the model\'s instruction lists run on the host CPU '
                 'against X86.run (bit-field triples x buffers x values, _Bool stores, overlapping and disjoint struct copies); text of _Bool stores, '
                 'struct store / push_struct / copy_struct_mem loops against chibicc -S; stores to _Bool lvalues of every form from every scalar type '
                 'against gcc; chains a.b[i].c->d through up to three pointers, unions, anonymous members and flexible array members: offset, size and '
                 'the exact set of changed bytes against gcc and the path model (designate, gen_addr, pathOk, enclosing object, offset sum); '
                 'parameter objects of functions with 3-14 parameters mixing register classes, long double, memory structs of alignment 1/4/8/16 '
                 'and small structs: bytes read through every parameter lvalue before and after stores to other parameters (chibicc/chibicc vs '
                 'gcc/gcc, and gcc/chibicc, chibicc/gcc outside the C06 long-double stack-alignment region).')
    t0 = time.time()
    def lap(name):
        nonlocal t0
        ctx.notes.append(f'{name}: {time.time() - t0:.1f}s')
        log(f'{name}: {time.time() - t0:.1f}s')
        t0 = time.time()
    leg_corpus(ctx, corr)
    lap('corpus')
    if corr.violations:
        return
    leg_bfseq(ctx, corr)
    lap('bfseq')
    if corr.disagreements:
        return
    leg_seqtext(ctx, corr)
    lap('seqtext')
    if corr.disagreements or corr.violations:
        return
    leg_x86cpu(ctx, corr)
    lap('x86cpu')
    if corr.disagreements:
        return
    leg_bf_behaviour(ctx, corr, 4000 if not T else 40000)
    lap('bf-behaviour')
    if corr.violations or corr.disagreements:
        return
    leg_aggregates(ctx, corr, 3000 if not T else 30000)
    lap('aggregates')
    if corr.violations or corr.disagreements:
        return
    leg_boolstore(ctx, corr, 2400 if not T else 24000)
    lap('boolstore')
    if corr.violations or corr.disagreements:
        return
    leg_chains(ctx, corr, 2400 if not T else 24000)
    lap('chains')
    if corr.violations or corr.disagreements:
        return
    leg_frames(ctx, corr, 900 if not T else 9000)
    lap('frames')
    if [v for v in corr.violations if not v.get('known_id')] or corr.disagreements:
        return
    leg_params(ctx, corr, 400 if not T else 4000)
    lap('params')
    if [v for v in corr.violations if not v.get('known_id')] or corr.disagreements:
        return
    leg_alloca(ctx, corr, 600 if not T else 6000)
    lap('alloca')
    leg_known(ctx, corr)
    corr.exhaustive = False
    corr.extra['exhaustive_subspace'] = ('all 5,568 (type, width, offset) bit-field triples (text tie)' if T else
                                         'boundary (type, width, offset) triples of all nine declared types + 350 random')

def search(ctx, broken, corr):
    """a proof / the translator / a tie broke and the standard run saw no violation: run the behavioural legs at larger size"""
    c2 = Corr()
    for leg, n in ((leg_bf_behaviour, 1500), (leg_aggregates, 1000), (leg_boolstore, 600), (leg_chains, 600), (leg_frames, 240), (leg_params, 300), (leg_alloca, 160)):
        try:
            v = leg(ctx, c2, n, tagbase='srch_' + leg.__name__[4:7], collect=[], tie=False)
        except Exception as e:
            ctx.notes.append(f'search leg {leg.__name__} raised {type(e).__name__}: {e}')
            continue
        v = [x for x in (v or []) if not x.get('known_id')]
        if v:
            return v[0]
    return None

def replay(ctx, corr, path):
    payload = json.load(open(path))
    src = payload.get('program') or (payload.get('input') if isinstance(payload.get('input'), str) else None)
    if not src or 'main' not in src:
        corr.extra['replay'] = 'replay file carries no complete program; re-run the check with its seed'
        print('replay: no program in the replay file')
        return
    (gok, gout), (cok, cout) = both(ctx, src, 'replay')
    corr.evaluations = 1
    same = gok and cok and gout == cout
    print('replay:', 'chibicc and gcc agree now' if same else 'still differs')
    if not same:
        corr.violations.append({'what': payload.get('what', 'replayed program differs'), 'input': src, 'expected': gout, 'got': cout})

MANIFEST = {
    'level_text': 'Lean 4 theorems, parametric (no enumeration): for every declared bit-field type, width 1..8*size and bit offset the emitted '
                  'store sequence followed by the emitted load sequence returns the sign-/zero-extended low bits of the value, the value left in rax is '
                  'that same value, and every other bit of the unit is unchanged (C04_bf_roundtrip, C04_bf_assign_value, C04_bf_neighbours); for every '
                  'list of locals/parameters assign_lvar_offsets yields pairwise disjoint, aligned slots inside [rbp-stack_size, rbp) resp. above rbp+16 '
                  '(C04_frame_disjoint); for every history of pushes/pops/allocas blocks are 16-aligned, pairwise disjoint, below the locals, above the '
                  'relocated temporaries whose bytes are preserved (C04_alloca, C04_alloca_step, C04_alloca_size, C04_alloca_contents); gen_addr of '
                  'every ./->/[] path incl. anonymous members and VLA elements is base + sum of offsets (C04_member_addr, C04_anonymous_member, '
                  'C04_vla_size), the designated sub-object of every in-range path lies inside the enclosing object and a pointer-free path adds '
                  'base + sum of member offsets + sum of index*size (C04_path_in_bounds, C04_path_offset_sum); with rbp = 0 mod 16 every automatic '
                  'object is aligned to min(align, 16), arrays >= 16 bytes and alloca/VLA blocks to 16 (C04_frame_aligned; sharp: Findings); struct '
                  'copies move byte i to byte i and ND_MEMZERO zeroes exactly its range (C04_copy, C04_memzero). Machine level (Props/C04Machine.lean): '
                  'X86.run of the regenerated instruction lists - load/store of every integer type at any address (C04_load_x86, C04_store_x86, '
                  'C04_scalar_roundtrip_x86), _Bool normalisation on store (C04_store_bool), the 13-instruction bit-field read-modify-write and the '
                  'load for every (type, width, offset) (C04_bf_assign_x86, C04_bf_load_x86, C04_bf_roundtrip_x86, C04_bf_neighbours_x86: every bit of '
                  'memory outside the field is unchanged), struct assignment / pass / return by value as emitted byte loops (C04_copy_x86, '
                  'C04_push_struct_x86, C04_copy_struct_mem_x86). The instruction lists and arithmetic the theorems talk about are regenerated from '
                  'codegen.c on every run and compared with chibicc -S line by line; Model/X86 is run against the host CPU on these lists; compiled '
                  'programs are run against gcc 12 and the model.',
    'level_note': 'Trusted: Lean kernel; the translator; Model/X86 (CPU-validated on the sequences used); the hand-written meaning of builtin_alloca '
                  '(jumps) and rep stosb, of struct_ref/gen_addr and of assign_lvar_offsets; layout offsets (C08) and stack-parameter classification '
                  '(C06) are inputs. The '
                  'behavioural legs are testing. Alignments above 16 on automatic objects are outside what the frame theorem gives (offsets are aligned '
                  'relative to rbp only).',
    'technique': 'Lean 4: bitwise extensionality over BitVec 64 (bit-fields), induction over variable lists / operation histories / lvalue paths '
                 'with invariants; translator-regenerated instruction lists; text tie with chibicc -S; differential execution against gcc 12',
    'design_ref': 'DESIGN.md section 6, C04',
}
