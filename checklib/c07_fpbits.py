from fractions import Fraction
FMT = {'f32': (24, 8), 'f64': (53, 11), 'f80': (64, 15)}

def round_frac(x, p, w):
    """round the non-negative Fraction x to nearest-even in the format (p significant bits, w exponent bits):
    returns (m, e) with value m*2^e, m < 2^p, or 'inf'"""
    if x == 0:
        return (0, 0)
    bias = (1 << (w - 1)) - 1
    emin_lsb = 1 - bias - (p - 1)
    # exponent of the leading bit
    n, d = x.numerator, x.denominator
    e = n.bit_length() - d.bit_length()
    if Fraction(1 << max(e, 0), 1 << max(-e, 0)) > x:
        e -= 1
    lsb = max(e - (p - 1), emin_lsb)
    q = x / Fraction(1 << max(lsb, 0), 1 << max(-lsb, 0))
    m = q.numerator // q.denominator
    r = q - m
    if r > Fraction(1, 2) or (r == Fraction(1, 2) and m % 2 == 1):
        m += 1
    if m == (1 << p):
        m >>= 1
        lsb += 1
    if m.bit_length() + lsb - 1 > bias:
        return 'inf'
    return (m, lsb)

def encode(m, e, fmt, neg=False):
    p, w = FMT[fmt]
    bias = (1 << (w - 1)) - 1
    t = p if fmt == 'f80' else p - 1
    s = (1 << (w + t)) if neg else 0
    if m == 0:
        return s
    if m.bit_length() < p:
        # subnormal (e == emin_lsb) or needs normalising
        emin_lsb = 1 - bias - (p - 1)
        sh = min(p - m.bit_length(), e - emin_lsb)
        m <<= sh
        e -= sh
    if m.bit_length() < p:
        return s + m                      # subnormal, exponent field 0
    ex = e + (p - 1) + bias
    return s + (ex << t) + (m if fmt == 'f80' else m - (1 << (p - 1)))

def decode(bits, fmt):
    """-> ('nan',) | ('inf', neg) | ('fin', neg, m, e)"""
    p, w = FMT[fmt]
    bias = (1 << (w - 1)) - 1
    t = p if fmt == 'f80' else p - 1
    neg = bool(bits >> (w + t) & 1)
    ex = (bits >> t) & ((1 << w) - 1)
    sig = bits & ((1 << t) - 1)
    if fmt == 'f80':
        if ex == (1 << w) - 1:
            return ('inf', neg) if sig == 1 << 63 else ('nan',)
        if ex == 0:
            return ('fin', neg, sig, 1 - bias - 63)
        if sig < 1 << 63:
            return ('nan',)
        return ('fin', neg, sig, ex - bias - 63)
    if ex == (1 << w) - 1:
        return ('inf', neg) if sig == 0 else ('nan',)
    if ex == 0:
        return ('fin', neg, sig, 1 - bias - t)
    return ('fin', neg, (1 << t) + sig, ex - bias - t)

def literal_fval(x, fmt):
    """the 80-bit long double the tokenizer holds for a constant of value Fraction x and type fmt (rounded once to fmt)"""
    p, w = FMT[fmt]
    r = round_frac(x, p, w)
    if r == 'inf':
        return 0x7fff << 64 | 1 << 63
    m, e = r
    return encode(m, e, 'f80')

def frac_of(text):
    """value of a decimal or hexadecimal floating constant spelling without suffix"""
    s = text.lower()
    if s.startswith('0x'):
        mant, ex = s[2:].split('p')
        if '.' in mant:
            a, b = mant.split('.')
        else:
            a, b = mant, ''
        n = int((a + b) or '0', 16)
        return Fraction(n) * Fraction(2) ** (int(ex) - 4 * len(b))
    if 'e' in s:
        mant, ex = s.split('e')
        return Fraction(mant) * Fraction(10) ** int(ex)
    return Fraction(s)
