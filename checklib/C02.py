"""C02 - floating-point arithmetic and conversions are bit-exact.

Legs (DESIGN 3.3):
  (a) translator: Gen/CastTableGen.lean (cast_table, getTypeId) and Gen/CommonTypeGen.lean (get_common_type) are
      regenerated from the snapshot; the theorems of Props/C02.lean are re-checked against them (framework).
  (b) model <-> code, text: for every conversion cell (12x12 arithmetic types), every operator x floating type, negation,
      every truth-test context and floating constants, `chibicc -S` of a one-operation function must print exactly the
      instruction lines `drv_c02 seq` renders from Model/FpCodegen (which reads the generated table).
  (c) FpuSpec contracts <-> CPU: the instructions the contracts describe are executed on the host (through gcc-compiled
      C that uses them: conversions, comparisons, the doubling / subtract-2^63 / add-2^64 steps of the unsigned long cells,
      the fld/fst round trip under six control words) and `drv_c02 contract` decides the contract on each observed
      (input, output) pair; data the contracts name through `ofInt*` are compared bit for bit with the IEEE/x87 encoder.
  (c') model <-> code for constants: `drv_c02 lit` (Model/FpLiteral over the suffix ladder regenerated from tokenize.c) says
      which type a spelling gets and which libc function's result is kept, or `invalid`; chibicc must give that type
      (sizeof), the bytes of the spelling rounded ONCE to that function's format, or the diagnostic.
  (d) end to end, chibicc <-> gcc <-> exact rational arithmetic (checklib/c02_fp.py): generated programs over all 12x12
      conversions, all operators x 3 floating types, all truth-test contexts, mixed-type operands and floating constants,
      on the boundary classes of the property text; raw object bytes must agree.  chibicc != gcc is a VIOLATION (there is
      no known region any more: the three former findings were repaired in /repo); gcc != python spec is a broken tie.
  (e) chains of conversions (checklib/c02_chain.py): what gen_expr does with NESTED ND_CAST nodes.  Text: generated chains of
      1-4 conversions in `return`, assignment and `?:` contexts against Model/FpChain.lean (one cast() per node, nothing
      elided: the tie of C02_cast_chain).  Execution: chains of 2-4 conversions, explicit and implicit (initialisation,
      return, argument passing, ?: with mixed operand types, compound assignment) on boundary values per link, chibicc vs gcc
      vs the composition of the python spec.
"""
import os, json, hashlib
from fractions import Fraction
from concurrent.futures import ThreadPoolExecutor
from .framework import *
from .c02_fp import *
from . import c02_oracle as O
from . import c02_chain as CH

PROPERTY = 'C02'
GEN_MODULES = ['commontype', 'casttable', 'fpliteral']
LEAN_TARGETS = ['ChibiVerif.Props.C02', 'ChibiVerif.Findings.C02']
PROPS_FILES = ['ChibiVerif/Props/C02.lean']
NEEDS_HOOKS = False
TRUSTED_BASE = [
    'Lean 4.33.0 kernel; axioms admitted: propext, Classical.choice, Quot.sound (audited per theorem on every run)',
    'Spec/FpuSpec.lean: the ASSUMED behaviour of the SSE/x87 instructions (structure FpuSpec: abstract operations + Intel-SDM '
    'contracts as Prop fields; no IEEE-754 formalisation of the arithmetic). Every theorem of Props/C02.lean is relative to it. '
    'Besides conversion/compare/truncate contracts it assumes, for the unsigned long cells at >= 2^63: comiss/comisd flag results, '
    'the constants 0x5f000000 / 0x43e0000000000000 / flds(0x5f000000) denote 2^63, x - 2^63 is exact for 2^63 <= x < 2^64 '
    '(subss, subsd, fsub under PC=11b), fild(v-2^64) + 2^64 = datum of v (fadd under PC=11b), x + x is exact (addss, addsd), the '
    'datum of an integer is a function of its sign and rounded value, fst(fld x) = x for non-NaN x. Satisfiable (Lemmas/FpToy.lean); '
    'the host CPU is validated against each contract on every run (instruction executed through gcc inline asm on the boundary '
    'classes, `drv_c02 contract` decides the contract on each observed pair with val* read as IEEE/x87 decoding and ofInt* as the '
    'IEEE/x87 encoding, bit for bit)',
    'x87 control word: C02_select asks for precision control = double extended (PC=11b, psABI: 0x37f) in the two cells that do x87 '
    'arithmetic (unsigned long <-> long double); with another PC those two conversions are wrong on gcc as well',
    'libc: strtof/strtod/strtold are correctly rounding (round to nearest, ties to even, to their own format) and never return a '
    'NaN for a pp-number (contract LibcRounds of Model/FpLiteral.lean, hypothesis of C02_const_rounded); validated on every run: '
    'the bytes chibicc emits for a constant = gcc = exact rational rounding (python) of the spelling',
    'Spec/FpC11Spec.lean (my reading of C11 6.3.1.2/6.3.1.4/6.3.1.5/6.3.1.8, 6.5.8/6.5.9 + Annex F for comparisons and truth) and '
    'checklib/c02_fp.py (exact rational round-to-nearest-even for binary32/binary64/x87-80): validated against gcc 12 on every generated case',
    'Model/FpMachine.lean: mnemonic -> operation and operand order of ~50 SSE/x87 instruction forms, x87 stack as a list, flags of '
    'ucomis*/fcomip; integer instructions by Model/X86.lean (validated against the CPU by C01). Validated end to end only (oracle leg d)',
    'Model/FpCodegen.lean: hand model of the floating arms of cmp_zero/cast/load/gen_expr (ND_NUM, ND_NEG, binary operators, '
    'truth-test contexts); tied by text equality with `chibicc -S` on every conversion cell (12x12), every operator x type pair with a '
    'floating common type, every truth-test context and a battery of constants',
    'Model/FpChain.lean: hand model of the ND_CAST arm of gen_expr on nests of casts (one cast() per node, innermost first, nothing '
    'elided), of store() and of the ND_ASSIGN / ND_COND / return contexts around it; tied by text equality with `chibicc -S` on every '
    '(source, cast, return type) triple, on round trips through assignments and on generated chains of up to 4 casts and `?:` arms '
    '(~3,200 functions quick). C02_cast_chain is about this model; its integer-only links are C01\'s C01_cast (Lemmas/C01Lemmas) '
    'transported to the floating machine; Spec/FpChainSpec.lean (a chain of conversions = the composition of the single conversions, in '
    'order; my reading of C11 6.5.4p5, 6.3.1.4, 6.3.1.5, 6.5.16.1p2, 6.8.6.4p3, 6.5.2.2p7) is validated against gcc on generated chains',
    'C02_binary_value_sse / _x87 take the code of the operand evaluated second as a parameter that must yield its value from every '
    'state without writing memory, %rsp, the control word or the x87 stack (`Yields`): loads through `lea sym(%rip)` are not executable '
    'in Model/FpMachine, so the theorems cover the conversion/save/restore/operate skeleton gen_expr wraps around the operand codes, not '
    'the loads themselves (those are covered end to end by the oracle)',
    'translators tools/extract/casttable.py (cast_table cells as structured instructions, getTypeId), commontype.py '
    '(get_common_type) and fpliteral.py (suffix ladder of convert_pp_number: bytes, type, libc function kept)',
    'Model/FpLiteral.lean: hand model of the floating branch of convert_pp_number over that ladder (end++ / length test); tied by '
    '`drv_c02 lit` against chibicc on generated spellings (type, value, diagnostic)',
    'not modelled in Lean (covered by the gcc oracle only, which is testing): the scanning done by strtold (where the number part '
    'ends), eval_double (static initialisers), compound assignment / ++ -- rewritings of parse.c, default argument promotions, '
    'the actual rounding performed by the SSE/x87 units',
]
ASSUMPTIONS = ['x86-64 SysV, FLT_EVAL_METHOD 0, round-to-nearest-even, x87 control word 0x37f on entry (neither chibicc nor the '
               'generated programs change the rounding mode except inside FROM_F80, which restores it: proved)',
               'division by zero and overflow of floating arithmetic are taken as IEC 60559 defines them (property text: IEEE formats)',
               'which of two NaN operand payloads an arithmetic result carries is not compared (not fixed by C11 or IEC 60559)']


# -------------------------------------------------------------------------------------------------- build + run

def compile_run(ctx, name, text):
    """-> (chibicc output or None, gcc output or None, error strings)"""
    src = os.path.join(ctx.scratch, name + '.c')
    with open(src, 'w') as f:
        f.write(text)
    res = {}

    def one(which):
        exe = os.path.join(ctx.scratch, f'{name}.{which}.exe')
        if which == 'cc':
            cmd = [ctx.cc, '-o', exe, src]
        else:
            cmd = ['gcc', '-std=c11', '-O0', '-w', '-o', exe, src]
        rc, o, e = sh(cmd, timeout=600, cwd=ctx.scratch)
        if rc != 0 or not os.path.exists(exe):
            return None, f'{which}: compile failed rc={rc}: ' + (e or o)[-400:]
        rc, o, e = sh([exe], timeout=600)
        if rc != 0:
            return o, f'{which}: run failed rc={rc}: ' + e[-200:]
        return o, None
    with ThreadPoolExecutor(2) as ex:
        fc, fg = ex.submit(one, 'cc'), ex.submit(one, 'gcc')
        oc, ec = fc.result()
        og, eg = fg.result()
    return oc, og, [x for x in (ec, eg) if x]


class Batch:
    """one generated program: compares chibicc with gcc case by case"""
    def __init__(self, ctx, corr, name, text, cases):
        self.ctx, self.corr, self.name, self.cases = ctx, corr, name, cases
        oc, og, errs = compile_run(ctx, name, text)
        self.errs = errs
        self.cc = O.parse_output(oc or '')
        self.gcc = O.parse_output(og or '')
        self.ok = True
        for e in errs:
            if e.startswith('gcc:'):
                corr.disagreements.append({'kind': 'oracle harness', 'what': f'gcc failed on generated program {name}', 'detail': e})
                self.ok = False
            else:
                corr.violations.append({'what': f'chibicc fails on a well-defined generated program ({name})', 'detail': e,
                                        'input': text if len(text) < 4000 else text[:4000] + '...', 'expected': 'compiles and runs',
                                        'got': e})
                self.ok = False


def violation(corr, what, prog, expected, got, known=None, **more):
    v = dict({'what': what, 'input': prog, 'expected': expected, 'got': got}, **more)
    if known:
        v['known_id'] = known
        if known not in corr.known_hits:
            corr.known_hits.append(known)
    corr.violations.append(v)


MAXV = 2    # violations reported per leg (the first ones are the smallest indices = boundary classes)


def small_int_value(t, v):
    """is the operand one of the small exactly representable values the suite samples?"""
    if t in O.ITYS:
        return abs(v) < 1 << 15
    d = decode(t, v)
    return d[0] == 'fin' and d[2].denominator == 1 and d[2] < 1 << 15 and not (d[2] == 0 and d[1])


# -------------------------------------------------------------------------------------------------- conversions

def run_conversions(ctx, corr):
    rng = ctx.rng
    nrand = 150 if ctx.thorough else 20
    values = {t: O.int_values(t, rng, nrand) for t in O.ITYS}
    for t in O.FTYS:
        values[t] = O.fp_values(t, rng, 1500 if ctx.thorough else 80)
    pairs = [(f, t) for f in O.ATYS for t in O.ATYS]
    text, cases, skipped = O.conv_program(values, pairs)
    corr.count('skipped_ub', skipped)
    b = Batch(ctx, corr, 'conv', text, cases)
    if not b.ok:
        return
    nv = 0
    for key, (f, t, i) in cases.items():
        v = values[f][i]
        corr.evaluations += 1
        corr.count(f'conv:{"i" if f in O.ITYS else "f"}>{"i" if t in O.ITYS else "f"}')
        g = b.gcc.get(key)
        c = b.cc.get(key)
        if g is None:
            corr.disagreements.append({'kind': 'oracle harness', 'what': f'gcc binary printed nothing for {key}'})
            return
        sp = O.spec_convert(f, t, v)
        n = O.nbytes(t)
        want = None
        if sp[0] == 'int':
            want = O.int_to_hex(sp[1], n)
        elif sp[0] == 'bits':
            want = O.int_to_hex(sp[1], n)
        if want is not None and want != g[1]:
            corr.disagreements.append({'kind': 'spec vs gcc', 'what': f'conversion {f}->{t} of {v:#x}: python spec {want}, gcc {g[1]}'})
            return
        if not small_int_value(f, v):
            corr.nontrivial.add(f'conv {f} {t} {v:x}')
        if (f == 'u64' and t in FMT and v >= 1 << 63) or (t == 'u64' and f in FMT and sp[0] == 'int' and sp[1] >= 1 << 63):
            corr.count('u64 at or above 2^63')
        if c is None or c[1] != g[1]:
            corr.count(f'mismatch:conv {f}>{t}')
            if nv < MAXV:
                nv += 1
                violation(corr, f'conversion ({O.CNAME[t]})({O.CNAME[f]}) of {describe(f, v)} yields different bytes',
                          O.conv_minimal(f, t, v), g[1], c[1] if c else 'no output', source_bits=f'{v:#x}')
    corr.sample({'conversion': {'from': 'f64', 'to': 'i32', 'case': next((k for k in cases if k.startswith('f64>i32')), None)}})


def describe(t, v):
    if t in O.ITYS:
        return f'{v} ({v:#x})'
    d = decode(t, v)
    if d[0] == 'fin':
        x = -d[2] if d[1] else d[2]
        try:
            return f'bits {v:#x} (= {"-" if d[1] and d[2] == 0 else ""}{float(x)!r}{"" if x.denominator.bit_length() < 60 else "~"})'
        except OverflowError:
            return f'bits {v:#x}'
    return f'bits {v:#x} ({d[0]})'


# -------------------------------------------------------------------------------------------------- operators

def op_values(ctx, fmt):
    """operands for the operator cross product: boundary classes + a few seeded random"""
    P = pow2
    F = Fraction
    pats = []

    def add(b):
        if b is not None and b not in pats:
            pats.append(b)
    p = FMT[fmt]['p']
    for s in (0, 1):
        add(pack(fmt, s, 0, 0))
    for x in [F(1), F(3, 2), F(1, 3), P(p - 1), P(p) + 2, 1 + P(1 - p), P(emin(fmt)), P(emin(fmt) - (p - 1)),
              P(emin(fmt)) - P(emin(fmt) - (p - 1)), P(emax(fmt)) * (2 - P(1 - p)), P(emax(fmt)), F(10) ** 10 / 3, P(63), P(64) - 1]:
        add(round_bits(fmt, 0, x))
    for x in [F(1), F(5, 2), F(1, 10), P(emax(fmt)) * (2 - P(1 - p)), P(emin(fmt) - (p - 1))]:
        add(round_bits(fmt, 1, x))
    for s in (0, 1):
        add(inf_bits(fmt, s))
    add(qnan_bits(fmt, 0))
    add(qnan_bits(fmt, 1, 0x55))
    add(snan_bits(fmt, 0, 0x77))
    for b in O.fp_values(fmt, ctx.rng, 60 if ctx.thorough else 10)[-(60 if ctx.thorough else 10):]:
        add(b)
    return pats


def spec_arith(fmt, name, a, b):
    """exact result of a finite operation rounded to the format, or None where IEEE leaves more than the value open"""
    da, db = decode(fmt, a), decode(fmt, b)
    if da[0] != 'fin' or db[0] != 'fin':
        return None
    xa = -da[2] if da[1] else da[2]
    xb = -db[2] if db[1] else db[2]
    if name == 'div':
        if xb == 0:
            return None
        r = xa / xb
        s = da[1] ^ db[1]
    elif name == 'mul':
        r = xa * xb
        s = da[1] ^ db[1]
    else:
        if name == 'sub':
            xb = -xb
            sb = db[1] ^ 1
        else:
            sb = db[1]
        r = xa + xb
        if r == 0:
            s = da[1] if da[1] == sb else 0
        else:
            s = 1 if r < 0 else 0
    return round_bits(fmt, s, abs(r))


def spec_rel(fmt, name, a, b):
    da, db = decode(fmt, a), decode(fmt, b)
    if da[0] == 'nan' or db[0] == 'nan':
        return 1 if name == 'ne' else 0

    def key(d):
        if d[0] == 'inf':
            return (1, 0) if not d[1] else (-1, 0)
        return (0, -d[2] if d[1] else d[2])
    ka, kb = key(da), key(db)
    return int({'eq': ka == kb, 'ne': ka != kb, 'lt': ka < kb, 'le': ka <= kb, 'gt': ka > kb, 'ge': ka >= kb}[name])


def is_nan(fmt, bits):
    return decode(fmt, bits)[0] == 'nan'


def run_operators(ctx, corr):
    values = {t: op_values(ctx, t) for t in O.FTYS}
    text, cases = O.binop_program(values)
    b = Batch(ctx, corr, 'binop', text, cases)
    if not b.ok:
        return
    nv = 0
    arith = dict(O.ARITH)
    for key, (t, name, i, j) in cases.items():
        va, vb = values[t][i], values[t][j]
        corr.evaluations += 1
        corr.count(f'op:{t}.{name}')
        g, c = b.gcc.get(key), b.cc.get(key)
        if g is None:
            corr.disagreements.append({'kind': 'oracle harness', 'what': f'gcc binary printed nothing for {key}'})
            return
        if name in arith:
            sp = spec_arith(t, name, va, vb)
            if sp is not None and O.int_to_hex(sp, O.nbytes(t)) != g[1]:
                corr.disagreements.append({'kind': 'spec vs gcc', 'what': f'{t} {va:#x} {name} {vb:#x}: python spec {sp:#x}, gcc {g[1]}'})
                return
        else:
            sp = spec_rel(t, name, va, vb)
            if O.int_to_hex(sp, 4) != g[1]:
                corr.disagreements.append({'kind': 'spec vs gcc', 'what': f'{t} {va:#x} {name} {vb:#x}: python spec {sp}, gcc {g[1]}'})
                return
        if not (small_int_value(t, va) and small_int_value(t, vb)):
            corr.nontrivial.add(f'op {t} {name} {va:x} {vb:x}')
        same = c is not None and c[1] == g[1]
        if not same and c is not None and name in arith and is_nan(t, va) and is_nan(t, vb):
            # which of two NaN payloads propagates is not fixed by C11 (nor by IEC 60559): require a NaN
            corr.count('two_nan_payload_not_compared')
            same = is_nan(t, O.hex_to_int(c[1])) and is_nan(t, O.hex_to_int(g[1]))
        if not same:
            corr.count(f'mismatch:op {t}.{name}')
            if nv < MAXV:
                nv += 1
                violation(corr, f'{O.CNAME[t]} operands {describe(t, va)} {dict(O.ARITH + O.RELS)[name]} {describe(t, vb)}: different result bytes',
                          O.binop_minimal(t, name, va, vb), g[1], c[1] if c else 'no output')
    corr.sample({'operator': {'type': 'f80', 'case': 'every ordered pair of ' + str(len(values['f80'])) + ' boundary operands x 10 operators'}})


def spec_context(fmt, name, a):
    d = decode(fmt, a)
    truth = not (d[0] == 'fin' and d[2] == 0)
    nan = d[0] == 'nan'
    t = int(truth)
    table = {'not': 1 - t, 'bool': t, 'boolinit': t, 'cond': 1 if truth else 2, 'if': 1 if truth else 2, 'ifnot': 2 if truth else 1,
             'while': 1 if truth else 2, 'for': 1 if truth else 2, 'dowhile': 2 if truth else 1, 'and1': t, 'and2': t, 'or1': t, 'or2': t,
             'andand': t, 'eq0': 1 - t, 'ne0': t, 'selfeq': 0 if nan else 1, 'selfne': 1 if nan else 0}
    return table.get(name)


def run_contexts(ctx, corr):
    values = {}
    for t in O.FTYS:
        vs = op_values(ctx, t)
        for s in (0, 1):
            for b in (qnan_bits(t, s, 0x1234), snan_bits(t, s, 1), pack(t, s, 0, 1)):
                if b not in vs:
                    vs.append(b)
        values[t] = vs
    text, cases = O.unary_program(values)
    b = Batch(ctx, corr, 'unary', text, cases)
    if not b.ok:
        return
    nv = 0
    for key, (t, name, i) in cases.items():
        v = values[t][i]
        corr.evaluations += 1
        corr.count(f'ctx:{name}')
        g, c = b.gcc.get(key), b.cc.get(key)
        if g is None:
            corr.disagreements.append({'kind': 'oracle harness', 'what': f'gcc binary printed nothing for {key}'})
            return
        sp = spec_context(t, name, v)
        if name == 'neg':
            sp_hex = O.int_to_hex(v ^ (1 << (8 * O.nbytes(t) - 1)), O.nbytes(t))
        elif name == 'plus':
            sp_hex = O.int_to_hex(v, O.nbytes(t)) if not is_nan(t, v) else None
        else:
            sp_hex = O.int_to_hex(sp, 4)
        if sp_hex is not None and sp_hex != g[1]:
            corr.disagreements.append({'kind': 'spec vs gcc', 'what': f'{t} {name} of {v:#x}: python spec {sp_hex}, gcc {g[1]}'})
            return
        if not small_int_value(t, v):
            corr.nontrivial.add(f'ctx {t} {name} {v:x}')
        if c is None or c[1] != g[1]:
            corr.count(f'mismatch:ctx {t}.{name}')
            if nv < MAXV:
                nv += 1
                violation(corr, f'{O.CNAME[t]} {describe(t, v)} in context `{dict(O.CONTEXTS)[name] or name}`: different result',
                          O.unary_minimal(t, name, v), g[1], c[1] if c else 'no output')
    corr.sample({'truth test': {'contexts': [n for n, _ in O.CONTEXTS], 'operands per type': len(values['f32'])}})


def run_mixed(ctx, corr):
    rng = ctx.rng
    P = lambda k: 1 << k
    ivals = {'bool': [1, 0], 'i8': [-1, 127], 'i16': [-32768, 255], 'i32': [P(24) + 1, -P(31)], 'i64': [P(53) + 1, -P(63), P(62) + P(38) + 1],
             'u8': [255, 2], 'u16': [65535, 3], 'u32': [P(32) - 1, P(24) + 3], 'u64': [P(53) + 3, P(63) - 1, P(63) - P(39) - 1, P(64) - 1, P(63) + P(39) + 1, P(63) + P(10) + 1, P(64) - P(39) - 1]}
    values = dict(ivals)
    for t in O.FTYS:
        vs = [round_bits(t, 0, Fraction(3, 2)), pack(t, 1, 0, 0), qnan_bits(t, 0), round_bits(t, 0, pow2(63)), round_bits(t, 1, Fraction(1, 3)),
              round_bits(t, 0, 1 + pow2(-23)), round_bits(t, 0, pow2(24) + 1), round_bits(t, 0, pow2(63) * 3 / 2), round_bits(t, 0, pow2(64) - pow2(40))]
        values[t] = list(dict.fromkeys(vs))
        if ctx.thorough:
            values[t] += O.fp_values(t, rng, 6)[-6:]
    if ctx.thorough:
        for t in O.ITYS:
            values[t] = list(dict.fromkeys(values[t] + O.int_values(t, rng, 4)[-4:]))
    pairs = [(a, b) for a in O.ATYS for b in O.ATYS if a in O.FTYS or b in O.FTYS]
    text, cases = O.mixed_program(values, pairs)
    bt = Batch(ctx, corr, 'mixed', text, cases)
    if not bt.ok:
        return
    nv = 0
    for key, (t1, t2, name, i, j, ct) in cases.items():
        a, b = values[t1][i], values[t2][j]
        corr.evaluations += 1
        corr.count('mixed')
        g, c = bt.gcc.get(key), bt.cc.get(key)
        if g is None:
            corr.disagreements.append({'kind': 'oracle harness', 'what': f'gcc binary printed nothing for {key}'})
            return
        want_size = str(FMT[ct]['size']) if name in dict(O.MIXOPS) or name in dict(O.MIXASG) else '4'
        if g[0] != want_size:
            corr.disagreements.append({'kind': 'spec vs gcc', 'what': f'sizeof of {t1} {name} {t2}: C11 6.3.1.8 says {want_size}, gcc {g[0]}'})
            return
        corr.nontrivial.add(f'mixed {t1} {t2} {name} {a:x} {b:x}')
        same = c is not None and c == g
        if not same and c is not None and c[0] == g[0] and name in ('add', 'sub', 'mul', 'div', 'asg_add', 'asg_sub', 'asg_mul', 'asg_div') and t1 in FMT and t2 in FMT \
                and is_nan(t1, a) and is_nan(t2, b):
            corr.count('two_nan_payload_not_compared')
            same = is_nan(ct, O.hex_to_int(c[1])) and is_nan(ct, O.hex_to_int(g[1]))
        if not same:
            corr.count(f'mismatch:mixed {t1}.{t2}.{name}')
            if nv < MAXV:
                nv += 1
                violation(corr, f'`{dict(O.MIXOPS + O.MIXRELS + O.MIXASG)[name]}` with a: {O.CNAME[t1]} = {describe(t1, a)}, b: {O.CNAME[t2]} = {describe(t2, b)} '
                          f'(common type {O.CNAME[ct]}): different sizeof or result bytes', O.mixed_minimal(t1, t2, name, a, b, ct),
                          f'{g[0]} {g[1]}', f'{c[0]} {c[1]}' if c else 'no output')
    corr.sample({'mixed operands': {'pairs': len(pairs), 'operators': [n for n, _ in O.MIXOPS + O.MIXRELS]}})


# -------------------------------------------------------------------------------------------------- constants

def corpus_literals():
    d = os.path.join(VERIF, 'corpus', 'C02')
    out = []
    if os.path.isdir(d):
        for fn in sorted(os.listdir(d)):
            if fn.endswith('.literals'):
                for line in open(os.path.join(d, fn)):
                    line = line.split('#')[0].strip()
                    if line:
                        out.append(line)
    return out


def run_constants(ctx, corr):
    rng = ctx.rng
    texts = corpus_literals() + O.gen_literals(rng, 6000 if ctx.thorough else 300)
    lits = []
    for k, text in enumerate(dict.fromkeys(texts)):
        for suf, fmt in O.SUFFIX:
            if suf in ('F', 'l') and k % 7:
                continue       # the upper/lower-case twins only on a sample
            if text.lower().startswith('0x') is False and suf in ('f', 'F') and text.isdigit():
                continue
            lits.append((text, suf, fmt))
    text, cases = O.const_program(lits)
    b = Batch(ctx, corr, 'const', text, cases)
    if not b.ok:
        return
    nv = 0
    for key, (tag, k) in cases.items():
        lit, suf, fmt = lits[k]
        corr.evaluations += 1
        corr.count(f'const:{tag}:{fmt}')
        g, c = b.gcc.get(key), b.cc.get(key)
        if g is None:
            corr.disagreements.append({'kind': 'oracle harness', 'what': f'gcc binary printed nothing for {key}'})
            return
        good, via = O.literal_spec(lit, fmt)
        if tag == 'N':
            good ^= 1 << (8 * O.nbytes(fmt) - 1)
        want = O.int_to_hex(good, O.nbytes(fmt))
        if want != g[1] or (tag == 'L' and g[0] != str(FMT[fmt]['size'])):
            corr.disagreements.append({'kind': 'spec vs gcc', 'what': f'constant {lit}{suf} ({tag}): python spec {want} size {FMT[fmt]["size"]}, gcc {g}'})
            return
        x = parse_literal(lit)
        if not (x.denominator == 1 and x < 1 << 15):
            corr.nontrivial.add(f'const {tag} {lit}{suf}')
        if good != via:
            corr.count('const: rounding twice (through long double) would differ')
        if c is None or c != g:
            corr.count(f'mismatch:const {tag} {fmt}')
            if nv < MAXV:
                nv += 1
                violation(corr, f'floating constant {lit}{suf} ({ {"L": "automatic object", "G": "static initializer", "N": "negated"}[tag] }): '
                          'different type size or bytes' + (' (the value rounded twice, through long double?)' if c and O.int_to_hex(via, O.nbytes(fmt)) == c[1] and tag != 'N' else ''),
                          O.const_minimal(lit, suf, fmt, tag), f'{g[0]} {g[1]}', f'{c[0]} {c[1]}' if c else 'no output')
    corr.sample({'constants': {'literals': len(lits), 'first': [l + s for l, s, _ in lits[:5]]}})



# -------------------------------------------------------------------------------------------------- constants: model <-> code

LIT_TAILS_OK = ['', 'f', 'F', 'l', 'L']
LIT_TAILS_BAD = ['ff', 'fl', 'lf', 'LL', 'Lf', 'fF', 'x', 'd', 'D', 'u', 'lu', 'fx', 'q', 'e', 'E', 'el', 'i', 'lL', 'FL', 'h']


def run_literal_model(ctx, corr):
    """Model/FpLiteral (over the regenerated suffix ladder) against the real tokenizer: for number part + tail, the model says
    `<type> <libc function kept>` or `invalid`; chibicc must give that type (sizeof), the bytes of the spelling rounded once to
    that function's format and then converted to the type, or the diagnostic `invalid numeric constant`."""
    rng = ctx.rng
    nums = [l for l in O.gen_literals(rng, 400 if ctx.thorough else 60) if not l.lower().startswith('0x') or 'p' in l.lower()]
    nums = [l for l in nums if ('.' in l or 'e' in l.lower() or 'p' in l.lower())]
    rng.shuffle(nums)
    good, bad = [], []
    for k, num in enumerate(nums):
        for t in LIT_TAILS_OK:
            if t in ('F', 'l') and k % 5:
                continue
            good.append((num, t))
        if k < (200 if ctx.thorough else 25):
            for t in rng.sample(LIT_TAILS_BAD, 3 if ctx.thorough else 2):
                if num.lower().startswith('0x') and t[0] in 'dDe' 'E':
                    continue      # would be read as more exponent / hex digits by nobody, but keep the number part unambiguous
                bad.append((num, t))
    spec = ''.join(f'{ord(t[0]) if t else 41} {len(t)}\n' for _, t in good + bad)
    model = ctx.driver('lit', spec).splitlines()
    if len(model) != len(good) + len(bad):
        corr.disagreements.append({'kind': 'literal model', 'what': f'driver printed {len(model)} lines for {len(good) + len(bad)} spellings'})
        return
    TY = {'float': 'f32', 'double': 'f64', 'ldouble': 'f80'}
    PF = {'strtof': 'f32', 'strtod': 'f64', 'strtold': 'f80'}
    # valid spellings: one program
    out = [O.PRELUDE, 'int main(void) {']
    for k, (num, t) in enumerate(good):
        m = model[k].split()
        if len(m) != 2 or m[0] not in TY:
            corr.disagreements.append({'kind': 'literal model', 'what': f'model rejects the standard constant {num}{t}: `{model[k]}`'})
            return
        fmt = TY[m[0]]
        out.append(f'  {{ T_{fmt} v = {num}{t}; printf("%d ", (int)sizeof({num}{t})); dump("M", {k}, 0, &v, {O.nbytes(fmt)}); }}')
    out.append('  return 0;\n}')
    src = os.path.join(ctx.scratch, 'litmodel.c')
    exe = os.path.join(ctx.scratch, 'litmodel.exe')
    with open(src, 'w') as f:
        f.write('\n'.join(out) + '\n')
    rc, o, e = sh([ctx.cc, '-o', exe, src], timeout=600, cwd=ctx.scratch)
    if rc != 0:
        corr.violations.append({'what': 'chibicc rejects a program of standard floating constants', 'input': '\n'.join(out)[:3000],
                                'expected': 'compiles', 'got': (e or o)[-300:]})
        return
    rc, o, e = sh([exe], timeout=600)
    got = O.parse_output(o)
    nd = 0
    for k, (num, t) in enumerate(good):
        corr.evaluations += 1
        corr.count('litmodel:valid')
        corr.nontrivial.add(f'litmodel {num}{t}')
        ty, pf = model[k].split()
        fmt, via = TY[ty], PF[pf]
        x = parse_literal(num)
        r = round_mag(via, x)
        bits = inf_bits(fmt, 0) if r[0] == 'inf' else round_bits(fmt, 0, r[1])
        want = (str(FMT[fmt]['size']), O.int_to_hex(bits, O.nbytes(fmt)))
        c = got.get(f'M {k} 0')
        if c != want:
            nd += 1
            if nd <= 3:
                corr.disagreements.append({'kind': 'literal model', 'spelling': num + t, 'model': f'{model[k]} -> size {want[0]} bytes {want[1]}',
                                           'impl': f'size {c[0]} bytes {c[1]}' if c else 'no output'})
    # invalid spellings: each must be diagnosed
    d = os.path.join(ctx.scratch, 'litbad')
    os.makedirs(d, exist_ok=True)

    def one(k):
        num, t = bad[k]
        fn = os.path.join(d, f'b{k}.c')
        with open(fn, 'w') as f:
            f.write(f'int main(void) {{ return sizeof({num}{t}); }}\n')
        return sh([ctx.cc, '-S', '-o', '/dev/null', fn], timeout=60)
    with ThreadPoolExecutor(NPROC) as ex:
        res = list(ex.map(one, range(len(bad))))
    for k, ((num, t), (rc, o, e)) in enumerate(zip(bad, res)):
        corr.evaluations += 1
        corr.count('litmodel:invalid')
        corr.nontrivial.add(f'litmodel {num}{t}')
        mod = model[len(good) + k]
        impl = 'invalid' if (rc != 0 and 'invalid numeric constant' in (e + o)) else ('accepted' if rc == 0 else 'other failure: ' + (e or o)[-120:])
        if mod != impl:
            nd += 1
            if nd <= 3:
                corr.disagreements.append({'kind': 'literal model', 'spelling': num + t, 'model': mod, 'impl': impl})
    corr.sample({'literal model': {'valid': len(good), 'invalid': len(bad), 'example': f'{good[0][0]}{good[0][1]} -> {model[0]}'}})

# -------------------------------------------------------------------------------------------------- text tie (model <-> chibicc -S)

def asm_body(text):
    """instruction lines of function f between the prologue and the final `jmp .L.return.f`, comments stripped"""
    lines = [l for l in text.splitlines() if not re.match(r'\s*\.(loc|file)\b', l)]
    try:
        i = lines.index('f:')
        j = lines.index('.L.return.f:')
    except ValueError:
        return None
    body = lines[i + 1:j]
    pro = ['  push %rbp', '  mov %rsp, %rbp']
    if body[:2] != pro or not re.fullmatch(r'  sub \$\d+, %rsp', body[2]) or body[3] != '  mov %rsp, -8(%rbp)':
        return None
    body = body[4:]
    if not body or body[-1] != '  jmp .L.return.f':
        return None
    body = body[:-1]
    return [re.sub(r'\s+#.*$', '', l) for l in body]


TIE_OPS = ['add', 'sub', 'mul', 'div', 'eq', 'ne', 'lt', 'le', 'gt', 'ge']
TIE_LITS = ['1.5', '0.1', '3.4028235e38', '1e-45', '16777217.0', '0x1.000001p0', '1.0000000596046447753906251', '1e39',
            '1.000000000000000111022302462515654042363166809082031251', '0x1.00000000000008000001p0', '1e400', '4.9406564584124654e-324',
            '0.0', '2.5', '1e22', '0x1.8p-16400', '18446744073709551615.0', '0x1.ffffffffffffffffp16383', '18446744073709553665.0',
            '16777217.00000000000000000001', '9007199254740993.000000000000000000001', '1.00000017881393432617187500000001']


def tie_cases(ctx):
    """[(driver spec line, C source)]"""
    C = O.CNAME
    cases = []
    for f in O.ATYS:
        for t in O.ATYS:
            cases.append((f'cast {f} {t}', f'{C[f]} a;\n{C[t]} f(void) {{ return ({C[t]})a; }}\n'))
    cop = dict(O.ARITH + O.RELS)
    rank = {'f32': 1, 'f64': 2, 'f80': 3}
    for t1 in O.ATYS:
        for t2 in O.ATYS:
            if t1 not in FMT and t2 not in FMT:
                continue
            ct = max((t for t in (t1, t2) if t in FMT), key=lambda t: rank[t])
            for op in TIE_OPS:
                rt = C[ct] if op in ('add', 'sub', 'mul', 'div') else 'int'
                cases.append((f'bin {op} {t1} {t2}', f'{C[t1]} a;\n{C[t2]} b;\n{rt} f(void) {{ return a {cop[op]} b; }}\n'))
    for t in O.FTYS:
        cases.append((f'neg {t}', f'{C[t]} a;\n{C[t]} f(void) {{ return -a; }}\n'))
        cases.append((f'not {t}', f'{C[t]} a;\nint f(void) {{ return !a; }}\n'))
        cases.append((f'cond {t} 1', f'{C[t]} a;\nlong f(void) {{ return a ? 1L : 2L; }}\n'))
        cases.append((f'if {t} 1', f'{C[t]} a;\nlong f(void) {{ if (a) return 1L; return 2L; }}\n'))
        cases.append((f'while {t} 1', f'{C[t]} a;\nlong f(void) {{ while (a) return 1L; return 2L; }}\n'))
        cases.append((f'while {t} 1', f'{C[t]} a;\nlong f(void) {{ for (; a; ) return 1L; return 2L; }}\n'))
        cases.append((f'do {t} 1', f'{C[t]} a;\nlong f(void) {{ do {{}} while (a); return 2L; }}\n'))
        for t2 in O.FTYS + ['i32']:
            cases.append((f'and {t} {t2} 1', f'{C[t]} a;\n{C[t2]} b;\nint f(void) {{ return a && b; }}\n'))
            cases.append((f'or {t2} {t} 1', f'{C[t2]} a;\n{C[t]} b;\nint f(void) {{ return a || b; }}\n'))
    for lit in TIE_LITS:
        x = parse_literal(lit)
        for suf, fmt in (('', 'f64'), ('f', 'f32'), ('L', 'f80')):
            # the path of the code: strtod / strtof / strtold of the spelling (rounded once, to the constant's own type), widened
            # exactly to the long double `fval`, narrowed back by ND_NUM's union initialiser
            bits = round_bits(fmt, 0, x)
            cases.append((f'num {fmt} {bits}', f'{C[fmt]} f(void) {{ return {lit}{suf}; }}\n'))
    return cases


def run_text_tie(ctx, corr):
    cases = tie_cases(ctx)
    d = os.path.join(ctx.scratch, 'tie')
    os.makedirs(d, exist_ok=True)
    cc = ctx.cc

    def one(k):
        src = os.path.join(d, f't{k}.c')
        with open(src, 'w') as f:
            f.write(cases[k][1])
        rc, o, e = sh([cc, '-S', '-o', '-', src], timeout=60)
        return rc, o, e
    with ThreadPoolExecutor(NPROC) as ex:
        outs = list(ex.map(one, range(len(cases))))
    model = ctx.driver('seq', ''.join(spec + '\n' for spec, _ in cases)).splitlines()
    if len(model) != len(cases):
        corr.disagreements.append({'kind': 'text tie', 'what': f'driver printed {len(model)} lines for {len(cases)} specs'})
        return
    bad = 0
    for k, ((spec, src), (rc, o, e)) in enumerate(zip(cases, outs)):
        corr.evaluations += 1
        corr.count('tie:' + spec.split()[0])
        if rc != 0:
            corr.violations.append({'what': 'chibicc -S fails on a one-operation function', 'input': src, 'expected': 'assembly',
                                    'got': e[-300:]})
            return
        impl = asm_body(o)
        mod = [] if model[k] == 'empty' else (None if model[k] == 'none' else model[k].split(';;'))
        corr.nontrivial.add('tie ' + spec)
        if impl is None or mod is None or impl != mod:
            bad += 1
            if bad <= 3:
                j = 0
                if impl and mod:
                    j = next((j for j in range(min(len(impl), len(mod))) if impl[j] != mod[j]), min(len(impl), len(mod)))
                corr.disagreements.append({'kind': 'text tie', 'spec': spec, 'source': src,
                                           'impl': (impl[j] if impl and j < len(impl) else '<end>') if impl is not None else 'unrecognised function shape',
                                           'model': (mod[j] if mod and j < len(mod) else '<end>') if mod is not None else 'none',
                                           'line': j})
    if bad:
        corr.count('tie_mismatch', bad)
    corr.sample({'text tie': {'cases': len(cases), 'example': cases[150][0], 'model': model[150][:160]}})


# -------------------------------------------------------------------------------------------------- FpuSpec contracts <-> CPU

def py_round_nat(p, n):
    """independent implementation of Spec.Fpu.roundNat (round to nearest even of a natural number to p significant bits)"""
    l = n.bit_length()
    if l <= p:
        return n
    s = l - p
    q, r = n >> s, n & ((1 << s) - 1)
    half = 1 << (s - 1)
    if r > half or (r == half and q & 1):
        q += 1
    return q << s


def run_contracts(ctx, corr):
    rng = ctx.rng
    nr = 300 if ctx.thorough else 25
    vals = {}
    for k, bits in (('i16', 16), ('i32', 32), ('i64', 64)):
        signed = O.int_values(k, rng, nr)
        uns = O.int_values('u' + k[1:], rng, nr)
        vals[k] = list(dict.fromkeys([v & ((1 << bits) - 1) for v in signed + uns]))
    for f in O.FTYS:
        vals[f] = O.fp_values(f, rng, nr * 3)
    for f, key in (('f32', 'pairs32'), ('f64', 'pairs64'), ('f80', 'pairs80')):
        base = op_values(ctx, f)
        pairs = [(a, b) for a in base for b in base]
        if not ctx.thorough:
            pairs = pairs[:1] + rng.sample(pairs, min(len(pairs) - 1, 300))
        vals[key] = pairs
    for f in O.FTYS:
        vals['r' + f[1:]] = O.range63_values(f, rng, nr * 2)
    # unsigned long patterns with the top bit set (fildq + fadds 2^64) and halved-with-sticky values (the doubling contract)
    top = O.u64_top_values(rng, nr * 2)
    vals['i64'] = list(dict.fromkeys(vals['i64'] + top + [((v >> 1) | (v & 1)) for v in top]))
    text = O.contract_program(vals)
    src = os.path.join(ctx.scratch, 'contract.c')
    exe = os.path.join(ctx.scratch, 'contract.exe')
    with open(src, 'w') as f:
        f.write(text)
    rc, o, e = sh(['gcc', '-std=gnu11', '-O0', '-w', '-o', exe, src], timeout=300)
    if rc != 0:
        corr.disagreements.append({'kind': 'contract harness', 'what': 'gcc cannot compile the instruction harness', 'detail': e[-600:]})
        return
    rc, o, e = sh([exe], timeout=300)
    lines = [l for l in o.splitlines() if l.strip()]
    if rc != 0 or not lines:
        corr.disagreements.append({'kind': 'contract harness', 'what': f'instruction harness failed rc={rc}', 'detail': e[-300:]})
        return
    lines += ['two63 32 1593835520', 'two63 64 4890909195324358656']
    # the rounding function itself, against an independent implementation
    for _ in range(4000 if ctx.thorough else 400):
        p = rng.choice([24, 53, 64])
        n = rng.getrandbits(rng.randrange(1, 66))
        if rng.random() < 0.4:
            k = n.bit_length() - p
            if k > 0:
                n = (n >> k << k) | (1 << (k - 1)) | (rng.getrandbits(1) if rng.random() < 0.5 else 0)
        lines.append(f'roundnat {p} {n} {py_round_nat(p, n)}')
    res = ctx.driver('contract', '\n'.join(lines) + '\n').splitlines()
    if len(res) != len(lines):
        corr.disagreements.append({'kind': 'contract harness', 'what': f'driver answered {len(res)} lines for {len(lines)}'})
        return
    for l, r in zip(lines, res):
        corr.evaluations += 1
        corr.count('contract:' + l.split()[0])
        corr.nontrivial.add('contract ' + l)
        if r != 'ok':
            corr.disagreements.append({'kind': 'FpuSpec contract vs CPU',
                                       'what': f'the host CPU does not satisfy the contract on `{l}`: driver says `{r}`'})
            return
    corr.sample({'contract': {'observed pairs': len(lines), 'example': lines[3] if len(lines) > 3 else None}})


# -------------------------------------------------------------------------------------------------- more contexts

def run_incdec(ctx, corr):
    """x++ x-- ++x --x on float, double, long double objects (non-atomic, not bit-fields)"""
    values = {}
    for t in O.FTYS:
        vs = op_values(ctx, t)
        for x in (Fraction(1, 10), pow2(FMT[t]['p']), pow2(FMT[t]['p']) - 1, pow2(FMT[t]['p'] - 1), Fraction(1, 3), pow2(-30), Fraction(10) ** 30):
            for s in (0, 1):
                b = round_bits(t, s, x)
                if b not in vs:
                    vs.append(b)
        values[t] = vs
    text, cases = O.incdec_program(values)
    b = Batch(ctx, corr, 'incdec', text, cases)
    if not b.ok:
        return
    nv = 0
    for key, (t, name, which, i) in cases.items():
        v = values[t][i]
        corr.evaluations += 1
        corr.count(f'incdec:{name}')
        g, c = b.gcc.get(key), b.cc.get(key)
        if g is None:
            corr.disagreements.append({'kind': 'oracle harness', 'what': f'gcc binary printed nothing for {key}'})
            return
        # spec: the value of x++ is the old value; the object holds fl(x +- 1)
        d = decode(t, v)
        if d[0] == 'fin':
            one = 1 if 'inc' in name else -1
            x = -d[2] if d[1] else d[2]
            new = x + one
            if new == 0:
                newbits = pack(t, 0, 0, 0)
            else:
                newbits = round_bits(t, 1 if new < 0 else 0, abs(new))
            want = v if (which == 'val' and name.startswith('post')) else newbits
            if O.int_to_hex(want, O.nbytes(t)) != g[1]:
                corr.disagreements.append({'kind': 'spec vs gcc', 'what': f'{t} {name} {which} of {v:#x}: python spec {want:#x}, gcc {g[1]}'})
                return
        corr.nontrivial.add(f'incdec {t} {name} {which} {v:x}')
        if c is None or c[1] != g[1]:
            corr.count(f'mismatch:incdec {t}.{name}.{which}')
            if nv < MAXV:
                nv += 1
                violation(corr, f'{name} on a {O.CNAME[t]} object holding {describe(t, v)}: ' +
                          ('value of the expression' if which == 'val' else 'stored value') + ' differs',
                          O.incdec_minimal(t, name, which, v), g[1], c[1] if c else 'no output')
    corr.sample({'inc/dec': {'operands per type': len(values['f32']), 'forms': ['x++', 'x--', '++x', '--x']}})


def run_chains(ctx, corr):
    """chains of 2-4 conversions, explicit and implicit, executed (checklib/c02_chain.py)"""
    CH.run_chain_oracle(ctx, corr, compile_run, O.parse_output, violation, describe)


def run_extras(ctx, corr):
    """compound assignment with mixed types, default argument promotions, prototypes, static initialisers with conversions,
    bit-field targets, sizeof of mixed expressions, NaN in every relational operator: one fixed program"""
    oc, og, errs = compile_run(ctx, 'extras', O.EXTRAS_C)
    if errs:
        for e in errs:
            if e.startswith('gcc:'):
                corr.disagreements.append({'kind': 'oracle harness', 'what': 'gcc failed on the fixed program', 'detail': e})
            else:
                corr.violations.append({'what': 'chibicc fails on the fixed floating-point program', 'input': O.EXTRAS_C,
                                        'expected': 'compiles and runs', 'got': e})
        return
    pg, pc = O.parse_output(og), O.parse_output(oc)
    for key, g in pg.items():
        corr.evaluations += 1
        corr.count('extras')
        corr.nontrivial.add('extras ' + key)
        c = pc.get(key)
        if c != g:
            name = key.split()[0]
            corr.count('mismatch:extras ' + name)
            line = next((l for l in O.EXTRAS_C.splitlines() if f'pb("{name}"' in l), '')
            violation(corr, f'fixed program, case `{name}`: different bytes', O.EXTRAS_C, g[1], c[1] if c else 'no output',
                      case_line=line.strip())
    corr.sample({'fixed program': {'cases': len(pg)}})


# -------------------------------------------------------------------------------------------------- plugin entry points

def correspond(ctx, corr):
    corr.rule = ('end-to-end oracle: generated C programs (operands are bit patterns copied into volatile objects; results dumped as raw '
                 'object bytes) compiled by the snapshot chibicc and by gcc -std=c11 -O0, both run, bytes compared; gcc is also compared '
                 'with exact rational arithmetic (python) wherever C11/IEC 60559 fix the value.  Conversions: all 12x12 arithmetic type '
                 'pairs on the boundary battery of the property text (+ seeded random), undefined floating->integer cases dropped and '
                 'counted.  Operators: + - * / == != < <= > >= on every ordered pair of the boundary operands, for float, double and '
                 'long double.  Truth tests: 18 contexts x every boundary operand.  Mixed-type operands: every type pair with a floating '
                 'side.  Constants: decimal/hex spellings x suffixes, halfway cases and their neighbours (rounded once: a value that rounding '
                 'through long double would change is counted).  Unsigned long <-> floating at and above 2^63: sticky-bit / half-way patterns for '
                 'float and double, the neighbours of 2^63 and 2^64 in each format, fractions, negatives and NaN (undefined cases dropped and '
                 'counted).  Chains: every round trip T -> F -> T over the 12 types and seeded chains of 2-4 conversions, the last one '
                 'explicit or implicit (initialisation, return, argument passing), operands of ?: converted to the common type, compound '
                 'assignment with a floating constant; per link the values just above 2^24 / 2^53 / 2^63, 2^64-1, negatives, sticky-bit '
                 'patterns; spec = composition of the single conversions (a NaN through floating -> floating links: only NaN-ness compared).  '
                 'Text legs: chibicc -S of one-operation functions and of functions with chains of casts against the Lean model.  non-trivial = some operand is '
                 'not a non-negative integer below 2^15 (the kind of value the suite samples); distinct = by (operation, types, operand bits).')
    run_text_tie(ctx, corr)
    CH.run_chain_tie(ctx, corr)
    run_contracts(ctx, corr)
    run_literal_model(ctx, corr)
    run_conversions(ctx, corr)
    run_operators(ctx, corr)
    run_contexts(ctx, corr)
    run_mixed(ctx, corr)
    run_chains(ctx, corr)
    run_constants(ctx, corr)
    run_incdec(ctx, corr)
    run_extras(ctx, corr)


def search(ctx, broken, corr):
    """a proof or the tie broke and the standard run saw no violation: run the end-to-end oracle with the thorough batteries"""
    was = ctx.thorough
    ctx.thorough = True
    try:
        for leg in (run_chains, run_conversions, run_operators, run_contexts, run_mixed, run_constants, run_incdec):
            c2 = Corr()
            leg(ctx, c2)
            for v in c2.violations:
                if not v.get('known_id'):
                    return v
    finally:
        ctx.thorough = was
    return None


def replay(ctx, corr, path):
    payload = json.load(open(path))
    prog = payload.get('input')
    if not prog or '#include' not in prog:
        corr.extra['replay'] = 'replay file carries no program'
        return
    oc, og, errs = compile_run(ctx, 'replay', prog)
    corr.evaluations = 1
    print('replay: chibicc', (oc or '').strip(), '| gcc', (og or '').strip(), '|', errs or '')
    if (errs or oc != og) and payload.get('known_id'):
        corr.known_hits.append(payload['known_id'])
    if errs or oc != og:
        corr.violations.append({'what': payload.get('what', 'replayed program still differs'), 'input': prog, 'expected': (og or '').strip(),
                                'got': (oc or '').strip(), **({'known_id': payload['known_id']} if payload.get('known_id') else {})})


MANIFEST = {
    'level_text': 'Lean 4 theorems, for every FPU meeting the Intel-SDM contracts of Spec/FpuSpec.lean (abstract operations; the '
                  'contracts are validated on the host CPU on every run), every machine state and every operand value: C02_rank '
                  '(get_common_type = C11 6.3.1.8 on all 12x12 arithmetic pairs, regenerated table), C02_select (FULL strength: the '
                  'cast-table cell / _Bool sequence selected for each of the 63 (from,to) pairs with a floating side implements the C11 '
                  'conversion for ALL values: right instruction, width, signedness, slot, re-extension, control word restored; unsigned long '
                  '-> float/double correctly rounded for all 2^64 values by the halve-with-sticky-bit sequences, float/double/long double -> '
                  'unsigned long exact truncation for every x with 0 <= trunc x < 2^64; the two unsigned long <-> long double cells under the '
                  'ABI x87 precision), C02_u64f32 / C02_u64f64 / C02_u64f80 / C02_fp_to_u64 (those cells spelled out), C02_flags / '
                  'C02_flags_truth / C02_compare_* / C02_truth (setcc/jcc combinations give the IEC 60559 answers incl. NaN and -0.0 on the '
                  'SSE, x87 and truth-test paths), C02_arith (operand order), C02_neg (only the sign bit flips), C02_const (immediates = '
                  'datum of the constant converted to the node type), C02_const_parser / C02_const_literal / C02_const_rounded (over the '
                  'suffix ladder regenerated from tokenize.c: each suffix keeps the result of the libc function of its own type, the '
                  'emitted code materialises exactly that datum, i.e. the spelling rounded once), and without any FPU contract: '
                  'C02_cast_link (cast(from,to) implements the C11 conversion for ALL 144 pairs: the 81 integer-only cells by C01_cast '
                  'transported to the floating machine), C02_cast_chain (gen_expr on (Tn)...(T1)e prints one cast() per ND_CAST node and the '
                  'code computes the composition of the C11 conversions in order, for chains of any length over the 12 arithmetic types, '
                  'explicit or inserted by parse.c; precision-control hypothesis stated once), C02_roundtrip_rounds / '
                  'C02_roundtrip_not_identity ((T)(float)e is e rounded to 24 bits, (T)(double)e to 53; kernel-checked: 16777217 -> 16777216, '
                  '2^53+1 -> 2^53, the operand code alone does not compute it), C02_binary_code (for all 10 operators x 63 type pairs with a '
                  'floating common type each operand is converted by cast(its type, usualArith a b) and the operator of the common type is '
                  'applied, operands of > >= exchanged), C02_binary_value_sse / C02_binary_value_x87 (the value of a OP b in both evaluation '
                  'orders of gen_expr: (c)x OP (c)y with the left operand first; the right operand survives pushf/popf because conversions to '
                  'float/double use registers only), and without any FPU contract: '
                  'C02_ieee_int_roundtrip / C02_ieee_int_exact / C02_ieee_trunc_back (on the IEEE/x87 bit layouts alone: the encoding of an integer decodes to the integer rounded to 24/53/64 bits, exactly for |n| <= 2^24/2^53/2^64, and truncation gives the integer back).  '
                  'Tied to the code every run: table translators, text equality of the hand model with chibicc -S (~880 one-operation '
                  'functions + ~3,200 functions with chains of casts), the literal model against the tokenizer, and an end-to-end oracle chibicc vs gcc vs exact rational arithmetic '
                  'on ~120k (quick) generated cases over the boundary classes of the property, including chains of 2-4 conversions, explicit and implicit.',
    'level_note': 'PARTIAL BY CONSTRUCTION only in this sense: numeric results are relative to FpuSpec (validated on hardware, not proved) '
                  'and to the libc contract for strtof/strtod/strtold. No _Statement is left open and there is no known finding: the three '
                  'former findings (unsigned long -> float at >= 2^63, floating -> unsigned long at >= 2^63, literals rounded twice through '
                  'strtold) were repaired in /repo; Findings/C02.lean keeps kernel-checked witnesses that the OLD formulas were wrong. Not '
                  'modelled in Lean: where strtold stops scanning, eval_double, parse.c rewritings of op= / ++ / --, variadic promotions, '
                  'argument passing around a cast chain, the loads of operands (lea sym(%rip)): these are covered by the gcc oracle only.',
    'technique': 'Lean 4 proof over abstract FPU contracts: kernel evaluation of the generated instruction strings on a machine model '
                 '(incl. forward branches), BitVec/Int/Nat arithmetic for the integer side and for round-to-odd, whole-table decide; '
                 'translator-regenerated tables; asm-text correspondence; three-way differential oracle (chibicc, gcc, exact rational '
                 'spec) and CPU validation of the contracts',
    'design_ref': 'DESIGN.md section 6, C02',
}
