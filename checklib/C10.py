"""C10 - conditional inclusion and #include resolution select exactly the right text.

Three legs on every run (DESIGN 3.3):
  model <-> code   drv_c10 (Lean models of preprocess2's conditional arms, the skip functions, include search, include_file's
                   shortcuts, main.c's option handling) against `chibicc -E` on generated conditional nests and include graphs;
  spec  <-> gcc    Spec.groups (C11 6.10.1 grammar tree + evaluation, C11 #if arithmetic) against `gcc -E -P` on the valid inputs;
  code  <-> gcc    `chibicc -E` against `gcc -E -P` directly: a mismatch on a valid input is a VIOLATION of the property.
The translator tools/extract/c10incl.py additionally pins the text of every arm the hand model transcribes."""
import os, json, hashlib, shutil
from .framework import *

PROPERTY = 'C10'
GEN_MODULES = ['c10incl', 'c10ifparse']
LEAN_TARGETS = ['ChibiVerif.Props.C10', 'ChibiVerif.Props.C10IfParse', 'ChibiVerif.Props.C10IfParseComplete', 'ChibiVerif.Findings.C10', 'ChibiVerif.Findings.C10IfParse']
PROPS_FILES = ['ChibiVerif/Props/C10.lean', 'ChibiVerif/Props/C10IfParse.lean', 'ChibiVerif/Props/C10IfParseComplete.lean']
NEEDS_HOOKS = False
KNOWN_SHIFT = 'C10-ppif-int-result-shift'
TRUSTED_BASE = [
    'Lean 4.33.0 kernel; axioms admitted: propext, Classical.choice, Quot.sound (audited per theorem on every run)',
    'hand-written models lean/ChibiVerif/Model/{CondIncl,IncludeSearch,IncludeDepth,IncludeOperand,PPExpr}.lean of preprocess.c / main.c; tied (a) by the translator '
    'tools/extract/c10incl.py, which compares the text of every transcribed arm (the six conditional arms of preprocess2, push_cond_incl, '
    'both skip loops, skip_line, is_hash, is_null_directive, detect_include_guard, include_file (incl. the position of its nesting test and the '
    'incl_depth bookkeeping), search_include_paths, search_include_next, read_include_filename, join_tokens, copy_line, file_macro, the object-like '
    'arm of expand_macro, the #include/#include_next/#pragma once arms, parse_args\' -I/-D/-U/-include/-idirafter arms, the cc1 branch of main, '
    'the head of cc1) with the shape the model was written from and regenerates the include-path order, default directories, directive-name sets '
    'and the nesting limit, and '
    '(b) by running chibicc -E on generated inputs against the model (marker streams and diagnostic classes)',
    'the abstraction of a source file to lines (checklib/C10.py renders each generated line both as C text and as a model line); '
    'macro bodies in #if are restricted to parenthesised expressions / literals so that token-level and tree-level substitution agree',
    'the specification lean/ChibiVerif/Spec/CondInclSpec.lean (C11 6.10p1 grammar, 6.10.1p6) and the value layer of Model/PPExpr.lean '
    '(6.10.1p4, 6.6, 6.5), validated against gcc 12 -E -P on every valid generated input',
    'gcc 12 as the independent implementation of C11 6.10.1/6.10.2 and of the documented -I / -isystem / -idirafter / #include_next order',
    'parse.c const_expr/eval (the arithmetic of #if) is modelled only at the level of values (property C07 owns that code)',
]
ASSUMPTIONS = [
    'file names never end in "/", include directories are not nested in one another (search_include_next identifies the directory of the '
    'current file by path prefix), no two spellings of a directory on one command line',
    'the macro table behaves as a last-write-wins dictionary (property C17)',
    'controlling expressions whose behaviour C11 leaves undefined (signed overflow, shift count out of range) and decimal literals '
    'above INTMAX_MAX without u suffix are not generated (counted as skipped_ub)',
    '#pragma once identifies files by path spelling in chibicc and by file identity in gcc: inputs that reach a #pragma once file '
    'through two spellings are compared with the model only',
    'the file system of the model is a function path -> content; the driver instantiates it with the generated tree, paths normalised the way '
    'the kernel resolves ./.. and empty components, and open/stat failing for paths of PATH_MAX = 4096 bytes or more (reached by #include __FILE__, '
    'whose spelling roughly doubles per level)',
    'the macro expander applied to #include operands is a parameter of the model (every theorem is for all expanders); the driver instantiates it '
    'with object-like expansion + __FILE__ (IncludeOperand.expandObj); function-like macros, # and ## in #include operands are not generated',
    'gcc counts the main file as nesting depth 1 and tests the depth before its multiple-include optimisation: the comparison at the nesting limit '
    'runs gcc with -fmax-include-depth=201; a guarded or #pragma-once header named again at depth 200 (chibicc: shortcut first, accepted; gcc: '
    'refused) is counted, not reported; 200 >= the 15 levels of C11 5.2.4.1',
    'a header that holds #include_next is reached through the search path only (what "the directory where the current file was found" means for '
    'a file found beside its includer differs between implementations)',
]

MARK = re.compile(r'\bmk_[A-Za-z0-9_]+\b')
M64 = (1 << 64) - 1

# ============================================================================ expressions

UN = {'neg': '-', 'plus': '+', 'bnot': '~', 'lnot': '!'}
BIN = {'mul': ('*', 10), 'div': ('/', 10), 'mod': ('%', 10), 'add': ('+', 9), 'sub': ('-', 9), 'shl': ('<<', 8), 'shr': ('>>', 8),
       'lt': ('<', 7), 'le': ('<=', 7), 'gt': ('>', 7), 'ge': ('>=', 7), 'eq': ('==', 6), 'ne': ('!=', 6),
       'band': ('&', 5), 'bxor': ('^', 4), 'bor': ('|', 3), 'land': ('&&', 2), 'lor': ('||', 1)}
CMP = ('lt', 'le', 'gt', 'ge', 'eq', 'ne', 'land', 'lor')
KEYWORD_IDENTS = ['int', 'while', 'true', 'false', 'sizeof_x', 'return', 'unsigned', 'zzz_undefined']


class Undefined(Exception):
    """C11 leaves the behaviour undefined / the expression violates a constraint we do not want to generate"""


class DivZero(Exception):
    pass


def lit(value, text, uns):
    return ('n', value & M64, text, uns)


SIMPLE_ESC = {'n': 10, 't': 9, '0': 0, '\\': 92, "'": 39, '"': 34, 'a': 7, 'b': 8, 'f': 12, 'r': 13, 'v': 11, '?': 63}
CHAR_PLAIN = [c for c in map(chr, range(32, 127)) if c not in "'\\"]


def mk_char_lit(rng, prefix=None, code=None):
    """a character constant (6.4.4.4) with prefix none / L / u / U and a random spelling of its one character (the letter itself,
    a simple, octal or hexadecimal escape).  In #if it has the value and the signedness of its type (6.10.1p4): plain = char
    (signed here), L = wchar_t (int), u = char16_t, U = char32_t (both unsigned) -- whatever letters the spelling contains."""
    if prefix is None:
        prefix = rng.choice(['', '', '', 'L', 'u', 'U'])
    bits = {'': 8, 'L': 32, 'u': 16, 'U': 32}[prefix]
    signed = prefix in ('', 'L')
    if code is None:
        r = rng.random()
        if r < 0.45:
            code = ord(rng.choice(['u', 'U', 'l', 'L', 'a', 'z', 'A', '0', '9', ' ', '~', '!', 'x']))
        elif r < 0.6:
            code = rng.choice(list(SIMPLE_ESC.values()))
        elif r < 0.8:
            code = rng.choice([0, 1, 0x7f, 0x80, 0xff, (1 << (bits - 1)) - 1, 1 << (bits - 1), (1 << bits) - 1, rng.randrange(0, 1 << bits)])
        else:
            code = rng.randrange(0, 256)
    code &= (1 << bits) - 1
    forms = []
    if 32 <= code < 127 and chr(code) in CHAR_PLAIN:
        forms += [chr(code)] * 3
    forms += ['\\' + k for k, v in SIMPLE_ESC.items() if v == code]
    if code < 0o1000 and code < (1 << bits):
        forms.append('\\%o' % code)
        if code < 8:
            forms.append('\\%03o' % code)
    forms.append(rng.choice(['\\x%x', '\\x%X', '\\x0%x']) % code)
    text = prefix + "'" + rng.choice(forms) + "'"
    value = code - (1 << bits) if signed and code >= (1 << (bits - 1)) else code
    return lit(value, text, not signed)


def mk_lit(rng, value=None):
    """an integer constant with a random spelling; returns a node whose type follows 6.4.4.1 at intmax_t/uintmax_t rank"""
    if value is None and rng.random() < 0.18:
        return mk_char_lit(rng)
    if value is None:
        value = rng.choice([0, 1, 2, 3, 5, 7, 31, 32, 63, 64, 100, 255, 0x7fffffff, 0x80000000, 0xffffffff, 0x100000000,
                            0x7fffffffffffffff, 0x8000000000000000, 0xffffffffffffffff, rng.randrange(0, 1 << 16),
                            rng.randrange(0, 1 << 64)])
    base = rng.choice(['d', 'd', 'x', 'o'])
    suf = rng.choice(['', '', '', 'u', 'U', 'l', 'L', 'ul', 'UL', 'lu', 'LU', 'll', 'LL', 'ull', 'ULL', 'llu', 'LLU', 'uLL', 'Ull'])
    has_u = 'u' in suf.lower()
    if base == 'd' and not has_u and value >= (1 << 63):
        suf, has_u = 'u' + suf, True          # a decimal constant above INTMAX_MAX without u has no type (6.4.4.1p6)
    text = {'d': str(value), 'x': rng.choice(['0x%x', '0X%X']) % value, 'o': '0%o' % value if value else '0'}[base] + suf
    uns = has_u or (base != 'd' and value >= (1 << 63))
    return lit(value, text, uns)


def gen_expr(rng, depth, names, allow_div0=False, use_defined=True):
    """random controlling expression; names = identifiers that may appear (macros and non-macros).
    use_defined=False for macro bodies: `defined` produced by macro replacement is undefined behaviour (6.10.1p4)."""
    if depth <= 0 or rng.random() < 0.22:
        r = rng.random()
        if r < 0.55:
            return mk_lit(rng, rng.choice([None, rng.randrange(0, 6)]))
        if r < 0.75 and names:
            return ('i', rng.choice(names))
        if r < 0.9 and names and use_defined:
            return ('d', rng.choice(names), rng.choice(['p', 's', 'ps']))
        return ('i', rng.choice(KEYWORD_IDENTS))
    r = rng.random()
    sub = lambda: gen_expr(rng, depth - 1, names, allow_div0, use_defined)
    if r < 0.15:
        return ('u', rng.choice(list(UN)), sub())
    if r < 0.27:
        return ('c', sub(), sub(), sub())
    op = rng.choice(list(BIN))
    a = sub()
    if op in ('shl', 'shr'):
        b = mk_lit(rng, rng.choice([0, 1, 2, 5, 31, 32, 33, 40, 62, 63]))
    elif op in ('div', 'mod') and not allow_div0 and rng.random() < 0.8:
        b = mk_lit(rng, rng.choice([1, 2, 3, 7, 0xffffffff, 0xffffffffffffffff]))
    else:
        b = sub()
    return ('b', op, a, b)


def c_text(e, rng=None, prec=0):
    """C spelling with the parentheses precedence requires (plus random redundant ones)"""
    k = e[0]
    if k == 'n':
        return e[2]
    if k == 'i':
        return e[1]
    if k == 'd':
        return {'p': f'defined({e[1]})', 's': f'defined {e[1]}', 'ps': f'defined ( {e[1]} )'}[e[2]]
    if k == 'u':
        s = UN[e[1]] + ' ' + c_text(e[2], rng, 11)       # the blank keeps - - and + + apart
        myp = 11
    elif k == 'b':
        sym, p = BIN[e[1]]
        s = c_text(e[2], rng, p) + ' ' + sym + ' ' + c_text(e[3], rng, p + 1)
        myp = p
    else:
        s = c_text(e[1], rng, 1) + ' ? ' + c_text(e[2], rng, 0) + ' : ' + c_text(e[3], rng, 0)
        myp = 0
        if prec > 0:
            return '(' + s + ')'
    if myp < prec or (rng is not None and rng.random() < 0.1):
        return '(' + s + ')'
    return s


def p_text(e):
    """prefix form read by drv_c10"""
    k = e[0]
    if k == 'n':
        return f'n {e[1]} {"u" if e[3] else "s"}'
    if k == 'i':
        return f'i {e[1]}'
    if k == 'd':
        return f'd {e[1]}'
    if k == 'u':
        return f'u {e[1]} {p_text(e[2])}'
    if k == 'b':
        return f'b {e[1]} {p_text(e[2])} {p_text(e[3])}'
    return f'c {p_text(e[1])} {p_text(e[2])} {p_text(e[3])}'


def to_int(bits, uns):
    return bits if uns or bits < (1 << 63) else bits - (1 << 64)


def static_uns(e, defs, hide=()):
    k = e[0]
    if k == 'n':
        return e[3]
    if k == 'i':
        b = defs.get(e[1])
        return static_uns(b, defs, hide + (e[1],)) if (b is not None and e[1] in defs and e[1] not in hide) else False
    if k == 'd':
        return False
    if k == 'u':
        return False if e[1] == 'lnot' else static_uns(e[2], defs, hide)
    if k == 'b':
        if e[1] in CMP:
            return False
        if e[1] in ('shl', 'shr'):
            return static_uns(e[2], defs, hide)
        return static_uns(e[2], defs, hide) or static_uns(e[3], defs, hide)
    return static_uns(e[2], defs, hide) or static_uns(e[3], defs, hide)


def mentions_non_expr(e, defs, hide=()):
    k = e[0]
    if k == 'i':
        n = e[1]
        if n in hide or n not in defs:
            return False
        return True if defs[n] is None else mentions_non_expr(defs[n], defs, hide + (n,))
    if k in ('n', 'd'):
        return False
    return any(mentions_non_expr(x, defs, hide) for x in e[1:] if isinstance(x, tuple))


def py_eval(e, defs, hide=()):
    """(bits, unsigned) by C11 6.10.1p4; raises Undefined / DivZero.  Used only to steer the generators."""
    if not hide and mentions_non_expr(e, defs):
        raise Undefined('macro without expression body')
    k = e[0]
    if k == 'n':
        return e[1], e[3]
    if k == 'i':
        n = e[1]
        if n in hide or n not in defs:
            return 0, False
        if defs[n] is None:
            raise Undefined('macro without expression body')
        return py_eval(defs[n], defs, hide + (n,))
    if k == 'd':
        return (1 if e[1] in defs else 0), False
    if k == 'u':
        v, u = py_eval(e[2], defs, hide)
        if e[1] == 'plus':
            return v, u
        if e[1] == 'neg':
            if not u and to_int(v, u) == -(1 << 63):
                raise Undefined('-INTMAX_MIN')
            return (-v) & M64, u
        if e[1] == 'bnot':
            return (~v) & M64, u
        return (0 if v else 1), False
    if k == 'c':
        c, _ = py_eval(e[1], defs, hide)
        u = static_uns(e[2], defs, hide) or static_uns(e[3], defs, hide)
        v, _ = py_eval(e[2] if c else e[3], defs, hide)
        return v, u
    op = e[1]
    a, ua = py_eval(e[2], defs, hide)
    if op == 'land':
        if not a:
            return 0, False
        b, _ = py_eval(e[3], defs, hide)
        return (1 if b else 0), False
    if op == 'lor':
        if a:
            return 1, False
        b, _ = py_eval(e[3], defs, hide)
        return (1 if b else 0), False
    b, ub = py_eval(e[3], defs, hide)
    if op in ('shl', 'shr'):
        n = to_int(b, ub)
        if n < 0 or n >= 64:
            raise Undefined('shift count')
        if op == 'shl':
            if ua:
                return (a << n) & M64, True
            if to_int(a, False) < 0 or (to_int(a, False) << n) >= (1 << 63):
                raise Undefined('signed left shift')
            return (a << n) & M64, False
        if ua:
            return a >> n, True
        return (to_int(a, False) >> n) & M64, False
    u = ua or ub
    ai, bi = to_int(a, u), to_int(b, u)
    def chk(r):
        if not u and not (-(1 << 63) <= r < (1 << 63)):
            raise Undefined('signed overflow')
        return r & M64, u
    if op == 'mul':
        return chk(ai * bi)
    if op == 'add':
        return chk(ai + bi)
    if op == 'sub':
        return chk(ai - bi)
    if op in ('div', 'mod'):
        if bi == 0:
            raise DivZero()
        q = abs(ai) // abs(bi)
        if (ai < 0) != (bi < 0):
            q = -q
        if not u and not (-(1 << 63) <= q < (1 << 63)):
            raise Undefined('INTMAX_MIN / -1')
        return ((q if op == 'div' else ai - q * bi) & M64), u
    if op == 'band':
        return a & b, u
    if op == 'bxor':
        return a ^ b, u
    if op == 'bor':
        return a | b, u
    r = {'lt': ai < bi, 'le': ai <= bi, 'gt': ai > bi, 'ge': ai >= bi, 'eq': a == b, 'ne': a != b}[op]
    return (1 if r else 0), False


def gen_defined_expr(rng, depth, names, defs, use_defined=True):
    """an expression C11 gives a value under `defs` (returns (expr, truth))"""
    for _ in range(40):
        e = gen_expr(rng, depth, names, use_defined=use_defined)
        try:
            v, _ = py_eval(e, defs)
            return e, bool(v)
        except (Undefined, DivZero):
            continue
    e = mk_lit(rng, rng.randrange(0, 2))
    return e, bool(e[1])


# ============================================================================ lines

class Ln:
    """one source line: C text and its model line"""
    __slots__ = ('c', 'p')
    def __init__(self, c, p):
        self.c, self.p = c, p


def hashdir(rng, name):
    return rng.choice(['#', '#', '#', '# ', '  #', '#\t', ' # ']) + name


GARBAGE = ['junk', 'X Y', '1 +', 'trailing tokens', '/* c */ t', '( )']


def extra(rng, p=0.3):
    return (' ' + rng.choice(GARBAGE), 1) if rng.random() < p else ('', 0)


class NestGen:
    """generates one translation unit of nested conditionals, tracking the macro table of the *active* path so that
    evaluated conditions are well defined; everything in skipped groups is unconstrained."""
    def __init__(self, rng, valid=True, max_depth=5):
        self.rng, self.valid, self.max_depth = rng, valid, max_depth
        self.names = ['A', 'B', 'C', 'DD', 'E1', 'F_f']
        self.lines = []
        self.k = 0
        self.feat = set()

    def marker(self):
        self.k += 1
        return f'mk_{self.k}'

    def text(self):
        rng = self.rng
        m = self.marker()
        r = rng.random()
        if r < 0.06:
            # a null directive followed by a text line that begins with a directive name: still text
            w = rng.choice(['if', 'else', 'endif', 'elif', 'define', 'ifdef', 'include', 'undef'])
            self.lines.append(Ln(rng.choice(['#', ' # ', '#  ']), 'other'))
            self.lines.append(Ln(f'{w} {m} ;', f't {w} {m} ;'))
            self.feat.add('null-then-name')
        elif r < 0.12:
            self.lines.append(Ln(f'{m} # if 0', f't {m} # if 0'))          # '#' not at the beginning of a line
        else:
            self.lines.append(Ln(m, f't {m}'))

    def plain(self, active, defs):
        rng = self.rng
        r = rng.random()
        if r < 0.5:
            self.text()
        elif r < 0.7:
            n = rng.choice(self.names)
            r2 = rng.random()
            if r2 < 0.6:
                body = mk_lit(rng)
                btxt = body[2]
            elif r2 < 0.85:
                body, _ = gen_defined_expr(rng, 2, [x for x in self.names if x != n], defs if active else {}, use_defined=False)
                btxt = '(' + c_text(body) + ')'
            else:
                body, btxt = None, rng.choice(['', '{ }', 'struct s'])
            self.lines.append(Ln(f'{hashdir(rng, "define")} {n} {btxt}', f'define {n} {p_text(body) if body is not None else "-"}'))
            if active:
                defs[n] = body
        elif r < 0.85:
            n = rng.choice(self.names)
            ex, f = extra(rng)
            self.lines.append(Ln(f'{hashdir(rng, "undef")} {n}{ex}', f'undef {n} {f}'))
            if f:
                self.feat.add('extra-undef')
            if active:
                defs.pop(n, None)
        elif r < 0.93:
            self.lines.append(Ln(rng.choice(['#', '#pragma chv_p q', '# pragma chv_r', '#line 77']), 'other'))
        else:
            if not active:
                r3 = rng.random()
                if r3 < 0.5:
                    self.lines.append(Ln('#error not reached', 'error'))
                    self.feat.add('error-skipped')
                elif r3 < 0.8:
                    self.lines.append(Ln(rng.choice(['#chv_unknown_directive x', '#define 3', '#undef 1']), 'bad'))
                    self.feat.add('bad-directive-skipped')
                else:
                    # #ifdef without a macro name in a skipped group still opens a nested section
                    self.lines.append(Ln(rng.choice(['#ifdef', '#ifndef', '#ifdef 1', '# ifndef "s"']), 'ifdef-noname'))
                    self.text()
                    self.lines.append(Ln('#endif', 'endif 0'))
                    self.feat.add('ifdef-noname-skipped')
            else:
                self.text()

    def cond_for(self, evaluated, defs, want=None):
        """(expr, truth) - evaluated conditions are well defined; unevaluated ones may divide by zero etc."""
        rng = self.rng
        if not evaluated:
            e = gen_expr(rng, rng.randrange(0, 4), self.names, allow_div0=True)
            if rng.random() < 0.3:
                e = ('b', 'div', mk_lit(rng, 1), mk_lit(rng, 0))
                self.feat.add('unevaluated-div0')
            return e, None
        for _ in range(30):
            e, t = gen_defined_expr(rng, rng.randrange(0, 4), self.names, defs)
            if want is None or t == want:
                return e, t
        e = mk_lit(rng, 1 if want else 0)
        return e, bool(e[1])

    def section(self, depth, active, defs):
        rng = self.rng
        kind = rng.choice(['if', 'if', 'ifdef', 'ifndef'])
        if kind == 'if':
            e, t = self.cond_for(active, defs, rng.choice([None, True, False]))
            self.lines.append(Ln(f'{hashdir(rng, "if")} {c_text(e, rng)}', f'if {p_text(e)}'))
        else:
            n = rng.choice(self.names)
            ex, f = extra(rng, 0.2)
            self.lines.append(Ln(f'{hashdir(rng, kind)} {n}{ex}', f'{kind} {n} {f}'))
            if f:
                self.feat.add('extra-ifdef')
            t = (n in defs) == (kind == 'ifdef')
        taken = bool(t) if active else False
        self.group(depth + 1, active and taken, defs)
        for _ in range(rng.choice([0, 0, 1, 1, 2, 3])):
            evaluated = active and not taken
            e, t = self.cond_for(evaluated, defs, rng.choice([None, True, False]))
            self.lines.append(Ln(f'{hashdir(rng, "elif")} {c_text(e, rng)}', f'elif {p_text(e)}'))
            self.feat.add('elif' if evaluated else ('elif-after-taken' if active else 'elif-skipped'))
            now = evaluated and bool(t)
            self.group(depth + 1, now, defs)
            taken = taken or now
        if rng.random() < 0.6:
            ex, f = extra(rng)
            self.lines.append(Ln(f'{hashdir(rng, "else")}{ex}', f'else {f}'))
            if f:
                self.feat.add('extra-else')
            self.group(depth + 1, active and not taken, defs)
        ex, f = extra(rng)
        self.lines.append(Ln(f'{hashdir(rng, "endif")}{ex}', f'endif {f}'))
        if f:
            self.feat.add('extra-endif')

    def group(self, depth, active, defs):
        rng = self.rng
        for _ in range(rng.choice([0, 1, 1, 2, 3])):
            if depth < self.max_depth and rng.random() < 0.35:
                self.section(depth, active, defs)
                self.feat.add(f'depth{depth + 1}')
            else:
                self.plain(active, defs)

    def unit(self):
        rng = self.rng
        defs = {}
        for _ in range(rng.choice([2, 3, 4, 6])):
            if rng.random() < 0.6:
                self.section(0, True, defs)
            else:
                self.plain(True, defs)
        if not self.valid:
            self.break_it()
        for n in self.names:                                  # probes: final macro-definedness state
            self.lines.append(Ln(f'#ifdef {n}', f'ifdef {n} 0'))
            self.lines.append(Ln(f'mk_def_{n}', f't mk_def_{n}'))
            self.lines.append(Ln('#endif', 'endif 0'))
        return self.lines

    def break_it(self):
        """make the stream ill-formed somewhere"""
        rng = self.rng
        how = rng.choice(['stray-else', 'stray-elif', 'stray-endif', 'unterminated', 'else-else', 'elif-after-else', 'error',
                          'skipped-else-else', 'unterminated-skipped', 'div0', 'bad-directive', 'ifdef-noname'])
        self.feat.add('malformed:' + how)
        L = self.lines
        pos = rng.randrange(0, len(L) + 1)
        if how == 'stray-else':
            L.insert(pos, Ln('#else', 'else 0'))
        elif how == 'stray-elif':
            L.insert(pos, Ln('#elif 1', 'elif n 1 s'))
        elif how == 'stray-endif':
            L.insert(pos, Ln('#endif', 'endif 0'))
        elif how == 'unterminated':
            L.insert(pos, Ln(rng.choice(['#if 1', '#if 0', '#ifdef A', '#ifndef A']),
                             None))
            c = L[pos].c
            L[pos].p = {'#if 1': 'if n 1 s', '#if 0': 'if n 0 s', '#ifdef A': 'ifdef A 0', '#ifndef A': 'ifndef A 0'}[c]
        elif how == 'else-else':
            L[pos:pos] = [Ln('#if 1', 'if n 1 s'), Ln(self.marker(), f't mk_{self.k}'), Ln('#else', 'else 0'), Ln('#else', 'else 0'), Ln('#endif', 'endif 0')]
        elif how == 'elif-after-else':
            L[pos:pos] = [Ln('#if 0', 'if n 0 s'), Ln('#else', 'else 0'), Ln(self.marker(), f't mk_{self.k}'), Ln('#elif 1', 'elif n 1 s'), Ln('#endif', 'endif 0')]
        elif how == 'error':
            L.insert(pos, Ln('#error stop here', 'error'))
        elif how == 'skipped-else-else':
            # ill-formed only inside a skipped group: directives there are looked at "only through the name"
            L[pos:pos] = [Ln('#if 0', 'if n 0 s'), Ln('#if 1', 'if n 1 s'), Ln('#else', 'else 0'), Ln('#else', 'else 0'),
                          Ln('#elif', 'elif n 0 s'), Ln('#endif', 'endif 0'), Ln('#endif', 'endif 0')]
        elif how == 'unterminated-skipped':
            L[pos:pos] = [Ln('#if 0', 'if n 0 s'), Ln('#if 1', 'if n 1 s'), Ln('#endif', 'endif 0')]
        elif how == 'bad-directive':
            # (not generated here: '#undef' / '#define' at the end of a line - chibicc takes the first token of the next line for the
            #  macro name; ill-formed input, outside this property)
            L.insert(pos, Ln(rng.choice(['#chv_unknown_directive x', '#undef 1', '#undef "s"']), 'bad'))
        elif how == 'ifdef-noname':
            L[pos:pos] = [Ln(rng.choice(['#ifdef', '#ifndef', '#ifdef 1']), 'ifdef-noname'), Ln('#endif', 'endif 0')]
        elif how == 'div0':
            L.insert(pos, Ln('#if 1 / 0', 'if b div n 1 s n 0 s'))
            L.insert(pos + 1, Ln('#endif', 'endif 0'))


# ============================================================================ running things

def classify_err(stderr):
    """class of the diagnostic chibicc died with = its last message (warnings such as skip_line's `extra token` come before)"""
    msgs = [l.split('^', 1)[1].strip() for l in stderr.splitlines() if re.match(r'\s*\^ ', l)]
    last = msgs[-1] if msgs else stderr.strip()
    if '#include nested too deeply' in last:
        # located diagnostic: "<file>:<line>: <source line>" stands two lines above the message
        locs = re.findall(r'^(\S+?):(\d+): ', stderr, re.M)
        return 'nested-too-deeply@' + (os.path.normpath(locs[-1][0]) + ':' + locs[-1][1] if locs else '?')
    for pat, cls in (('stray #elif', 'stray-elif'), ('stray #else', 'stray-else'), ('stray #endif', 'stray-endif'),
                     ('unterminated conditional directive', 'unterminated'), ('cannot open file', 'cannot-open'),
                     ('-include:', 'cannot-open'),
                     ('expected a filename', 'bad-directive'), ("expected '>'", 'bad-directive'),
                     ('division by zero', 'bad-expr'), ('no expression', 'bad-expr'), ('extra token', 'bad-expr'),
                     ('expected', 'bad-expr'), ('invalid preprocessor directive', 'bad-directive'),
                     ('macro name must be an identifier', 'bad-directive')):
        if pat in last:
            return cls
    if last == 'error':
        return 'error-directive'
    return 'other:' + last[:60]


def run_pp(cmd, cwd, timeout=20):
    """returns 'ok:<markers>' or 'err:<class>' (for chibicc) / 'err' (for gcc)"""
    rc, o, e = sh(cmd, cwd=cwd, timeout=timeout)
    if rc == 0:
        return 'ok:' + ','.join(MARK.findall(o)), e
    if rc == -9:
        return 'err:timeout', e
    return 'err:' + classify_err(e), e


def model_markers(res):
    """'ok:a b,c:NAMES' -> 'ok:a,b,c' (only marker tokens, like the extraction from the compilers' output)"""
    if res.startswith('err:'):
        return res
    body = res[3:].rsplit(':', 1)[0]
    return 'ok:' + ','.join(MARK.findall(body))


def parse_drv(line):
    d = {}
    for w in line.split(' '):
        if '=' in w:
            k, v = w.split('=', 1)
            d[k] = v
    # the marker text may contain blanks: re-split on the known keys
    m = re.match(r'model=(.*?) (spec|plain)=(.*?) region=([01]) undef=([01])$', line)
    if not m:
        return None
    return {'model': m.group(1), m.group(2): m.group(3), 'region': m.group(4) == '1', 'undef': m.group(5) == '1'}


def case_dir(ctx, name):
    d = os.path.join(ctx.scratch, name)
    shutil.rmtree(d, ignore_errors=True)
    os.makedirs(d)
    return d


def setup_bin(ctx, d):
    """d/bin/chibicc -> the snapshot binary; d/bin/include is then the first system directory"""
    os.makedirs(os.path.join(d, 'bin', 'include'), exist_ok=True)
    os.symlink(ctx.cc, os.path.join(d, 'bin', 'chibicc'))


I_SEPARATE = [False]


def read_gen(ctx):
    txt = open(os.path.join(ctx.lean_dir, 'ChibiVerif/Gen/C10InclGen.lean')).read()
    I_SEPARATE[0] = bool(re.search(r'def iSeparateArm : Bool := true', txt))
    dd = re.search(r'def defaultDirs : List String := \[(.*?)\]', txt).group(1)
    return [x.replace('$ARGV0DIR', 'bin') for x in re.findall(r'"([^"]*)"', dd)]


# ============================================================================ corpus + known finding

def run_corpus(ctx, corr):
    """past failures first: each entry is a set of files + options; chibicc -E must print gcc -E -P's marker stream"""
    cdir = os.path.join(VERIF, 'corpus', 'C10')
    if not os.path.isdir(cdir):
        return
    for fn in sorted(os.listdir(cdir)):
        if not fn.endswith('.json'):
            continue
        ent = json.load(open(os.path.join(cdir, fn)))
        d = case_dir(ctx, 'corpus_' + fn[:-5])
        setup_bin(ctx, d)
        for p, t in ent['files'].items():
            os.makedirs(os.path.dirname(os.path.join(d, p)) or d, exist_ok=True)
            open(os.path.join(d, p), 'w').write(t)
        got, err = run_pp(['bin/chibicc', '-E'] + ent.get('args', []) + [ent['main']], d)
        if 'expected' in ent:
            want = ent['expected']
        else:
            want, _ = run_pp(['gcc', '-E', '-P', '-nostdinc', '-isystem', 'bin/include'] + ent.get('gcc_args', ent.get('args', [])) + [ent['main']], d)
            if want.startswith('err'):
                want = 'err'
        corr.evaluations += 1
        corr.count('corpus')
        corr.nontrivial.add('corpus:' + fn)
        ok = (got == want) or (want == 'err' and got.startswith('err:'))
        if ent.get('known_id'):
            if not ok:
                if ent['known_id'] not in corr.known_hits:
                    corr.known_hits.append(ent['known_id'])
                corr.violations.append({'what': ent.get('what', fn), 'input': ent['files'], 'args': ent.get('args', []),
                                        'expected': want, 'got': got, 'known_id': ent['known_id']})
            continue
        if not ok:
            corr.violations.append({'what': 'regression of a repaired defect: ' + ent.get('what', fn), 'input': ent['files'],
                                    'args': ent.get('args', []), 'expected': want, 'got': got, 'stderr': err[-300:], 'corpus': fn})


# ============================================================================ conditional nests

def write_unit(d, name, lines):
    open(os.path.join(d, name), 'w').write('\n'.join(l.c for l in lines) + '\n')


def check_cond_batch(ctx, corr, units, tag):
    """units: list of (lines, valid, features).  One driver call for the whole batch."""
    d = case_dir(ctx, 'cond_' + tag)
    proto = ''
    for lines, valid, feat in units:
        proto += '\n'.join(l.p for l in lines) + '\nend\n'
    out = ctx.driver('cond', proto).splitlines()
    if len(out) != len(units):
        corr.disagreements.append({'kind': 'driver protocol', 'note': f'{len(out)} answers for {len(units)} units', 'tail': out[-2:]})
        return
    for i, ((lines, valid, feat), ans) in enumerate(zip(units, out)):
        r = parse_drv(ans)
        src = '\n'.join(l.c for l in lines) + '\n'
        corr.evaluations += 1
        corr.count(tag)
        for f in feat:
            corr.count('feature:' + f.split(':')[0] if f.startswith('depth') else 'feature:' + f)
        if r is None:
            corr.disagreements.append({'kind': 'driver protocol', 'input': src, 'model': ans})
            return
        if r['undef']:
            corr.count('skipped_ub')
            continue
        name = f'u{i}.c'
        write_unit(d, name, lines)
        model, spec = model_markers(r['model']), model_markers(r['spec'])
        impl, ierr = run_pp([ctx.cc, '-E', name], d)
        gcc, gerr = run_pp(['gcc', '-E', '-P', name], d)
        gcc_c = gcc if gcc.startswith('ok:') else 'err'
        key = hashlib.sha1(src.encode()).hexdigest()
        if len([l for l in lines if l.p.split(' ')[0] in ('if', 'ifdef', 'ifndef')]) >= 3 + len([1 for l in lines if l.c.startswith('mk_def_')]):
            corr.nontrivial.add(key)
        # --- leg 1: model <-> code
        if impl != model:
            corr.disagreements.append({'kind': 'conditional nest: model vs chibicc -E', 'input': src, 'model': model, 'impl': impl,
                                       'stderr': ierr[-300:], 'gcc': gcc_c})
        # --- leg 2: spec <-> gcc.  On ill-formed input gcc also diagnoses inside skipped groups (#else after #else …), which
        #     6.10.1p6 does not ask for ("only through the name that determines the directive"): that direction is only counted.
        if spec.startswith('ok:') and gcc_c.startswith('ok:') and gcc_c != spec:
            corr.disagreements.append({'kind': 'conditional nest: Spec.groups vs gcc -E -P (specification wrong?)', 'input': src,
                                       'spec': spec, 'gcc': gcc_c, 'gcc_stderr': gerr[-300:]})
        elif spec.startswith('ok:') and gcc_c == 'err':
            if valid:
                corr.disagreements.append({'kind': 'conditional nest: gcc rejects a generated valid input (generator/specification wrong?)',
                                           'input': src, 'spec': spec, 'gcc_stderr': gerr[-300:]})
            else:
                corr.count('gcc-stricter-inside-skipped-group')
        elif spec.startswith('err:') and gcc_c != 'err':
            corr.disagreements.append({'kind': 'conditional nest: Spec.groups rejects, gcc accepts (specification wrong?)', 'input': src,
                                       'spec': spec, 'gcc': gcc_c})
        # --- leg 3: code <-> oracle
        if gcc_c.startswith('ok:') and impl != gcc_c:
            v = {'what': 'chibicc -E selects different text than C11 6.10.1 (gcc -E -P and Spec.groups agree with each other)'
                         if gcc_c == spec else 'chibicc -E selects different text than gcc -E -P',
                 'input': src, 'expected': gcc_c, 'got': impl, 'stderr': ierr[-300:]}
            if r['region'] and impl == model:
                v['known_id'] = KNOWN_SHIFT
                corr.count('known:' + KNOWN_SHIFT)
            else:
                v['unshrunk'] = src
                v['input'] = shrink_unit(ctx, d, lines)
                open(os.path.join(d, 'shr.c'), 'w').write(v['input'])
                v['got'], _ = run_pp([ctx.cc, '-E', 'shr.c'], d)
                v['expected'], _ = run_pp(['gcc', '-E', '-P', 'shr.c'], d)
            corr.violations.append(v)
        elif spec.startswith('err:') and gcc_c == 'err' and impl.startswith('ok:'):
            v = {'what': 'ill-formed conditional nest accepted', 'input': src, 'expected': spec, 'got': impl}
            if r['region'] and impl == model:
                # an evaluated condition lies in the region of the known finding: chibicc takes another group than C11, and only the
                # group C11 selects contains the ill-formed directive
                v['known_id'] = KNOWN_SHIFT
                corr.count('known:' + KNOWN_SHIFT)
            corr.violations.append(v)
        if len(corr.samples) < 3 and valid and spec.count(',') > 3:
            corr.sample({'conditional nest': src.split('\n')[:14], 'markers': spec[:120]})
        if len([v for v in corr.violations if not v.get('known_id')]) >= 3 or len(corr.disagreements) >= 3:
            return


def shrink_unit(ctx, d, lines):
    """delete lines while chibicc and gcc still accept the unit and still differ"""
    def differ(ls):
        write_unit(d, 'shr.c', ls)
        a, _ = run_pp([ctx.cc, '-E', 'shr.c'], d)
        b, _ = run_pp(['gcc', '-E', '-P', 'shr.c'], d)
        return b.startswith('ok:') and a != b
    ls = list(lines)
    if not differ(ls):
        return '\n'.join(l.c for l in ls) + '\n'
    changed = True
    while changed and len(ls) > 1:
        changed = False
        for n in (8, 4, 2, 1):
            i = 0
            while i < len(ls):
                cand = ls[:i] + ls[i + n:]
                if cand and differ(cand):
                    ls = cand
                    changed = True
                else:
                    i += n
    return '\n'.join(l.c for l in ls) + '\n'


def cond_cases(ctx, corr, n_valid, n_bad, tag='nest'):
    rng = ctx.rng
    units = []
    for i in range(n_valid):
        g = NestGen(rng, valid=True, max_depth=rng.choice([2, 3, 5, 5]))
        units.append((g.unit(), True, g.feat))
    check_cond_batch(ctx, corr, units, tag)
    units = []
    for i in range(n_bad):
        g = NestGen(rng, valid=False, max_depth=rng.choice([2, 3, 4]))
        units.append((g.unit(), False, g.feat))
    check_cond_batch(ctx, corr, units, tag + '-malformed')


# ============================================================================ #if arithmetic battery

def N(v, text=None, uns=None):
    if text is None:
        text = str(v)
    if uns is None:
        uns = 'u' in text.lower().lstrip('0x') or (text.lower().startswith('0') and v >= (1 << 63))
    return lit(v, text, uns)


def B(op, a, b):
    return ('b', op, a, b)


def C(text, value, uns=False):
    """a character constant: spelling, value of its type, unsigned?"""
    return lit(value, text, uns)


def U(op, a):
    return ('u', op, a)


def arith_battery():
    one, zero = N(1), N(0)
    div0 = B('div', one, zero)
    big = N(0xffffffffffffffff, '0xffffffffffffffff', True)
    imax = N(0x7fffffffffffffff, '0x7fffffffffffffff', False)
    es = [
        B('lt', U('neg', one), N(0, '0u', True)),                         # -1 < 0u   is false
        B('lt', U('neg', one), zero),
        B('gt', big, zero), B('eq', big, U('neg', one)), B('eq', U('bnot', N(0, '0u', True)), big),
        B('gt', N(18446744073709551615, '18446744073709551615u', True), zero),
        B('lt', B('add', imax, N(0, '0u', True)), zero),
        B('gt', B('div', U('neg', one), N(2, '2u', True)), one),          # -1 / 2u  is huge
        B('eq', B('div', U('neg', N(7)), N(2)), U('neg', N(3))), B('eq', B('mod', U('neg', N(7)), N(2)), U('neg', one)),
        B('eq', B('div', N(7), U('neg', N(2))), U('neg', N(3))), B('eq', B('mod', N(7), U('neg', N(2))), one),
        B('eq', B('shr', U('neg', one), one), U('neg', one)),             # arithmetic shift of a negative value
        B('eq', B('shr', big, N(63)), one), B('eq', B('shl', one, N(62)), N(1 << 62, '0x4000000000000000', False)),
        B('eq', B('shl', N(1, '1u', True), N(63)), N(1 << 63, '0x8000000000000000', True)),
        B('gt', B('shl', N(1, '1ull', True), N(63)), zero),
        B('land', zero, div0), B('lor', one, div0), ('c', one, N(2), div0), ('c', zero, div0, N(2)),
        B('lor', B('land', zero, div0), B('lor', one, B('mod', one, zero))),
        B('lt', ('c', one, U('neg', one), N(0, '0u', True)), zero),       # ?: converts both arms: unsigned
        B('lt', ('c', zero, N(0, '0u', True), U('neg', one)), zero),
        B('eq', ('c', B('lt', U('neg', one), N(0, '0u', True)), one, zero), zero),
        B('eq', U('lnot', N(5)), zero), B('eq', B('lor', N(2), N(3)), one), B('eq', B('land', N(2), N(3)), one),
        B('gt', B('add', N(4294967295), one), zero), B('gt', B('add', N(2147483647), one), zero),
        B('lt', B('sub', U('neg', N(9223372036854775807)), one), zero),
        B('eq', B('sub', zero, N(1, '1u', True)), big),
        B('land', B('eq', one, N(1, '1L', False)), B('land', B('eq', N(1, '1u', True), N(1, '1ULL', True)), B('eq', N(1, '1ll', False), N(1, '1LLU', True)))),
        B('eq', N(8, '010', False), N(8)), B('eq', N(255, '0xFF', False), N(255, '0377', False)),
        B('gt', N(0x8000000000000000, '0x8000000000000000', True), zero), B('gt', N(0x8000000000000000, '01000000000000000000000', True), zero),
        B('eq', B('band', U('neg', one), N(255)), N(255)), B('eq', B('bxor', big, big), zero), B('eq', B('bor', N(1), N(2)), N(3)),
        B('eq', B('add', B('add', ('i', 'int'), ('i', 'true')), ('i', 'zzz_undefined')), zero),
        B('lor', ('d', 'UNDEF_X', 'p'), B('lor', ('d', 'UNDEF_Y', 's'), U('lnot', ('d', 'UNDEF_Z', 'ps')))),
        B('eq', B('mul', N(0x100000000, '0x100000000', False), N(0x7fffffff, '0x7fffffff', False)), N(0x7fffffff00000000, '0x7fffffff00000000', False)),
        B('eq', B('mul', big, big), one),
        B('ge', B('shr', U('neg', N(8)), N(1)), U('neg', N(4))),
        # C11 6.10.1p4 footnote 167: a hexadecimal/octal constant in [2^31, 2^32) is *signed* in #if (all signed types act as intmax_t)
        B('lt', U('neg', one), N(0xffffffff, '0xffffffff', False)), B('lt', U('neg', one), N(0x80000000, '0x80000000', False)),
        B('lt', U('neg', one), N(0xffffffff, '037777777777', False)), B('lt', B('sub', N(0xffffffff, '0xffffffff', False), N(0x100000000, '0x100000000', False)), zero),
        B('lt', ('c', zero, N(0x80000000, '0x80000000', False), U('neg', one)), zero),
        B('eq', B('mod', U('bnot', zero), N(0xffffffff, '037777777777', False)), U('neg', one)),
        B('lt', U('neg', one), N(0xffffffff, '0xffffffffu', True)), B('lt', U('neg', one), N(0xffffffff, '0xffffffffL', False)),
        # character constants: value and signedness of their type, whatever letters the spelling contains (6.10.1p4, 6.4.4.4)
        B('lt', B('sub', C("'u'", 117), N(200)), zero), B('lt', B('sub', C("'U'", 85), N(200)), zero), B('lt', B('sub', C("L'u'", 117), N(200)), zero),
        B('lt', B('sub', C("L'U'", 85), N(200)), zero), B('lt', B('sub', C("'l'", 108), N(200)), zero),
        B('lt', B('sub', C("u'a'", 97, True), N(200)), zero), B('lt', B('sub', C("U'a'", 97, True), N(200)), zero),
        B('eq', B('div', U('neg', one), C("'U'", 85)), zero), B('lt', ('c', one, U('neg', one), C("'u'", 117)), zero),
        B('eq', B('shr', B('sub', C("'u'", 117), C("'z'", 122)), N(62)), U('neg', one)), B('lt', B('mod', U('neg', N(7)), C("'u'", 117)), zero),
        B('lt', C("'\\377'", -1), zero), B('lt', C("'\\xff'", -1), zero), B('lt', C("'\\x80'", -128), zero), B('gt', C("L'\\xff'", 255), zero),
        B('lt', C("L'\\xffffffff'", -1), zero), B('gt', C("U'\\xffffffff'", 0xffffffff, True), zero), B('eq', C("u'\\xffff'", 0xffff, True), N(65535)),
        B('lt', U('neg', one), C("u'a'", 97, True)), B('lt', U('neg', one), C("U'u'", 117, True)), B('lt', U('neg', one), C("L'U'", 85)),
        B('lt', U('bnot', C("'u'", 117)), zero), B('lt', U('bnot', C("u'u'", 117, True)), zero), B('lt', U('neg', C("U'U'", 85, True)), zero),
        B('eq', C("'\\n'", 10), N(10)), B('eq', C("'\\''", 39), N(39)), B('eq', C("'\"'", 34), N(34)), B('eq', C("'\\\\'", 92), N(92)),
        B('eq', C("'\\0'", 0), zero), B('eq', C("'\\101'", 65), C("'A'", 65)), B('eq', C("u'\\x41'", 65, True), C("U'A'", 65, True)),
        # the region of the known finding: an int-typed intermediate result wider than 32 bits
        B('shl', B('lt', one, N(2)), N(40)), B('shl', U('lnot', zero), N(40)),
        B('eq', B('shl', B('gt', N(2), one), N(32)), N(4294967296)),
        B('eq', B('shr', B('shl', B('lor', zero, one), N(62)), N(62)), one),
        B('lt', B('shl', B('lt', one, N(2)), N(31)), zero),
        # ... and its neighbours outside the region
        B('eq', B('shl', B('lt', one, N(2)), N(30)), N(1 << 30)), B('eq', B('mul', B('lt', one, N(2)), N(1 << 40, '0x10000000000', False)), N(1 << 40, '0x10000000000', False)),
        B('eq', B('shl', B('add', B('lt', one, N(2)), zero), N(40)), N(1 << 40, '0x10000000000', False)),
    ]
    return es


def arith_cases(ctx, corr):
    rng = ctx.rng
    es = arith_battery()
    n_rand = 700 if not ctx.thorough else 12000
    for _ in range(n_rand):
        e, _ = gen_defined_expr(rng, rng.choice([2, 3, 4, 5]), [], {})
        es.append(e)
    # one unit per expression keeps a failure local; batches of 25 keep the process count low
    units = []
    group = []
    for k, e in enumerate(es):
        group.append((k, e))
        if len(group) == 25 or k == len(es) - 1:
            lines = []
            for (j, x) in group:
                lines += [Ln('#if ' + c_text(x, rng), 'if ' + p_text(x)), Ln(f'mk_{j}_t', f't mk_{j}_t'), Ln('#else', 'else 0'),
                          Ln(f'mk_{j}_f', f't mk_{j}_f'), Ln('#endif', 'endif 0')]
            units.append((lines, True, {'arith'}))
            group = []
    check_arith_units(ctx, corr, units)


def check_arith_units(ctx, corr, units):
    """like check_cond_batch, but a unit that differs is split into its expressions so that known-finding inputs and
    genuine mismatches are told apart expression by expression"""
    d = case_dir(ctx, 'arith')
    singles = []
    for lines, _, _ in units:
        for i in range(0, len(lines), 5):
            singles.append(lines[i:i + 5])
    proto = ''.join('\n'.join(l.p for l in s) + '\nend\n' for s in singles)
    out = ctx.driver('cond', proto).splitlines()
    if len(out) != len(singles):
        corr.disagreements.append({'kind': 'driver protocol (arith)', 'note': f'{len(out)} answers for {len(singles)}'})
        return
    # real compilers: run per unit of 25, compare marker by marker
    ans = {}
    for s, a in zip(singles, out):
        ans[s[1].c[:-2]] = (parse_drv(a), s)
    for ui, (lines, _, _) in enumerate(units):
        name = f'a{ui}.c'
        write_unit(d, name, lines)
        rc1, o1, e1 = sh([ctx.cc, '-E', name], cwd=d, timeout=30)
        rc2, o2, e2 = sh(['gcc', '-E', '-P', name], cwd=d, timeout=30)
        m1 = {m[:-2]: m[-1] for m in MARK.findall(o1)} if rc1 == 0 else None
        m2 = {m[:-2]: m[-1] for m in MARK.findall(o2)} if rc2 == 0 else None
        for i in range(0, len(lines), 5):
            key = lines[i + 1].c[:-2]
            r, s = ans[key]
            src = '\n'.join(l.c for l in s) + '\n'
            corr.evaluations += 1
            corr.count('arith')
            if r is None:
                corr.disagreements.append({'kind': 'driver protocol (arith)', 'input': src})
                return
            if r['undef']:
                corr.count('skipped_ub')
                continue
            if m1 is None or m2 is None:
                # the whole unit was rejected by one of them: rerun this expression alone
                write_unit(d, 'one.c', s)
                a, ea = run_pp([ctx.cc, '-E', 'one.c'], d)
                b, eb = run_pp(['gcc', '-E', '-P', 'one.c'], d)
            else:
                a = 'ok:' + key + '_' + m1.get(key, '?')
                b = 'ok:' + key + '_' + m2.get(key, '?')
                ea = ''
            model, spec = model_markers(r['model']), model_markers(r['spec'])
            b_c = b if b.startswith('ok:') else 'err'
            corr.nontrivial.add('arith:' + hashlib.sha1(s[0].p.encode()).hexdigest())
            if a != model:
                corr.disagreements.append({'kind': '#if arithmetic: model vs chibicc -E', 'input': src, 'model': model, 'impl': a, 'gcc': b_c})
            if (spec if spec.startswith('ok:') else 'err') != b_c:
                corr.disagreements.append({'kind': '#if arithmetic: C11 evaluator of the specification vs gcc -E -P (specification wrong?)',
                                           'input': src, 'spec': spec, 'gcc': b_c})
            if b_c.startswith('ok:') and a != b_c:
                v = {'what': '#if arithmetic differs from intmax_t/uintmax_t evaluation (gcc -E -P)', 'input': src, 'expected': b_c, 'got': a}
                if r['region'] and a == model:
                    v['known_id'] = KNOWN_SHIFT
                    corr.count('known:' + KNOWN_SHIFT)
                corr.violations.append(v)
            elif b_c == 'err' and a.startswith('ok:') and spec.startswith('err:'):
                corr.violations.append({'what': '#if expression without a value accepted', 'input': src, 'expected': spec, 'got': a})
        if len([v for v in corr.violations if not v.get('known_id')]) >= 3 or len(corr.disagreements) >= 3:
            return
    corr.sample({'#if arithmetic': [s[0].c for s in singles[:6]]})


def known_witness(ctx, corr):
    """the listed witness of C10-ppif-int-result-shift: `#if (1 < 2) << 40` is false"""
    d = case_dir(ctx, 'known')
    open(os.path.join(d, 'w.c'), 'w').write('#if (1 < 2) << 40\nmk_t\n#else\nmk_f\n#endif\n')
    a, _ = run_pp([ctx.cc, '-E', 'w.c'], d)
    corr.evaluations += 1
    if a == 'ok:mk_f' and KNOWN_SHIFT not in corr.known_hits:
        corr.known_hits.append(KNOWN_SHIFT)
    corr.extra['known_finding_witness'] = {'input': '#if (1 < 2) << 40', 'chibicc': a, 'C11': 'ok:mk_t'}


# ============================================================================ include graphs

class Graph:
    """a small tree of directories and headers + a main file + a command line"""
    def __init__(self, ctx, idx):
        self.ctx, self.rng = ctx, ctx.rng
        self.files = {}        # path -> list of Ln
        self.k = 0
        self.feat = set()
        self.gcc_ok = True     # False: implementation-defined difference expected (pragma once + two spellings)
        self.idx = idx
        self.macro_defs = []   # #define lines for macro-named #include operands (put at the top of m.c)

    def marker(self, tag=''):
        self.k += 1
        return f'mk_{tag}{self.k}'

    def inc_line(self, form, name, ex='', macro_ok=True):
        if macro_ok and self.rng.random() < 0.15:
            # the operand is produced by macro expansion (read_include_filename, pattern 3); the macros are defined at the top of m.c
            mac = f'INC_{len(self.macro_defs)}'
            self.macro_defs.append(mac_define(mac, form, name))
            if self.rng.random() < 0.25:
                alias = f'INC_{len(self.macro_defs)}'
                self.macro_defs.append(mac_alias(alias, mac))
                mac = alias
            self.feat.add('include-macro-operand:' + form)
            return mac_include(mac, ex=ex)
        if form == 'q':
            return Ln(f'#include "{name}"{ex}', f'include q {name}')
        return Ln(f'#include <{name}>{ex}', f'include a {name}')

    def body_lines(self, path, later_headers, dirs, allow_next):
        """content between guards: markers, nested conditionals, includes of later headers"""
        rng = self.rng
        out = []
        for _ in range(rng.choice([1, 2, 3])):
            r = rng.random()
            if r < 0.5 or not later_headers:
                m = self.marker()
                out.append(Ln(m, f't {m}'))
            elif r < 0.8:
                h = rng.choice(later_headers)
                # a header that holds #include_next is only reached through the search path (angle form): what "the directory
                # in which the current file was found" means for a file found beside its includer is left to the implementation
                form = 'a' if h in self.next_names else rng.choice(['q', 'a'])
                ex, f = extra(rng, 0.15)
                if f:
                    self.feat.add('extra-include')
                out.append(self.inc_line(form, h, ex))
            else:
                m = self.marker()
                v = rng.choice([0, 1])
                out += [Ln(f'#if {v}', f'if n {v} s'), Ln(m, f't {m}'), Ln('#endif', 'endif 0')]
        return out

    def header(self, path, name, shape, later_headers, dirs, has_next):
        rng = self.rng
        g = 'G_' + re.sub(r'\W', '_', path)
        body = self.body_lines(path, later_headers, dirs, has_next)
        if has_next:
            body.insert(rng.randrange(0, len(body) + 1), Ln(f'#include_next <{name}>', f'include_next {name}'))
            self.feat.add('include_next')
        m_out = self.marker('o')
        t = lambda m: Ln(m, f't {m}')
        ifn = Ln(f'#ifndef {g}', f'ifndef {g} 0')
        dfn = Ln(f'#define {g}', f'define {g} -')
        end = Ln('#endif', 'endif 0')
        if shape == 'plain':
            ls = body
        elif shape == 'guarded':
            ls = [ifn, dfn] + body + [end]
        elif shape == 'guarded-comment-null':
            ls = [ifn, dfn, Ln('#', 'other')] + body + [Ln('# endif /* ' + g + ' */', 'endif 0')]
        elif shape == 'guarded-nested':
            m2 = self.marker()
            ls = [ifn, dfn, Ln('#ifdef ZQ', 'ifdef ZQ 0'), t(m2), Ln('#else', 'else 0')] + body + [Ln('#endif', 'endif 0'), end]
        elif shape == 'closed-early':              # guard closed early + trailing text
            ls = [ifn, dfn] + body + [end, t(m_out)]
        elif shape == 'closed-early-cond':         # ... and a later conditional (the shape that fooled the old detector)
            ls = [ifn, dfn] + body + [end, t(m_out), Ln('#if 1', 'if n 1 s'), t(self.marker('o')), Ln('#endif', 'endif 0')]
        elif shape == 'guard-else':
            ls = [ifn, dfn] + body + [Ln('#else', 'else 0'), t(m_out), end]
        elif shape == 'guard-elif':
            ls = [ifn, dfn] + body + [Ln('#elif 1', 'elif n 1 s'), t(m_out), end]
        elif shape == 'text-first':
            ls = [t(m_out), ifn, dfn] + body + [end]
        elif shape == 'ifndef-extra':
            ls = [Ln(f'#ifndef {g} junk', f'ifndef {g} 1'), dfn] + body + [end]
        elif shape == 'endif-extra':
            ls = [ifn, dfn] + body + [Ln('#endif junk', 'endif 1')]
        elif shape == 'other-define':
            ls = [ifn, Ln(f'#define {g}_x', f'define {g}_x -')] + body + [end]
        elif shape == 'once':
            ls = [Ln('#pragma once', 'once')] + body
        elif shape == 'once-late':
            ls = body + [Ln('#pragma once', 'once')]
        else:
            raise AssertionError(shape)
        self.feat.add('shape:' + shape)
        self.files[path] = ls
        return g

    def build(self):
        rng = self.rng
        ndirs = rng.choice([2, 3, 4])
        dirs = [f'd{i}' for i in range(ndirs)]
        if rng.random() < 0.4:
            # sibling directories whose NAMES are string prefixes of one another (inc, inc2, inc23 …): not nested, so "the directory
            # the current file was found in" is still well defined, but it cannot be recognised by a bare string-prefix test
            dirs = ['d' + '0123'[:i] for i in range(ndirs)]
            if rng.random() < 0.5:
                dirs.reverse()
        use_sys = rng.random() < 0.6
        names = [f'h{i}.h' for i in range(rng.choice([2, 3, 4]))]
        shapes = ['plain', 'guarded', 'guarded', 'guarded-comment-null', 'guarded-nested', 'closed-early', 'closed-early-cond',
                  'guard-else', 'guard-elif', 'text-first', 'ifndef-extra', 'endif-extra', 'other-define', 'once', 'once-late']
        all_dirs = dirs + (['bin/include'] if use_sys else [])
        self.guards = {}
        self.once_files = set()
        self.next_names = set()
        # which directory holds which header: every name in 1..3 directories
        placement = {n: rng.sample(all_dirs, rng.randrange(1, min(3, len(all_dirs)) + 1)) for n in names}
        for n in names:
            if rng.random() < 0.4 and len(placement[n]) > 1:
                self.next_names.add(n)
        for ni, n in enumerate(names):
            later = names[ni + 1:]
            chain = n in self.next_names
            for dname in placement[n]:
                shape = rng.choice(shapes)
                path = f'{dname}/{n}'
                g = self.header(path, n, shape, later, dirs, chain)
                self.guards[path] = g
                if shape.startswith('once'):
                    self.once_files.add(path)
        # command line
        order = list(dirs)
        rng.shuffle(order)
        n_after = rng.choice([0, 0, 1, 2]) if len(order) > 1 else 0
        after = order[len(order) - n_after:] if n_after else []
        idirs = order[:len(order) - n_after]
        if rng.random() < 0.2 and idirs:
            idirs = idirs[:-1]                         # one directory reachable only through "dir/name" spellings
        self.opts = []                                  # (kind, value) in command-line order
        seq = [('I', x) for x in idirs] + [('after', x) for x in after]
        rng.shuffle(seq)
        # -I keeps its relative order, -idirafter keeps its own: shuffling the two kinds among each other is the point
        self.opts += seq
        macro_names = ['P', 'Q'] + [g for g in self.guards.values() if rng.random() < 0.15]
        for _ in range(rng.choice([0, 1, 2, 3])):
            n = rng.choice(macro_names)
            pos = rng.randrange(0, len(self.opts) + 1)
            if rng.random() < 0.65:
                v = rng.randrange(0, 3)
                self.opts.insert(pos, ('D', n, v) if rng.random() < 0.7 else ('D', n, None))
            else:
                self.opts.insert(pos, ('U', n))
            self.feat.add('cmdline-DU')
        # main file
        main = []
        tmk = lambda: (lambda m: Ln(m, f't {m}'))(self.marker('m'))
        spell_twice = None
        for _ in range(rng.choice([3, 4, 6, 8])):
            r = rng.random()
            n = rng.choice(names)
            if r < 0.55:
                if n in self.next_names:
                    form = 'a'
                else:
                    form = rng.choice(['q', 'a'])
                main.append(self.inc_line(form, n))
            elif r < 0.7:
                dname = rng.choice(placement[n])
                p = f'{dname}/{n}'
                if n in self.next_names and dname in ('bin/include',):
                    continue
                sp = rng.choice([p, p, f'./{p}', f'{dname}/../{p}'])
                if sp != p:
                    self.feat.add('two-spellings')
                # a file named with its directory from the main file is opened as "./dir/name" (and its quoted includes as
                # "./dir/other"), the same file found through -Idir as "dir/name": chibicc keys #pragma once by that spelling,
                # gcc by file identity - implementation-defined, compared with the model only
                if any(o.startswith(dname + '/') for o in self.once_files):
                    self.gcc_ok = False
                if n in self.next_names:
                    # reached by the including file's directory rule: what "the directory where the file was found" means differs
                    # between implementations when the file holds #include_next; keep to the angle form
                    main.append(self.inc_line('a', n))
                else:
                    main.append(self.inc_line('q', sp))
            elif r < 0.85:
                g = rng.choice(list(self.guards.values()))
                ex, f = extra(rng, 0.2)
                main.append(Ln(f'#undef {g}{ex}', f'undef {g} {f}'))
                self.feat.add('undef-guard')
            elif r < 0.92:
                g = rng.choice(list(self.guards.values()))
                main.append(Ln(f'#define {g}', f'define {g} -'))
                self.feat.add('predefine-guard')
            else:
                main.append(tmk())
        for n in ['P', 'Q']:
            m = f'mk_def_{n}'
            main += [Ln(f'#if defined({n}) && {n} + 1 > 1', f'if b land d {n} b gt b add i {n} n 1 s n 1 s'), Ln(m, f't {m}'), Ln('#endif', 'endif 0')]
        self.files['m.c'] = self.macro_defs + main       # (macro_defs is filled while the headers and main are generated)
        # -include
        self.cmd_includes = []
        if rng.random() < 0.35:
            pre = [Ln('#define Q 2', 'define Q n 2 s') if rng.random() < 0.5 else Ln('#undef P', 'undef P 0'), tmk()]
            if rng.random() < 0.5:
                hn = rng.choice(names)
                pre.append(self.inc_line('a' if hn in self.next_names else rng.choice(['q', 'a']), hn, macro_ok=False))
            where = rng.choice(['pre.h', dirs[0] + '/pre_d.h'])
            self.files[where] = list(self.macro_defs) + pre     # the headers it reaches may use the INC_k macros (identical redefinition in m.c)
            spelled = where if where == 'pre.h' or rng.random() < 0.5 or dirs[0] not in idirs + after else 'pre_d.h'
            self.opts.insert(rng.randrange(0, len(self.opts) + 1), ('include', spelled))
            self.feat.add('cmdline-include')
        return self

    def argv(self, gcc=False):
        a = []
        for k, o in enumerate(self.opts):
            if o[0] == 'I':
                # `-I dir` as two arguments where main.c has that arm (decided per option from the graph's own numbers: stable across calls)
                if I_SEPARATE[0] and (self.idx + k) % 3 == 0:
                    a += ['-I', o[1]]
                else:
                    a.append('-I' + o[1])
            elif o[0] == 'after':
                a += ['-idirafter', o[1]]
            elif o[0] == 'D':
                a.append(f'-D{o[1]}' if o[2] is None else f'-D{o[1]}={o[2]}')
            elif o[0] == 'U':
                a.append('-U' + o[1])
            elif o[0] == 'include':
                a += ['-include', o[1]]
        return a

    def write(self, d):
        for p, ls in self.files.items():
            full = os.path.join(d, p)
            os.makedirs(os.path.dirname(full), exist_ok=True)
            open(full, 'w').write('\n'.join(l.c for l in ls) + '\n')
        for x in [o[1] for o in self.opts if o[0] in ('I', 'after')]:
            os.makedirs(os.path.join(d, x), exist_ok=True)

    def dump(self):
        return {p: '\n'.join(l.c for l in ls) + '\n' for p, ls in self.files.items()}


def graph_proto(g, sysdirs):
    """protocol text with every reachable spelling of every file"""
    s = ''.join(f'sys {d}\n' for d in sysdirs)
    for o in g.opts:
        if o[0] == 'I':
            s += f'opt I {o[1]}\n'
        elif o[0] == 'after':
            s += f'opt after {o[1]}\n'
        elif o[0] == 'D':
            s += f'opt D {o[1]} n {1 if o[2] is None else o[2]} s\n'
        elif o[0] == 'U':
            s += f'opt U {o[1]}\n'
        elif o[0] == 'include':
            s += f'opt include {o[1]}\n'
    table = dict(g.files)          # the model's file system normalises ./ and x/.. itself
    for p, ls in table.items():
        s += f'file {p}\n' + ''.join(l.p + '\n' for l in ls)
    s += 'main m.c\nfuel 200000\nend\n'
    return s


def include_cases(ctx, corr, n):
    sysdirs = read_gen(ctx)
    graphs = [Graph(ctx, i).build() for i in range(n)]
    proto = ''.join(graph_proto(g, sysdirs) for g in graphs)
    out = ctx.driver('incl', proto).splitlines()
    if len(out) != len(graphs):
        corr.disagreements.append({'kind': 'driver protocol (incl)', 'note': f'{len(out)} answers for {len(graphs)}', 'tail': out[-2:]})
        return
    for i, (g, ans) in enumerate(zip(graphs, out)):
        r = parse_drv(ans)
        corr.evaluations += 1
        corr.count('include-graph')
        for f in g.feat:
            corr.count('feature:' + f)
        if r is None:
            corr.disagreements.append({'kind': 'driver protocol (incl)', 'model': ans, 'input': g.dump()})
            return
        d = case_dir(ctx, f'inc{i}')
        setup_bin(ctx, d)
        g.write(d)
        args = g.argv()
        impl, ierr = run_pp(['bin/chibicc', '-E'] + args + ['m.c'], d)
        gcc, gerr = run_pp(['gcc', '-E', '-P', '-nostdinc', '-isystem', 'bin/include'] + args + ['m.c'], d)
        gcc_c = gcc if gcc.startswith('ok:') else 'err'
        model, plain = model_markers(r['model']), model_markers(r['plain'])
        if len(g.files) >= 4:
            corr.nontrivial.add('inc:' + hashlib.sha1(json.dumps([g.dump(), args], sort_keys=True).encode()).hexdigest())
        payload = {'files': g.dump(), 'args': args, 'main': 'm.c'}
        if impl != model:
            corr.disagreements.append(dict(payload, kind='include graph: model vs chibicc -E', model=model, impl=impl, stderr=ierr[-300:], gcc=gcc_c))
        if model != plain:
            # the shortcut changed the stream of the *model*: theorem C10_shortcuts says this cannot happen
            corr.disagreements.append(dict(payload, kind='include graph: model with guard shortcut vs plain textual inclusion', model=model, plain=plain))
        if not g.gcc_ok:
            corr.count('gcc-skipped:pragma-once-two-spellings')
        elif gcc_c.startswith('ok:') and impl != gcc_c:
            small, a2, b2 = shrink_graph(ctx, g, d)
            corr.violations.append({'what': 'chibicc -E includes different text than gcc -E -P with the same options '
                                            '(search order / re-inclusion shortcut / command-line macro)',
                                    'input': small, 'args': args, 'expected': b2 or gcc_c, 'got': a2 or impl, 'stderr': ierr[-300:],
                                    'unshrunk': {'files': g.dump(), 'expected': gcc_c, 'got': impl}})
        elif gcc_c == 'err' and impl.startswith('ok:'):
            corr.count('gcc-rejects-chibicc-accepts')          # e.g. a header not found by gcc but found relative to the working directory
        if len(corr.samples) < 5 and impl.count(',') > 4 and gcc_c == impl:
            corr.sample({'include graph': {'args': args, 'files': {p: t.split('\n')[:8] for p, t in list(g.dump().items())[:4]}, 'markers': impl[:160]}})
        if len([v for v in corr.violations if not v.get('known_id')]) >= 3 or len(corr.disagreements) >= 3:
            return


def shrink_graph(ctx, g, d):
    """drop whole lines of the files while the two compilers still differ (both accepting)"""
    args = g.argv()
    def differ():
        a, _ = run_pp(['bin/chibicc', '-E'] + args + ['m.c'], d)
        b, _ = run_pp(['gcc', '-E', '-P', '-nostdinc', '-isystem', 'bin/include'] + args + ['m.c'], d)
        return b.startswith('ok:') and a != b
    files = {p: [l.c for l in ls] for p, ls in g.files.items()}
    def write():
        for p, ls in files.items():
            open(os.path.join(d, p), 'w').write('\n'.join(ls) + '\n')
    write()
    if not differ():
        return g.dump(), None, None
    for p in sorted(files, key=lambda x: -len(files[x])):
        i = 0
        while i < len(files[p]):
            keep = files[p]
            files[p] = keep[:i] + keep[i + 1:]
            write()
            if differ():
                continue
            files[p] = keep
            i += 1
    write()
    a, _ = run_pp(['bin/chibicc', '-E'] + args + ['m.c'], d)
    b, _ = run_pp(['gcc', '-E', '-P', '-nostdinc', '-isystem', 'bin/include'] + args + ['m.c'], d)
    return {p: '\n'.join(ls) + '\n' for p, ls in files.items()}, a, b


def fixed_include_cases(ctx, corr):
    """hand-written search-order and shortcut cases, each checked against gcc and the model through the same path as the generated ones"""
    sysdirs = read_gen(ctx)
    cases = []
    def G(files, opts, gcc_ok=True):
        g = Graph(ctx, 0)
        g.files = {p: [Ln(c, m) for c, m in ls] for p, ls in files.items()}
        g.opts = opts
        g.gcc_ok = gcc_ok
        cases.append(g)
    t = lambda m: (m, f't {m}')
    # documented order: including file's directory, -I in order, system, -idirafter
    G({'m.c': [('#include "h.h"', 'include q h.h'), ('#include <h.h>', 'include a h.h')], 'h.h': [t('mk_cwd')], 'd0/h.h': [t('mk_d0')],
       'bin/include/h.h': [t('mk_sys')], 'd1/h.h': [t('mk_after')]}, [('after', 'd1'), ('I', 'd0')])
    G({'m.c': [('#include <h.h>', 'include a h.h')], 'bin/include/h.h': [t('mk_sys')], 'd1/h.h': [t('mk_after')]}, [('after', 'd1')])
    G({'m.c': [('#include <h.h>', 'include a h.h'), ('#include "h.h"', 'include q h.h')], 'd1/h.h': [t('mk_after')], 'd2/h.h': [t('mk_after2')]},
      [('after', 'd1'), ('after', 'd2')])
    G({'m.c': [('#include "s/a.h"', 'include q s/a.h')], 's/a.h': [('#include "b.h"', 'include q b.h')], 's/b.h': [t('mk_sb')], 'b.h': [t('mk_b')],
       'd0/b.h': [t('mk_d0b')]}, [('I', 'd0')])
    # operands produced by macro expansion keep their form: "..." looks beside the includer first, <...> does not
    md = lambda mac, form, name: (lambda l: (l.c, l.p))(mac_define(mac, form, name))
    mi = lambda mac, ex='': (lambda l: (l.c, l.p))(mac_include(mac, ex=ex))
    G({'m.c': [md('HQ', 'q', 'b.h'), md('HA', 'a', 'b.h'), ('#define HQ2 HQ', 'definet HQ2 I1HQ'), ('#include <a.h>', 'include a a.h')],
       'd1/a.h': [mi('HQ'), mi('HA'), mi('HQ2', ' junk'), ('#include HA junk', 'includem I1HA I1junk')], 'd1/b.h': [t('mk_d1')], 'd0/b.h': [t('mk_d0')]},
      [('I', 'd0'), ('I', 'd1')])
    G({'m.c': [md('HN', 'a', 'x.h'), ('#include <x.h>', 'include a x.h')], 'A/x.h': [t('mk_A'), ('#include_next HN', 'include_nextm I1HN')],
       'B/x.h': [t('mk_B')], 'x.h': [t('mk_cwd')]}, [('I', 'A'), ('I', 'B')])
    G({'m.c': [('#define A A B', 'definet A I1A I1B'), ('#define B A', 'definet B I1A'), ('#include A', 'includem I1A'), t('mk_after')]}, [])
    G({'m.c': [('#define h h', 'definet h I1h'), ('#define d0 d0', 'definet d0 I1d0'), md('HH', 'a', 'h.h'), md('HD', 'a', 'd0/h.h'), mi('HH'), mi('HD')],
       'h.h': [t('mk_h')], 'd0/h.h': [t('mk_d0h')]}, [('I', '.')])
    G({'m.c': [('#include UNDEFINED_MACRO', 'includem I1UNDEFINED_MACRO'), t('mk_after')]}, [])
    G({'m.c': [('#define E', 'definet E'), ('#include E', 'includem I1E'), t('mk_after')]}, [])
    G({'m.c': [('#define LT <h.h', 'definet LT O1< I0h O0. I0h'), ('#include LT', 'includem I1LT'), t('mk_after')], 'h.h': [t('mk_h')]}, [('I', '.')])
    # #include_next chains
    G({'m.c': [('#include <x.h>', 'include a x.h')],
       'A/x.h': [t('mk_A1'), ('#include_next <x.h>', 'include_next x.h'), t('mk_A2')],
       'B/x.h': [t('mk_B1'), ('#include_next <x.h>', 'include_next x.h'), t('mk_B2')], 'C/x.h': [t('mk_C')]},
      [('I', 'A'), ('I', 'B'), ('I', 'C')])
    G({'m.c': [('#include <x.h>', 'include a x.h'), ('#include <y.h>', 'include a y.h'), ('#include <x.h>', 'include a x.h')],
       'A/x.h': [t('mk_A1'), ('#include <y.h>', 'include a y.h'), ('#include_next <x.h>', 'include_next x.h'), t('mk_A2')],
       'B/x.h': [t('mk_B')], 'C/y.h': [t('mk_Cy')]}, [('I', 'A'), ('I', 'B'), ('I', 'C')])
    G({'m.c': [('#include <x.h>', 'include a x.h')], 'A/x.h': [t('mk_A'), ('#include_next <x.h>', 'include_next x.h')],
       'bin/include/x.h': [t('mk_S'), ('#include_next <x.h>', 'include_next x.h')], 'Z/x.h': [t('mk_Z')]}, [('after', 'Z'), ('I', 'A')])
    G({'m.c': [('#include_next <x.h>', 'include_next x.h')], 'A/x.h': [t('mk_A')], 'B/x.h': [t('mk_B')]}, [('I', 'A'), ('I', 'B')])
    # re-inclusion shortcuts
    guard = [('#ifndef G', 'ifndef G 0'), ('#define G', 'define G -'), t('mk_in'), ('#endif', 'endif 0')]
    inc3 = [('#include "g.h"', 'include q g.h'), ('#include "g.h"', 'include q g.h'), ('#undef G', 'undef G 0'), ('#include "g.h"', 'include q g.h')]
    G({'m.c': inc3, 'g.h': guard}, [])
    G({'m.c': inc3, 'g.h': guard + [t('mk_out'), ('#if 1', 'if n 1 s'), t('mk_out2'), ('#endif', 'endif 0')]}, [])
    G({'m.c': inc3, 'g.h': guard[:3] + [('#else', 'else 0'), t('mk_else'), ('#endif', 'endif 0')]}, [])
    G({'m.c': inc3, 'g.h': [('#', 'other'), ('#ifndef G', 'ifndef G 0'), ('#define G', 'define G -'), ('#', 'other'), ('if mk_txt', 't if mk_txt'),
                           ('#endif', 'endif 0')]}, [])
    G({'m.c': [('#define G', 'define G -')] + inc3, 'g.h': guard}, [])
    G({'m.c': inc3, 'g.h': [('#pragma once', 'once'), t('mk_once')]}, [])
    G({'m.c': [('#include "g.h"', 'include q g.h'), ('#include "./g.h"', 'include q ./g.h'), ('#include "d/../g.h"', 'include q d/../g.h')],
       'g.h': [('#pragma once', 'once'), t('mk_once')], 'd/e.h': [t('mk_e')]}, [], gcc_ok=False)
    G({'m.c': [('#include "g.h"', 'include q g.h'), ('#include "./g.h"', 'include q ./g.h'), ('#undef G', 'undef G 0'), ('#include "./g.h"', 'include q ./g.h')],
       'g.h': guard}, [])
    # command line
    G({'m.c': [('#ifdef P', 'ifdef P 0'), t('mk_P'), ('#endif', 'endif 0'), ('#if Q == 3', 'if b eq i Q n 3 s'), t('mk_Q3'), ('#endif', 'endif 0')],
       'pre.h': [('#undef P', 'undef P 0'), t('mk_pre')]}, [('D', 'P', None), ('U', 'P'), ('D', 'P', 2), ('include', 'pre.h'), ('D', 'Q', 3), ('U', 'Q'), ('D', 'Q', 3)])
    G({'m.c': [t('mk_main')], 'd0/pre.h': [t('mk_pre_d0'), ('#include "same.h"', 'include q same.h')], 'd0/same.h': [t('mk_same_d0')], 'same.h': [t('mk_same_cwd')]},
      [('include', 'pre.h'), ('I', 'd0')])
    proto = ''.join(graph_proto(g, sysdirs) for g in cases)
    out = ctx.driver('incl', proto).splitlines()
    for i, (g, ans) in enumerate(zip(cases, out)):
        r = parse_drv(ans)
        d = case_dir(ctx, f'finc{i}')
        setup_bin(ctx, d)
        g.write(d)
        args = g.argv()
        impl, ierr = run_pp(['bin/chibicc', '-E'] + args + ['m.c'], d)
        gcc, gerr = run_pp(['gcc', '-E', '-P', '-nostdinc', '-isystem', 'bin/include'] + args + ['m.c'], d)
        corr.evaluations += 1
        corr.count('include-fixed')
        corr.nontrivial.add(f'finc{i}')
        model = model_markers(r['model']) if r else ans
        payload = {'files': g.dump(), 'args': args}
        if impl != model:
            corr.disagreements.append(dict(payload, kind='include case: model vs chibicc -E', model=model, impl=impl, stderr=ierr[-300:], gcc=gcc))
        if r and model_markers(r['plain']) != model:
            corr.disagreements.append(dict(payload, kind='include case: shortcut vs plain inclusion (model)', model=model, plain=r['plain']))
        if g.gcc_ok and gcc.startswith('ok:') and impl != gcc:
            corr.violations.append({'what': 'chibicc -E includes different text than gcc -E -P with the same options', 'input': g.dump(),
                                    'args': args, 'expected': gcc, 'got': impl, 'stderr': ierr[-300:]})



# ============================================================================ include cycles, nesting limit, macro operands

GCC_DEPTH = '-fmax-include-depth=201'      # gcc counts the main file as depth 1 and refuses at depth >= max (default 200): with 201 it
                                           # refuses exactly the #include chibicc refuses (a directive standing in a file of depth 200)


def lex_name(name):
    """lexemes of a header name as the tokenizer sees them between < and >"""
    return re.findall(r'[A-Za-z_][A-Za-z_0-9]*|[0-9][A-Za-z_0-9.]*|.', name)


def otoks(form, name, first_space=True):
    """protocol tokens (T = <S|I|O><0|1><text>) of the operand "name" (form q) / <name> (form a)"""
    sp = '1' if first_space else '0'
    if form == 'q':
        return [f'S{sp}{name}']
    out = [f'O{sp}<']
    for lx in lex_name(name):
        out.append(('I0' if re.match(r'[A-Za-z_]', lx) else 'O0') + lx)
    return out + ['O0>']


def mac_define(mac, form, name):
    """`#define mac "name"` / `#define mac <name>` as an Ln"""
    return Ln(f'#define {mac} ' + (f'"{name}"' if form == 'q' else f'<{name}>'), f'definet {mac} ' + ' '.join(otoks(form, name)))


def mac_alias(mac, other):
    return Ln(f'#define {mac} {other}', f'definet {mac} I1{other}')


def mac_include(mac, nxt=False, ex=''):
    d = 'include_next' if nxt else 'include'
    return Ln(f'#{d} {mac}{ex}', f'{d}m I1{mac}' + (' I1junk' if ex else ''))


def norm_res(r):
    """normalise the file name inside err:nested-too-deeply@<file>:<line>"""
    m = re.match(r'err:nested-too-deeply@(.*):(\d+)$', r)
    return f'err:nested-too-deeply@{os.path.normpath(m.group(1))}:{m.group(2)}' if m else r


def gcc_outcome(cmd, d):
    rc, o, e = sh(cmd, cwd=d, timeout=60)
    if rc == 0:
        return 'ok:' + ','.join(MARK.findall(o)), e
    m = re.search(r'^(\S+?):(\d+):\d+: error: #include nested depth', e, re.M)
    if m:
        return f'err:nested-too-deeply@{os.path.normpath(m.group(1))}:{m.group(2)}', e
    return 'err', e


def chain_graph(ctx, n, form='q', tail=None):
    """m.c -> f1.h -> ... -> fn.h (n nested files), markers before and after every #include"""
    g = Graph(ctx, 0)
    g.opts = [('I', '.')] if form == 'a' else []
    def inc(name):
        return Ln(f'#include "{name}"', f'include q {name}') if form == 'q' else Ln(f'#include <{name}>', f'include a {name}')
    g.files = {'m.c': [Ln('mk_m0', 't mk_m0'), inc('f1.h'), Ln('mk_m1', 't mk_m1')]}
    for i in range(1, n + 1):
        ls = [Ln(f'mk_a{i}', f't mk_a{i}')]
        if i < n:
            ls.append(inc(f'f{i + 1}.h'))
        elif tail:
            ls += tail
        ls.append(Ln(f'mk_b{i}', f't mk_b{i}'))
        g.files[f'f{i}.h'] = ls
    g.feat.add(f'chain-{n}')
    return g


def fixed_cycle_graphs(ctx):
    cases = []
    def G(files, opts=(), gcc_ok=True, feat=''):
        g = Graph(ctx, 0)
        g.files = {p: [x if isinstance(x, Ln) else Ln(*x) for x in ls] for p, ls in files.items()}
        g.opts = list(opts)
        g.gcc_ok = gcc_ok
        g.feat.add('cycle:' + feat)
        cases.append(g)
    t = lambda m: Ln(m, f't {m}')
    q = lambda n, ex='': Ln(f'#include "{n}"{ex}', f'include q {n}')
    a = lambda n: Ln(f'#include <{n}>', f'include a {n}')
    nx = lambda n: Ln(f'#include_next <{n}>', f'include_next {n}')
    ifn = lambda gname: Ln(f'#ifndef {gname}', f'ifndef {gname} 0')
    dfn = lambda gname: Ln(f'#define {gname}', f'define {gname} -')
    end = Ln('#endif', 'endif 0')
    # --- self-include
    G({'m.c': [t('mk_1'), q('m.c'), t('mk_2')]}, feat='self')
    G({'m.c': [t('mk_1'), mac_include('__FILE__'), t('mk_2')]}, feat='self-__FILE__')
    G({'m.c': [q('s.h')], 's.h': [t('mk_s'), mac_include('__FILE__', ex=' junk')]}, feat='self-__FILE__-header')
    G({'m.c': [a('s.h')], 'd0/s.h': [t('mk_s'), a('s.h')]}, [('I', 'd0')], feat='self-angle')
    G({'m.c': [t('mk_m')], 'pre.h': [t('mk_p'), q('pre.h')]}, [('include', 'pre.h')], feat='self-from-cmdline-include')
    # --- 2- and 3-cycles
    G({'m.c': [q('a.h'), t('mk_m')], 'a.h': [t('mk_a'), q('b.h'), t('mk_a2')], 'b.h': [t('mk_b'), q('a.h'), t('mk_b2')]}, feat='2-cycle')
    G({'m.c': [a('a.h')], 'd0/a.h': [t('mk_a'), a('b.h')], 'd1/b.h': [t('mk_b'), q('c.h')], 'd1/c.h': [t('mk_c'), a('a.h')]},
      [('I', 'd0'), ('after', 'd1')], feat='3-cycle-mixed-forms')
    # --- through #include_next
    G({'m.c': [a('x.h')], 'A/x.h': [t('mk_A'), nx('x.h')], 'B/x.h': [t('mk_B'), a('x.h')]}, [('I', 'A'), ('I', 'B')], feat='next-cycle')
    G({'m.c': [a('x.h')], 'A/x.h': [t('mk_A'), nx('x.h')], 'B/x.h': [t('mk_B'), nx('x.h')], 'C/x.h': [t('mk_C'), a('x.h')]},
      [('I', 'A'), ('I', 'B'), ('after', 'C')], feat='next-cycle-3')
    # --- through macro-named operands
    G({'m.c': [mac_define('HA', 'q', 'a.h'), mac_define('HB', 'a', 'b.h'), mac_include('HA')],
       'a.h': [t('mk_a'), mac_include('HB')], 'd0/b.h': [t('mk_b'), mac_alias('HC', 'HA'), mac_include('HC', ex=' junk')]},
      [('I', 'd0'), ('I', '.')], feat='macro-cycle')
    G({'m.c': [mac_define('NX', 'a', 'x.h'), a('x.h')], 'A/x.h': [t('mk_A'), mac_include('NX', nxt=True)], 'B/x.h': [t('mk_B'), mac_include('NX')]},
      [('I', 'A'), ('I', 'B')], feat='macro-next-cycle')
    # --- guarded cycles: terminate before the limit
    G({'m.c': [q('a.h'), t('mk_m'), q('a.h')], 'a.h': [ifn('GA'), dfn('GA'), t('mk_a'), q('b.h'), t('mk_a2'), end],
       'b.h': [ifn('GB'), dfn('GB'), t('mk_b'), q('a.h'), t('mk_b2'), end]}, feat='guarded-2-cycle')
    G({'m.c': [q('a.h'), t('mk_m')], 'a.h': [ifn('GA'), dfn('GA'), t('mk_a'), q('a.h'), end, t('mk_after_guard')]}, feat='almost-guarded-self')
    G({'m.c': [q('a.h'), t('mk_m'), q('a.h')], 'a.h': [Ln('#pragma once', 'once'), t('mk_a'), q('b.h')], 'b.h': [t('mk_b'), q('a.h')]}, feat='once-2-cycle')
    G({'m.c': [q('a.h'), t('mk_m')],
       'a.h': [ifn('N1'), dfn('N1'), t('mk_1'), q('a.h'), Ln('#elif !defined N2', 'elif u lnot d N2'), dfn('N2'), t('mk_2'), q('a.h'),
               Ln('#elif !defined(N3)', 'elif u lnot d N3'), dfn('N3'), t('mk_3'), mac_include('__FILE__'), Ln('#else', 'else 0'), t('mk_bottom'), end,
               t('mk_tail')]}, feat='counter-cycle')
    G({'m.c': [a('x.h'), t('mk_m')], 'A/x.h': [ifn('GX'), dfn('GX'), t('mk_A'), nx('x.h'), end], 'B/x.h': [t('mk_B'), a('x.h')]},
      [('I', 'A'), ('I', 'B')], feat='guarded-next-cycle')
    # --- the cycle is entered only in a skipped group / after the conditional stack of the includer
    G({'m.c': [Ln('#if 0', 'if n 0 s'), q('m.c'), end, t('mk_m')]}, feat='skipped-self')
    G({'m.c': [q('a.h'), t('mk_m'), end], 'a.h': [Ln('#ifndef STOP', 'ifndef STOP 0'), dfn('STOP'), t('mk_a'), q('a.h')]}, feat='unbalanced-cycle')
    return cases


def gen_cycle_graph(ctx, idx):
    """a random cycle of 1..3 headers reached from m.c: random directive forms per edge, random way of (not) terminating"""
    rng = ctx.rng
    g = Graph(ctx, idx)
    k = rng.choice([1, 2, 2, 3])
    use_next = k >= 2 and rng.random() < 0.25
    names = [f'c{i}.h' for i in range(k)]
    stop = rng.choice(['none', 'none', 'guard', 'guard-one', 'once', 'counter', 'cond-false'])
    t = lambda m: Ln(m, f't {m}')
    g.opts = []
    files = {}
    macros = []           # Ln of #define lines for macro operands (put into m.c, in front)
    mk = [0]
    def marker():
        mk[0] += 1
        return t(f'mk_{mk[0]}')
    def edge(target, here_dir):
        """an #include of `target` (a name in d0) from a file in d0.  A header that holds #include_next is only reached through
        the search path (angle form): what "the directory in which the current file was found" means for a file found beside
        its includer is left to the implementation (gcc: not found through the chain, chibicc: path prefix)"""
        angle_only = use_next and target == names[0]
        r = rng.random()
        if r < 0.3 and not angle_only:
            return Ln(f'#include "{target}"', f'include q {target}')
        if r < 0.55:
            return Ln(f'#include <{target}>', f'include a {target}')
        mac = f'INC_{len(macros)}'
        form = 'a' if angle_only else rng.choice(['q', 'a'])
        macros.append(mac_define(mac, form, target))
        if rng.random() < 0.3:
            alias = f'INC_{len(macros)}'
            macros.append(mac_alias(alias, mac))
            mac = alias
        ex = ' junk' if rng.random() < 0.2 else ''
        return mac_include(mac, ex=ex)
    g.opts.append(('I', 'd0'))
    if use_next:
        # c0.h exists in d0 and d1: d0/c0.h continues with #include_next, d1/c0.h goes on round the cycle
        g.opts.append(rng.choice([('I', 'd1'), ('after', 'd1')]))
    for i, n in enumerate(names):
        nxt = names[(i + 1) % k]
        body = [marker()]
        if use_next and i == 0:
            files['d1/' + n] = [marker(), edge(nxt, 'd1'), marker()]
            body.append(Ln(f'#include_next <{n}>', f'include_next {n}'))
        elif k == 1 and rng.random() < 0.3:
            body.append(mac_include('__FILE__'))
            g.feat.add('cycle-__FILE__')
            if stop == 'once':
                g.gcc_ok = False          # spelling grows with every level: #pragma once by spelling (chibicc) vs identity (gcc)
        else:
            body.append(edge(nxt, 'd0'))
        body.append(marker())
        gname = f'G{i}'
        if stop == 'guard' or (stop == 'guard-one' and i == 0):
            body = [Ln(f'#ifndef {gname}', f'ifndef {gname} 0'), Ln(f'#define {gname}', f'define {gname} -')] + body + [Ln('#endif', 'endif 0')]
            if rng.random() < 0.3:
                body.append(marker())     # text after the guard's #endif: not a guarded file for detect_include_guard, still terminates
        elif stop == 'once' and i == 0:
            body.insert(rng.choice([0, 1]), Ln('#pragma once', 'once'))
        elif stop == 'counter' and i == 0:
            lim = rng.choice([1, 2, 4])
            hd = []
            for j in range(lim):
                hd += [Ln(f'#{"if" if j == 0 else "elif"} !defined(N{j})', f'{"if" if j == 0 else "elif"} u lnot d N{j}'),
                       Ln(f'#define N{j}', f'define N{j} -')] + body
            body = hd + [Ln('#else', 'else 0'), marker(), Ln('#endif', 'endif 0')]
        elif stop == 'cond-false' and i == 0:
            body = [Ln('#ifdef NEVER', 'ifdef NEVER 0')] + body + [Ln('#else', 'else 0'), marker(), Ln('#endif', 'endif 0')]
        files['d0/' + n] = body
    main = macros + [marker(), Ln(f'#include <{names[0]}>', f'include a {names[0]}'), marker()]
    if rng.random() < 0.4:
        main += [Ln(f'#include <{names[-1]}>', f'include a {names[-1]}'), marker()]
    files['m.c'] = main
    g.files = files
    g.feat.add(f'cycle-gen:{k}:{stop}' + (':next' if use_next else ''))
    return g


def check_graphs_with_limit(ctx, corr, graphs, tag):
    """model (with and without the guard shortcut) vs chibicc -E vs gcc -E -P -fmax-include-depth=201: outcome and, for the
    nesting diagnostic, file:line"""
    sysdirs = read_gen(ctx)
    proto = ''.join(graph_proto(g, sysdirs) for g in graphs)
    out = ctx.driver('incl', proto).splitlines()
    if len(out) != len(graphs):
        corr.disagreements.append({'kind': f'driver protocol ({tag})', 'note': f'{len(out)} answers for {len(graphs)}', 'tail': out[-2:]})
        return
    for i, (g, ans) in enumerate(zip(graphs, out)):
        r = parse_drv(ans)
        corr.evaluations += 1
        corr.count(tag)
        for f in g.feat:
            corr.count('feature:' + f)
        if r is None:
            corr.disagreements.append({'kind': f'driver protocol ({tag})', 'model': ans, 'input': g.dump()})
            return
        d = case_dir(ctx, f'{tag}{i}')
        setup_bin(ctx, d)
        g.write(d)
        args = g.argv()
        impl, ierr = run_pp(['bin/chibicc', '-E'] + args + ['m.c'], d, timeout=60)
        impl = norm_res(impl)
        gcc, gerr = gcc_outcome(['gcc', '-E', '-P', GCC_DEPTH, '-nostdinc', '-isystem', 'bin/include'] + args + ['m.c'], d)
        model, plain = norm_res(model_markers(r['model'])), norm_res(model_markers(r['plain']))
        corr.nontrivial.add(f'{tag}:' + hashlib.sha1(json.dumps([g.dump(), args], sort_keys=True).encode()).hexdigest())
        small = len(json.dumps(g.dump())) < 3000
        payload = {'files': g.dump() if small else {p: t for p, t in list(g.dump().items())[:3]}, 'args': args, 'main': 'm.c', 'features': sorted(g.feat)}
        corr.count('outcome:' + (model.split('@')[0] if model.startswith('err') else 'ok'))
        if impl != model:
            corr.disagreements.append(dict(payload, kind=f'{tag}: model vs chibicc -E', model=model[:300], impl=impl[:300], stderr=ierr[-300:], gcc=gcc[:200]))
        if plain.startswith('ok:') and model != plain:
            # theorem C10_shortcuts_graph: whenever plain textual inclusion finishes, the shortcut machine finishes the same way
            corr.disagreements.append(dict(payload, kind=f'{tag}: plain inclusion finishes, the guard shortcut changes the stream (model)', model=model[:300], plain=plain[:300]))
        elif plain != model:
            corr.count('plain-inclusion-refused-at-limit:shortcut-finishes' if plain.startswith('err:nested') and model.startswith('ok:') else 'plain-differs-in-error')
        if not g.gcc_ok:
            corr.count('gcc-skipped:pragma-once-two-spellings')
        elif gcc.startswith('ok:') and impl != gcc:
            corr.violations.append({'what': 'chibicc -E differs from gcc -E -P on an include graph with a cycle / deep nest / macro-named operand',
                                    'input': g.dump() if small else payload['files'], 'args': args, 'expected': gcc[:400], 'got': impl[:400], 'stderr': ierr[-300:]})
        elif gcc.startswith('err:nested') and impl.startswith('ok:'):
            corr.count('gcc-refuses-at-limit:chibicc-shortcut-finishes')      # gcc tests the depth before its guard optimisation
        elif gcc.startswith('err:nested') and impl != gcc:
            corr.violations.append({'what': 'include nesting limit: chibicc -E stops elsewhere than gcc -E -P -fmax-include-depth=201 (outcome or file:line of the diagnostic)',
                                    'input': g.dump() if small else payload['files'], 'args': args, 'expected': gcc, 'got': impl[:400], 'stderr': ierr[-300:]})
        elif gcc == 'err' and impl.startswith('ok:'):
            corr.count('gcc-rejects-chibicc-accepts')
        if len([v for v in corr.violations if not v.get('known_id')]) >= 3 or len(corr.disagreements) >= 3:
            return


def cycle_cases(ctx, corr, n_random):
    graphs = fixed_cycle_graphs(ctx)
    # chains of exactly 199 / 200 / 201 nested files (+ a few neighbours), quoted and angle form
    for n in (15, 199, 200, 201, 202):
        graphs.append(chain_graph(ctx, n, ctx.rng.choice(['q', 'a'])))
    graphs.append(chain_graph(ctx, 200, 'q', tail=[Ln('#include "nonexistent.h"', 'include q nonexistent.h')]))      # the nesting test comes before the file is opened
    graphs.append(chain_graph(ctx, 199, 'q', tail=[Ln('#include "nonexistent.h"', 'include q nonexistent.h')]))
    # a guarded header named again from the file at depth 200: the shortcut returns before the nesting test
    gd = [Ln('#ifndef GD', 'ifndef GD 0'), Ln('#define GD', 'define GD -'), Ln('mk_gd', 't mk_gd'), Ln('#endif', 'endif 0')]
    g = chain_graph(ctx, 200, 'q', tail=[Ln('#include "gd.h"', 'include q gd.h')])
    g.files['gd.h'] = gd
    g.files['m.c'] = [Ln('#include "gd.h"', 'include q gd.h')] + g.files['m.c']
    g.feat.add('guarded-header-at-limit')
    graphs.append(g)
    g = chain_graph(ctx, 200, 'q', tail=[Ln('#include "po.h"', 'include q po.h')])
    g.files['po.h'] = [Ln('#pragma once', 'once'), Ln('mk_po', 't mk_po')]
    g.files['m.c'] = [Ln('#include "po.h"', 'include q po.h')] + g.files['m.c']
    g.feat.add('once-header-at-limit')
    graphs.append(g)
    check_graphs_with_limit(ctx, corr, graphs, 'cycle')
    if corr.disagreements or [v for v in corr.violations if not v.get('known_id')]:
        return
    check_graphs_with_limit(ctx, corr, [gen_cycle_graph(ctx, i) for i in range(n_random)], 'cyclegen')


# ============================================================================ exhaustive short line sequences

def exhaustive_short(ctx, corr):
    """every sequence of at most L lines over a small alphabet of directives (well-formed or not): chibicc -E == model.
    (model == Spec.groups on these is theorem C10_groups; gcc is not consulted here)"""
    import itertools
    alpha = [('mk_t', 't mk_t'), ('#if 0', 'if n 0 s'), ('#if 1', 'if n 1 s'), ('#ifdef A', 'ifdef A 0'), ('#ifndef A', 'ifndef A 0'),
             ('#elif 0', 'elif n 0 s'), ('#elif 1', 'elif n 1 s'), ('#else', 'else 0'), ('#endif', 'endif 0'), ('#define A', 'define A -'),
             ('#undef A', 'undef A 0')]
    L = 3 if not ctx.thorough else 4
    if ctx.thorough:
        pass
    probe = [Ln('#ifdef A', 'ifdef A 0'), Ln('mk_def_A', 't mk_def_A'), Ln('#endif', 'endif 0')]
    seqs = []
    for n in range(1, L + 1):
        for combo in itertools.product(range(len(alpha)), repeat=n):
            lines = []
            for k, i in enumerate(combo):
                c, m = alpha[i]
                if c == 'mk_t':
                    c, m = f'mk_t{k}', f't mk_t{k}'
                lines.append(Ln(c, m))
            seqs.append(lines + probe)
    proto = ''.join('\n'.join(l.p for l in s) + '\nend\n' for s in seqs)
    out = ctx.driver('cond', proto).splitlines()
    if len(out) != len(seqs):
        corr.disagreements.append({'kind': 'driver protocol (exhaustive)', 'note': f'{len(out)} answers for {len(seqs)}'})
        return
    d = case_dir(ctx, 'exh')
    bad = 0
    for lines, ans in zip(seqs, out):
        r = parse_drv(ans)
        write_unit(d, 'e.c', lines)
        impl, ierr = run_pp([ctx.cc, '-E', 'e.c'], d)
        corr.evaluations += 1
        model = model_markers(r['model']) if r else ans
        if r and r['model'] != r['spec']:
            corr.disagreements.append({'kind': 'exhaustive: model vs Spec.groups (theorem C10_groups contradicted?)', 'input': '\n'.join(l.c for l in lines),
                                       'model': r['model'], 'spec': r['spec']})
            bad += 1
        if impl != model:
            src = '\n'.join(l.c for l in lines) + '\n'
            corr.disagreements.append({'kind': 'exhaustive short sequence: model vs chibicc -E', 'input': src, 'model': model, 'impl': impl, 'stderr': ierr[-200:]})
            gcc, _ = run_pp(['gcc', '-E', '-P', 'e.c'], d)
            if gcc.startswith('ok:') and gcc != impl:
                corr.violations.append({'what': 'chibicc -E selects different text than gcc -E -P', 'input': src, 'expected': gcc, 'got': impl})
            bad += 1
        if bad >= 3:
            break
    corr.count('exhaustive-short', len(seqs))
    corr.extra['exhaustive_subspace'] = (f'all sequences of 1..{L} lines over {{text, #if 0, #if 1, #ifdef A, #ifndef A, #elif 0, #elif 1, #else, #endif, '
                                         f'#define A, #undef A}} ({len(seqs)} translation units, well-formed or not): chibicc -E == model')

# ============================================================================ entry points

# ============================================================================ #if lines as tokens (Model/IfParse.lean, drv_c10 ifline)

IFL_MACROS = [('MA', '1 + 2'), ('MB', '( 1 + 2 )'), ('MC', 'MA * 2'), ('MSELF', 'MSELF + 1'), ('MEMPTY', ''), ('MU', '0u'), ('MCH', "'a'"),
              ('MNEG', '-'), ('MX', 'MY 1'), ('MY', 'MX +'), ('MBIG', '0xffffffffffffffff'), ('MCL', ')'), ('MLT', '1 <'), ('MZ', 'zzz_undefined')]
IFL_JUNK = [('P', s) for s in ['(', ')', '+', '-', '*', '/', '%', '<<', '>>', '<', '>', '<=', '>=', '==', '!=', '&', '^', '|', '&&', '||', '?', ':',
                                ',', '!', '~', '=', '+=', '++', '--', '[', ']', '{', '}', '.', '->', ';', '#']] + \
           [('N', '1'), ('N', '0'), ('N', '2u'), ('N', '1.5'), ('N', '1x'), ('N', '0x'), ('N', '08'), ('O', '"s"'), ('O', "'a'"), ('I', 'zzz_undefined'),
            ('I', 'defined'), ('I', 'true')]


def lex_simple(text):
    """tokens of a macro body written with blanks between all tokens"""
    out = []
    for w in text.split():
        if w[0].isdigit():
            out.append(('N', w))
        elif w[0] in "'\"" or (w[0] in 'LuU' and len(w) > 1 and w[1] in "'\""):
            out.append(('O', w))
        elif w[0].isalpha() or w[0] == '_':
            out.append(('I', w))
        else:
            out.append(('P', w))
    return out


IFL_AVOIDED = [0]
IFL_AVOID_U_HIGH = [False]     # set by ifline_cases from Gen/LiteralsGen.lean


def ifl_lit(rng, value=None):
    """mk_lit.  Transitional: while the literal model of property C11 (Gen/LiteralsGen.lean `charPrefixes`, which `cvTok` uses) still
    has the arm of tokenize.c from before the repair "U'\\xFFFFFFFF' is 0xFFFFFFFF in #if" (value kept sign-extended, post-processing
    `.none`), UTF-32 character constants with bit 31 set are not generated here (counted); with the repaired arm they are."""
    while True:
        l = mk_lit(rng, value)
        if IFL_AVOID_U_HIGH[0] and l[2].startswith("U'") and l[1] >= (1 << 31):
            IFL_AVOIDED[0] += 1
            continue
        return l


def gen_tl(rng, depth, names):
    """tree of a controlling expression; also the comma operator, which gen_expr does not produce"""
    if depth <= 0 or rng.random() < 0.2:
        r = rng.random()
        if r < 0.5:
            return ifl_lit(rng, rng.choice([None, rng.randrange(0, 6)]))
        if r < 0.75:
            return ('i', rng.choice(names + KEYWORD_IDENTS))
        return ('d', rng.choice(names + ['zzz_undefined']), rng.choice(['p', 's']))
    sub = lambda: gen_tl(rng, depth - 1, names)
    r = rng.random()
    if r < 0.17:
        return ('u', rng.choice(list(UN)), sub())
    if r < 0.29:
        return ('c', sub(), sub(), sub())
    if r < 0.34:
        return ('k', sub(), sub())
    op = rng.choice(list(BIN))
    a = sub()
    if op in ('shl', 'shr'):
        b = ifl_lit(rng, rng.choice([0, 1, 2, 5, 31, 32, 33, 40, 62, 63]))
    elif op in ('div', 'mod') and rng.random() < 0.8:
        b = ifl_lit(rng, rng.choice([1, 2, 3, 7, 0xffffffff, 0xffffffffffffffff]))
    else:
        b = sub()
    return ('b', op, a, b)


def tl_tokens(e, rng, prec=0):
    """tokens of the tree with the parentheses the C11 grammar requires (and a few redundant ones).  Levels: comma -1, ?: 0,
    || 1 ... * / % 10, unary 11"""
    k = e[0]
    if k == 'n':
        return [('O' if ("'" in e[2]) else 'N', e[2])]
    if k == 'i':
        return [('I', e[1])]
    if k == 'd':
        return [('I', 'defined'), ('P', '('), ('I', e[1]), ('P', ')')] if e[2] == 'p' else [('I', 'defined'), ('I', e[1])]
    if k == 'u':
        ts, myp = [('P', UN[e[1]])] + tl_tokens(e[2], rng, 11), 11
    elif k == 'b':
        sym, p = BIN[e[1]]
        ts, myp = tl_tokens(e[2], rng, p) + [('P', sym)] + tl_tokens(e[3], rng, p + 1), p
    elif k == 'c':
        ts, myp = tl_tokens(e[1], rng, 1) + [('P', '?')] + tl_tokens(e[2], rng, -1) + [('P', ':')] + tl_tokens(e[3], rng, 0), 0
    else:
        ts, myp = tl_tokens(e[1], rng, 0) + [('P', ',')] + tl_tokens(e[2], rng, -1), -1
    if myp < prec or rng.random() < 0.08:
        return [('P', '(')] + ts + [('P', ')')]
    return ts


def tl_norm(e, defined):
    """the tree chibicc's parser builds for a macro-free line, in the driver's prefix notation"""
    k = e[0]
    if k == 'n':
        return f'n {e[1]} {"u" if e[3] else "s"}'
    if k == 'i':
        return 'n 0 s'
    if k == 'd':
        return f'n {1 if e[1] in defined else 0} s'
    if k == 'u':
        return tl_norm(e[2], defined) if e[1] == 'plus' else f'u {e[1]} {tl_norm(e[2], defined)}'
    if k == 'b':
        a, b = tl_norm(e[2], defined), tl_norm(e[3], defined)
        if e[1] in ('gt', 'ge'):
            return f'b {"lt" if e[1] == "gt" else "le"} {b} {a}'
        return f'b {e[1]} {a} {b}'
    if k == 'c':
        return f'c {tl_norm(e[1], defined)} {tl_norm(e[2], defined)} {tl_norm(e[3], defined)}'
    return f'k {tl_norm(e[1], defined)} {tl_norm(e[2], defined)}'


def tok_proto(ts):
    return ' '.join(k + (t.encode().hex() if k == 'O' else t) for k, t in ts)


def ifl_final_positions(ts):
    """macro-free line `#if t0 t1 ...` (one blank between tokens): for each token that const_expr sees, ('orig', column) or
    ('new',) for the 0/1 tokens made by new_num_token; None if read_const_expr rejects the line"""
    cols, c = [], 4
    for k, t in ts:
        cols.append(c)
        c += len(t) + 1
    out, i = [], 0
    while i < len(ts):
        k, t = ts[i]
        if k == 'I' and t == 'defined':
            if i + 1 < len(ts) and ts[i + 1] == ('P', '('):
                if i + 2 < len(ts) and ts[i + 2][0] == 'I':
                    if i + 3 < len(ts) and ts[i + 3] == ('P', ')'):
                        out.append(('new',)); i += 4; continue
                return None
            if i + 1 < len(ts) and ts[i + 1][0] == 'I':
                out.append(('new',)); i += 2; continue
            return None
        out.append(('new',) if k == 'I' else ('orig', cols[i]))
        i += 1
    return out


IFL_MSG = (('no expression', 'noexpr'), ('expected an expression', 'expected-expr'), ("expected ')'", 'expected)'), ("expected ':'", 'expected:'),
           ('extra token', 'extra'), ('macro name must be an identifier', 'defined'), ('division by zero', 'divzero'))


def ifl_chibicc_diag(stderr):
    """(class, line, column, displayed source line) of the diagnostic chibicc died with"""
    lines = stderr.splitlines()
    for j in range(len(lines) - 1, 0, -1):
        m = re.match(r'(\s*)\^ (.*)$', lines[j])
        h = re.match(r'^(\S+?):(\d+): (.*)$', lines[j - 1])
        if m and h:
            cls = next((c for pat, c in IFL_MSG if pat in m.group(2)), 'other:' + m.group(2)[:50])
            prefix = len(h.group(1)) + len(h.group(2)) + 3
            return cls, int(h.group(2)), len(m.group(1)) - prefix, h.group(3)
    return 'none', 0, 0, ''


def ifline_cases(ctx, corr, n_valid, n_bad, stop_early=True):
    """`#if` lines as token lists: chibicc -E  vs  Model/IfParse.lean through `drv_c10 ifline` (tree, diagnostic class and position,
    decision)  vs  gcc -E -P -std=c11 -pedantic-errors (decision; -pedantic-errors makes gcc diagnose an evaluated comma
    operator, C11 6.6p3), and the model's tree vs the tree the generator printed (macro-free lines)."""
    rng = ctx.rng
    d = case_dir(ctx, 'ifline')
    open(os.path.join(d, 'w.c'), 'w').write("#if U'\\xFFFFFFFF' == 0xFFFFFFFF\nmk_t\n#else\nmk_f\n#endif\n")
    corr.extra['repaired_char32_bit31_in_if'] = {'input': "#if U'\\xFFFFFFFF' == 0xFFFFFFFF", 'chibicc': run_pp([ctx.cc, '-E', 'w.c'], d)[0],
                                                          'C11/gcc': run_pp(['gcc', '-E', '-P', 'w.c'], d)[0]}
    IFL_AVOIDED[0] = 0
    lg = open(os.path.join(ctx.lean_dir, 'ChibiVerif/Gen/LiteralsGen.lean')).read()
    IFL_AVOID_U_HIGH[0] = bool(re.search(r'\(\[85\], \.ty_uint, \.none\)', lg))
    cases = []
    for j in range(n_valid + n_bad):
        macros = rng.sample(IFL_MACROS, rng.choice([0, 0, 1, 2, 4])) if rng.random() < 0.5 else []
        names = [m for m, _ in macros]
        e = gen_tl(rng, rng.choice([1, 2, 3, 4, 5]), names)
        ts = tl_tokens(e, rng)
        bad = j >= n_valid
        if bad:
            for _ in range(rng.choice([1, 1, 1, 2])):
                r = rng.random()
                if r < 0.35 and ts:
                    del ts[rng.randrange(len(ts))]
                elif r < 0.7:
                    ts.insert(rng.randrange(len(ts) + 1), rng.choice(IFL_JUNK))
                elif r < 0.85 and ts:
                    ts = ts[:rng.randrange(len(ts))]
                elif ts:
                    ts[rng.randrange(len(ts))] = rng.choice(IFL_JUNK)
        uses_macro = any(k == 'I' and t in names for k, t in ts)
        # the order of the #define lines matters for nothing (bodies are rescanned at the point of use)
        src = ''.join(f'#define {m} {b}\n' for m, b in macros)
        line_no = len(macros) + 1
        src += '#if ' + ' '.join(t for _, t in ts) + f'\nmk_{j}_t\n#else\nmk_{j}_f\n#endif\n'
        proto = ''.join(f'define {m} {tok_proto(lex_simple(b))}\n' for m, b in macros)
        proto += f'tree {tok_proto(ts)}\nif {tok_proto(ts)}\nt mk_{j}_t\nelse\nt mk_{j}_f\nendif\nend\n'
        cases.append({'j': j, 'e': e, 'ts': ts, 'bad': bad, 'macros': macros, 'uses_macro': uses_macro, 'src': src, 'proto': proto,
                      'line': line_no, 'want_tree': None if (bad or uses_macro) else tl_norm(e, set(names))})
    corr.count('ifline:avoided-U-high', IFL_AVOIDED[0])
    out = ctx.driver('ifline', ''.join(c['proto'] for c in cases)).splitlines()
    if len(out) != 2 * len(cases):
        corr.disagreements.append({'kind': 'driver protocol (ifline)', 'note': f'{len(out)} answers for {len(cases)} cases'})
        return
    for c, l1, l2 in zip(cases, out[0::2], out[1::2]):
        m1 = re.match(r'comma=([01]) shift=([01]) undef=([01]) tree=(.*)$', l1)
        m2 = re.match(r'model=(.*?) spec=(.*?) region=([01])$', l2)
        if not m1 or not m2:
            corr.disagreements.append({'kind': 'driver protocol (ifline)', 'input': c['src'], 'got': l1 + ' / ' + l2})
            return
        c.update(comma=m1.group(1) == '1', shift=m1.group(2) == '1', undef=m1.group(3) == '1', tree=m1.group(4),
                 model=model_markers(m2.group(1)), spec=model_markers(m2.group(2)))
    for c in cases:
        j, src = c['j'], c['src']
        corr.evaluations += 1
        open(os.path.join(d, 'l.c'), 'w').write(src)
        rc1, o1, e1 = sh([ctx.cc, '-E', 'l.c'], cwd=d, timeout=20)
        rc2, o2, e2 = sh(['gcc', '-E', '-P', '-std=c11', '-pedantic-errors', 'l.c'], cwd=d, timeout=20)
        a = 'ok:' + ','.join(MARK.findall(o1)) if rc1 == 0 else 'err'
        g = 'ok:' + ','.join(MARK.findall(o2)) if rc2 == 0 else 'err'
        tree = c['tree']
        corr.count('ifline:' + ('tree' if not tree.startswith('err:') else tree.split('@')[0][4:]))
        if c['macros']:
            corr.count('ifline:with-macros')
        if len(c['ts']) >= 5:
            corr.nontrivial.add('ifline:' + hashlib.sha1(src.encode()).hexdigest())
        if c['undef']:
            corr.count('skipped_ub')
            continue
        if tree.startswith('err:unmodelled'):
            # outside the fragment of the model: no claim, except that a line gcc and the grammar reject is not silently *selected* wrongly
            corr.count('skipped_unmodelled')
            continue
        # ---- model vs code
        if not tree.startswith('err:'):
            if c['want_tree'] is not None and tree != c['want_tree']:
                corr.disagreements.append({'kind': '#if line: tree of the model vs tree the generator printed', 'input': src, 'model': tree,
                                           'expected': c['want_tree']})
            if c['model'].startswith('ok:'):
                if a != c['model']:
                    corr.disagreements.append({'kind': '#if line: decision of the model vs chibicc -E', 'input': src, 'model': c['model'],
                                               'impl': a + ' ' + e1[-200:], 'gcc': g})
            else:
                cls = ifl_chibicc_diag(e1)[0] if rc1 != 0 else 'accepted'
                if cls != 'divzero':
                    corr.disagreements.append({'kind': '#if line: the model reports a division by zero, chibicc -E does not', 'input': src,
                                               'impl': a + ' ' + cls, 'gcc': g})
        else:
            mcls, _, mi = tree[4:].partition('@')
            cls, ln, col, shown = ifl_chibicc_diag(e1) if rc1 != 0 else ('accepted', 0, 0, '')
            okc = cls == mcls or (mcls == 'defined' and cls == 'expected)') or (mcls == 'expand' and rc1 != 0)
            if not okc:
                corr.disagreements.append({'kind': '#if line: diagnostic class of the model vs chibicc -E', 'input': src, 'model': tree,
                                           'impl': cls + ' ' + e1[-200:], 'gcc': g})
            elif mi and not c['uses_macro'] and mcls != 'divzero':
                pos = ifl_final_positions(c['ts'])
                if pos is not None:
                    i = int(mi)
                    if i >= len(pos):
                        want = (c['line'] + 1, 0)
                    elif pos[i][0] == 'orig':
                        want = (c['line'], pos[i][1])
                    else:
                        want = (c['line'], 0)
                    corr.count('ifline:located')
                    if (ln, col) != want:
                        corr.disagreements.append({'kind': '#if line: position of the diagnostic, model vs chibicc -E', 'input': src, 'model': tree,
                                                   'expected_line_col': list(want), 'impl': [ln, col, shown]})
        # ---- specification vs gcc, code vs gcc
        if c['comma']:
            corr.count('ifline:comma-latitude')        # gcc -pedantic-errors rejects an evaluated comma; chibicc takes the right operand
        else:
            spec_c = c['spec'] if c['spec'].startswith('ok:') else 'err'
            if spec_c != g:
                corr.disagreements.append({'kind': '#if line: C11 value of the parsed tree (specification) vs gcc -E -P (specification wrong?)',
                                           'input': src, 'spec': c['spec'], 'tree': tree, 'gcc': g + ' ' + e2[-200:]})
            if g.startswith('ok:') and a != g:
                v = {'what': '#if line: the group chibicc -E selects differs from C11 (gcc -E -P -pedantic-errors)', 'input': src, 'expected': g,
                     'got': a + ('' if rc1 == 0 else ' ' + ifl_chibicc_diag(e1)[0])}
                if c['shift'] and a == c['model']:
                    v['known_id'] = KNOWN_SHIFT
                    corr.count('known:' + KNOWN_SHIFT)
                corr.violations.append(v)
            elif g == 'err' and a.startswith('ok:'):
                corr.violations.append({'what': '#if line without a value accepted (C11 6.10.1p1, 6.6; gcc rejects it)', 'input': src,
                                        'expected': 'a diagnostic (' + e2.strip().splitlines()[0][:100] + ')' if e2.strip() else 'a diagnostic', 'got': a})
        if stop_early and (len([v for v in corr.violations if not v.get('known_id')]) >= 3 or len(corr.disagreements) >= 3):
            return
    corr.sample({'#if lines as tokens': [c['src'].splitlines()[len(c['macros'])] for c in cases[:4]] +
                 [c['src'].splitlines()[len(c['macros'])] + '   -> ' + c['tree'] for c in cases[n_valid:n_valid + 4]]})


def ifunparse_cases(ctx, corr, n, stop_early=True):
    """the printer Model/IfUnparse.lean `unparseTop` (minimal parentheses; Props/C10IfParseComplete.lean C10_ifparse_unparse) against the
    code: for the tree t the model assigns to a generated macro-free line, `#if <unparseTop t>` must make chibicc -E select the group
    of chibicc's evaluation of t as modelled (and the group of the original line), and – outside the comma latitude – the group gcc
    -E -P selects; the driver re-runs ifParse (unparseTop t) = t."""
    rng = ctx.rng
    d = case_dir(ctx, 'ifunparse')
    lines = []
    for j in range(n):
        e = gen_tl(rng, rng.choice([2, 3, 4, 5, 6]), [])
        lines.append(tl_tokens(e, rng))
    out = ctx.driver('ifunparse', ''.join(tok_proto(ts) + '\n' for ts in lines)).splitlines()
    if len(out) != len(lines):
        corr.disagreements.append({'kind': 'driver protocol (ifunparse)', 'note': f'{len(out)} answers for {len(lines)} cases'})
        return
    shown = []
    for ts, ans in zip(lines, out):
        orig = ' '.join(t for _, t in ts)
        if ans.startswith('skip:'):
            corr.count('ifunparse:skip-' + ans[5:].split('@')[0])
            continue
        m = re.match(r'rt=([01]) wf=([01]) comma=([01]) shift=([01]) undef=([01]) val=(t|f|err) toks=(.*)$', ans)
        if not m:
            corr.disagreements.append({'kind': 'driver protocol (ifunparse)', 'input': orig, 'got': ans})
            return
        rt, wf, comma, shift, undef, val, toks = m.groups()
        corr.evaluations += 1
        if rt != '1' or wf != '1':
            corr.disagreements.append({'kind': 'ifParse (unparseTop t) != t or t not well-formed (contradicts C10_ifparse_unparse / _image)',
                                       'input': orig, 'got': ans})
            continue
        if undef == '1':
            corr.count('skipped_ub')
            continue
        res = {}
        for name, text in (('original', orig), ('printed', toks)):
            open(os.path.join(d, 'u.c'), 'w').write(f'#if {text}\nmk_t\n#else\nmk_f\n#endif\n')
            rc1, o1, e1 = sh([ctx.cc, '-E', 'u.c'], cwd=d, timeout=20)
            res[name] = ('ok:' + ','.join(MARK.findall(o1))) if rc1 == 0 else 'err'
        rc2, o2, e2 = sh(['gcc', '-E', '-P', '-std=c11', '-pedantic-errors', 'u.c'], cwd=d, timeout=20)   # u.c holds the printed line
        g = ('ok:' + ','.join(MARK.findall(o2))) if rc2 == 0 else 'err'
        want = {'t': 'ok:mk_t', 'f': 'ok:mk_f', 'err': 'err'}[val]
        corr.count('ifunparse:printed')
        if len(toks.split()) < len(ts):
            corr.count('ifunparse:fewer-tokens-than-generated')
        if len(ts) >= 5:
            corr.nontrivial.add('ifunparse:' + hashlib.sha1(toks.encode()).hexdigest())
        if len(shown) < 4 and len(ts) >= 7:
            shown.append(orig + '   -> ' + toks)
        if res['printed'] != want or res['original'] != want:
            corr.disagreements.append({'kind': '#if line printed by unparseTop: chibicc -E vs the model\'s value of the tree', 'input': orig,
                                       'printed': toks, 'model': want, 'impl_printed': res['printed'], 'impl_original': res['original'], 'gcc': g})
        elif comma == '0' and g.startswith('ok:') and res['printed'] != g:
            v = {'what': '#if line: the group chibicc -E selects differs from C11 (gcc -E -P -pedantic-errors)', 'input': '#if ' + toks,
                 'expected': g, 'got': res['printed']}
            if shift == '1':
                v['known_id'] = KNOWN_SHIFT
                corr.count('known:' + KNOWN_SHIFT)
            corr.violations.append(v)
        if stop_early and (len([v for v in corr.violations if not v.get('known_id')]) >= 3 or len(corr.disagreements) >= 3):
            return
    corr.sample({'#if lines re-printed with minimal parentheses': shown})


def correspond(ctx, corr):
    corr.rule = ('(1) corpus of repaired defects; (2) generated conditional nests (depth <= 5; controlling expressions over suffixed literals, '
                 'all operators incl. ?:, defined, undefined identifiers and keywords, macros defined earlier; #elif chains; trailing tokens; null '
                 'directives followed by text that starts with a directive name; ill-formed streams) with a distinct marker on every text line and '
                 'probes for the final macro table: marker stream of chibicc -E == drv_c10 (model) and, on valid input, == gcc -E -P == Spec.groups; '
                 '(3) #if arithmetic battery (intmax_t/uintmax_t boundaries, unevaluated division by zero) + random defined expressions; '
                 '(4) include graphs over 2-4 directories + a controllable system directory (same header name in several directories, quoted/angle, '
                 '#include_next chains, guarded / almost-guarded / #pragma once shapes, re-inclusion after #undef of the guard, two path spellings) x '
                 'orders of -I/-idirafter/-D/-U/-include, #include operands produced by (chains of) object-like macros in both forms: chibicc -E == model '
                 '== model without the guard shortcut, and == gcc -E -P with the same options; (5) include cycles and deep nests: self-include '
                 '(by name, by __FILE__), 2- and 3-cycles over quoted/angle/#include_next/macro-named operands, cycles ended by guards, #pragma once, '
                 'counting conditionals or a false conditional, cycles in skipped groups, chains of exactly 15/199/200/201/202 nested files, a missing '
                 'file / a guarded / a #pragma-once header named at depth 200: outcome (marker stream, or diagnostic class + file:line of "#include '
                 'nested too deeply") of chibicc -E == model (total function IncludeDepth.includeRun, no step budget) and == gcc -E -P '
                 '-fmax-include-depth=201; (6) character constants of every prefix and spelling in #if; (7) #if lines as TOKEN lists (every operator, nesting, '
                 'comma, both defined forms, undefined identifiers and keywords, suffixed and character constants, object-like macros with token-level '
                 'bodies incl. self-reference, empty and unbalanced bodies; token-level mutations for malformed lines): tree of Model/IfParse.lean == '
                 'tree the generator printed, decision == chibicc -E == gcc -E -P -pedantic-errors, diagnostic class and line:column == chibicc -E; '
                 '(8) the tree of a generated line re-printed with minimal parentheses (Model/IfUnparse.lean unparseTop): ifParse maps it back to the '
                 'tree, chibicc -E on the printed line == the model\'s value of the tree == chibicc -E on the original line (== gcc outside the comma latitude). '
                 'non-trivial = a nest with >= 3 opened conditionals beyond the probes, an arithmetic expression, or a graph with >= 4 files; '
                 'distinct = by source text + options.')
    run_corpus(ctx, corr)
    known_witness(ctx, corr)
    fixed_include_cases(ctx, corr)
    cycle_cases(ctx, corr, 60 if not ctx.thorough else 1500)
    exhaustive_short(ctx, corr)
    arith_cases(ctx, corr)
    ifline_cases(ctx, corr, *((500, 250) if not ctx.thorough else (8000, 4000)))
    nv, nb, ng = (700, 200, 350) if not ctx.thorough else (12000, 3000, 6000)
    for chunk in range(0, nv, 400):
        cond_cases(ctx, corr, min(400, nv - chunk), min(100, max(0, nb - chunk // 4)), 'nest')
        if corr.disagreements or [v for v in corr.violations if not v.get('known_id')]:
            break
    for chunk in range(0, ng, 300):
        include_cases(ctx, corr, min(300, ng - chunk))
        if corr.disagreements or [v for v in corr.violations if not v.get('known_id')]:
            break
    if not (corr.disagreements or [v for v in corr.violations if not v.get('known_id')]):
        ifunparse_cases(ctx, corr, 300 if not ctx.thorough else 5000)


def search(ctx, broken, corr):
    """a proof, the translator or the tie broke and the standard run saw no violation: look harder, gcc as the oracle"""
    c2 = Corr()
    for rnd in range(6):
        cycle_cases(ctx, c2, 40)
        cond_cases(ctx, c2, 300, 60, 'search')
        include_cases(ctx, c2, 200)
        arith_cases(ctx, c2)
        ifline_cases(ctx, c2, 300, 100)
        vs = [v for v in c2.violations if not v.get('known_id')]
        if vs:
            return vs[0]
    return None


def replay(ctx, corr, path):
    payload = json.load(open(path))
    inp = payload.get('input')
    d = case_dir(ctx, 'replay')
    setup_bin(ctx, d)
    corr.evaluations = 1
    if isinstance(inp, dict):
        for p, t in inp.items():
            os.makedirs(os.path.dirname(os.path.join(d, p)) or d, exist_ok=True)
            open(os.path.join(d, p), 'w').write(t)
        args = payload.get('args', [])
        main = 'm.c'
    elif isinstance(inp, str):
        open(os.path.join(d, 'm.c'), 'w').write(inp)
        args, main = [], 'm.c'
    else:
        corr.extra['replay'] = 'replay file carries no input'
        return
    got, err = run_pp(['bin/chibicc', '-E'] + args + [main], d)
    want, _ = run_pp(['gcc', '-E', '-P', '-nostdinc', '-isystem', 'bin/include'] + args + [main], d)
    print('replay: chibicc', got, '| gcc', want)
    if want.startswith('ok:') and got != want:
        corr.violations.append({'what': payload.get('what', 'replayed input still differs from gcc -E -P'), 'input': inp, 'args': args,
                                'expected': want, 'got': got})


MANIFEST = {
    'level_text': 'Lean 4 theorems for ALL line lists, macro tables, condition evaluators, configurations and file systems: the transcription '
                  'of preprocess2\'s conditional arms + cond_incl stack + skip_cond_incl/skip_cond_incl2 computes exactly the evaluation of '
                  'the C11 6.10.1 grammar tree, into which every line list parses (same text lines, same final macro table, same diagnostic '
                  'class: C10_groups, C10_parse_roundtrip); a skipped balanced group leaves macro table, output and stack untouched and the '
                  'skip returns at the matching #elif/#else/#endif (C10_skipped_no_effect, C10_skip_returns_at_matching, '
                  'C10_skip_transcription); dropped trailing tokens never matter (C10_trailing); '
                  'include search = documented order -I, system, -idirafter with the quoted form first looking beside the includer, the '
                  'filename cache never changes an answer, #include_next continues after the directory of the current file (C10_search*); '
                  'a file accepted by detect_include_guard, processed while its guard is defined, yields no tokens and no state change, '
                  'and include_file with the guard table = plain textual inclusion for every include graph (C10_shortcuts*); the include process '
                  'with include_file\'s nesting limit terminates for every include graph, cyclic or not: the spliced-stream machine transcribed from '
                  'the C code needs a finite step budget and then computes a total budget-free function, and "#include nested too deeply" is reported '
                  'only at the end of a chain of 200 nested includes (C10_include_terminates*); the operand forms of read_include_filename incl. '
                  'macro-produced operands (C10_operand_forms, C10_search_directive); -D/-U/-include '
                  'are equivalent to #define/#undef lines in command-line order and files in front of the main file (C10_cmdline). '
                  '#if arithmetic: _partial (known finding C10-ppif-int-result-shift: comparison results are typed int). '
                  '#if lines as TOKENS (Props/C10IfParse.lean): eval_const_expr -> read_const_expr -> expansion -> identifiers 0 -> conversion -> '
                  'const_expr/conditional...primary as a recursive-descent parser over the operator table regenerated from parse.c: total with fuel '
                  'length+1 and located outcomes (C10_ifparse_total), the regenerated table is the table of C11 6.5.5-6.5.14 (C10_ifparse_table), '
                  'every tree delivered is derived by the C11 6.5/6.6 grammar for exactly that token list (C10_ifparse_precedence) and conversely every '
                  'derivable line is parsed to its tree (C10_ifparse_complete; hence parser = grammar C10_ifparse_iff, the grammar is unambiguous '
                  'C10_ifparse_unique, a rejected line has no C11 parse C10_ifparse_reject, print-with-minimal-parentheses then parse is the identity '
                  'on the parser\'s image C10_ifparse_unparse / C10_ifparse_image; Props/C10IfParseComplete.lean), defined before '
                  'expansion / identifiers 0 after it (C10_ifparse_defined), and token line => decision = C11 value of the C11 parse tree, lifted to '
                  'whole units through C10_groups (C10_ifline, C10_ifline_groups; outside comma operator / known finding / undefined behaviour). '
                  'Tied to the code on every run by a translator that pins the text of every transcribed arm and by differential '
                  'execution of chibicc -E, the model and gcc -E -P on generated nests, arithmetic and include graphs.',
    'level_note': 'Trusted: Lean kernel (axioms propext, Classical.choice, Quot.sound; audited each run); the abstraction of files to lines '
                  '(done by the generator, which renders every line both ways); the C11/gcc reading in Spec/CondInclSpec.lean and '
                  'Model/PPExpr.lean (validated against gcc 12 each run); parse.c\'s expression evaluator is modelled at the value level; its expression parser is modelled for the fragment a controlling '
                  'expression can contain (tokens that leave the fragment are the explicit outcome `unmodelled`); macro expansion inside #if lines is a '
                  'parameter of the theorems (object-like expansion in the correspondence runs; the general expander is property C09); the values of '
                  'integer and character constants come from the literal model of property C11. '
                  'The path-prefix approximation in search_include_next (nested include directories) and #pragma once by path spelling '
                  'are stated as assumptions and not generated against gcc.',
    'technique': 'Lean 4: simulation proof machine = grammar-tree evaluation by mutual structural induction over the tree + parser '
                 'round-trip; list lemmas for the search order; translator-pinned code text; three-way differential run '
                 '(chibicc -E / Lean model / gcc -E -P) with marker streams',
    'design_ref': 'DESIGN.md section 6, C10',
}
