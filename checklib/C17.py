"""C17 - name tables behave as dictionaries under any history (hashmap.c + macro table)."""
import os, json, itertools, hashlib
from .framework import *
from . import c17_clients, c17_wrap

PROPERTY = 'C17'
GEN_MODULES = ['hashmap', 'lexgen']
LEAN_TARGETS = ['ChibiVerif.Props.C17', 'ChibiVerif.Props.C17Clients', 'ChibiVerif.Props.C17Hash', 'ChibiVerif.Props.C17Bound',
                'ChibiVerif.Findings.C17', 'ChibiVerif.Findings.C17Deep', 'ChibiVerif.Findings.C17Rehash']
PROPS_FILES = ['ChibiVerif/Props/C17.lean', 'ChibiVerif/Props/C17Clients.lean', 'ChibiVerif/Props/C17Hash.lean',
               'ChibiVerif/Props/C17Bound.lean']
NEEDS_HOOKS = False
TRUSTED_BASE = [
    'Lean 4.33.0 kernel; axioms admitted: propext, Classical.choice, Quot.sound (audited per theorem on every run)',
    'hand-written model lean/ChibiVerif/Model/HashMap.lean of hashmap.c; tied by state-level correspondence '
    '(every bucket after every operation) through tools/harness/hashmap_harness.c, which #includes the snapshot hashmap.c',
    'translator tools/extract/hashmap.py (INIT_SIZE, watermarks, fnv_hash constants and shape, probe expression; the complete '
    'inventory of hashmap.c: twelve signatures, four macros, no other file-scope text; rehash() recognised statement by statement '
    'with its load test and doubling step translated, get_entry/get_or_insert_entry/match/wrappers pinned: anything else is an '
    'ExtractError)',
    'checklib/c17_wrap.py steers its directed histories with a python double of hashmap.c (which bucket is empty, when the next '
    'rehash falls); the double is never an oracle, and whether the target event (a rehash that keeps the capacity while a probe '
    'cluster with a tombstone wraps around the array end) happened is measured on the real table\'s output',
    'C int arithmetic modelled in Nat: assumes capacity*100 < 2^31 (fewer than ~10^7 live names)',
    'macro-table clients (add_macro/undef_macro/find_macro, -D/-U) are tied by running the real chibicc -E on generated '
    'define/undef histories against the abstract dictionary',
    'key conventions of the clients (Model/C17Clients.lean: token span, strndup+strlen, existing C string) are tied by running '
    'the real hashmap_get/put/delete wrappers with real strndup/strlen (gcc+ASan build and a chibicc-built stage-2 build of '
    'the same harness) against drv_c17 hashmapx; the list of all hashmap_* call sites with the provenance of every key '
    '(Gen/HashSitesGen.lean) is produced by tools/extract/hashmap.py from the source text (parameters, locals and return values '
    'followed through the nine files) and cross-checked against the number of references clang-14 sees in the typed AST; '
    'the typing of the probe index and of the fnv step is checked node by node against clang-14\'s AST',
    'scopes, typedef/tag tables, keyword sets and the macro table are driven through the compiler itself on adversarial '
    'identifier families with gcc 12 and a python oracle as references (testing)',
    'not proved: that no object is written after its address became a key (supported by C17_key_memory_stable: no free, '
    'realloc only of two pointer arrays, in-place buffer rewriters run before tokenization)',
]
ASSUMPTIONS = ['values stored in tables are non-NULL (hashmap_get returning NULL means absent)',
               'keys are compared by length and bytes; the hash function is arbitrary in the theorems']

MASK = (1 << 64) - 1

def fnv(s, consts):
    h = consts['off']
    for c in s.encode():
        h = (h * consts['prime']) & MASK
        h ^= c
    return h

def fnv_bytes(b, consts):
    h = consts['off']
    for c in b:
        h = (h * consts['prime']) & MASK
        h ^= c
    return h

def read_consts(ctx):
    txt = open(os.path.join(ctx.lean_dir, 'ChibiVerif/Gen/HashMapGen.lean')).read()
    g = lambda n: int(re.search(n + r' : \w+ := (\S+)', txt).group(1), 0)
    return {'off': g('FNV_OFFSET'), 'prime': g('FNV_PRIME'), 'init': g('INIT_SIZE'),
            'hi': g('HIGH_WATERMARK'), 'lo': g('LOW_WATERMARK')}

def build_harness(ctx):
    exe = os.path.join(ctx.scratch, 'hashmap_harness')
    if os.path.exists(exe):
        return exe
    rc, o, e = sh(['gcc', '-O1', '-g', '-w', '-fsanitize=address,undefined', '-fno-sanitize-recover=all',
                   '-I', ctx.snapshot, os.path.join(VERIF, 'tools/harness/hashmap_harness.c'), '-o', exe], timeout=300)
    if rc != 0:
        raise BuildFailure('hashmap harness does not compile against the snapshot: ' + e[-1500:])
    return exe

def build_harness_stage2(ctx):
    """the same harness compiled by the snapshot's chibicc: hashmap.c as the stage-2 compiler would contain it"""
    exe = os.path.join(ctx.scratch, 'hashmap_harness_s2')
    if os.path.exists(exe):
        return exe
    rc, o, e = sh([ctx.cc, '-I', ctx.snapshot, '-o', exe, os.path.join(VERIF, 'tools/harness/hashmap_harness.c')], timeout=300)
    if rc != 0 or not os.path.exists(exe):
        raise BuildFailure('chibicc does not compile the hashmap harness: ' + (e or o)[-1500:])
    return exe

def run_impl(ctx, text, stage2=False):
    exe = build_harness_stage2(ctx) if stage2 else build_harness(ctx)
    env = dict(os.environ, ASAN_OPTIONS='detect_leaks=0:abort_on_error=0')
    rc, o, e = sh([exe], input=text, timeout=600, env=env)
    lines = o.splitlines()
    if rc != 0:
        lines.append(f'crash signal-or-sanitizer rc={rc} ' + (e.strip().splitlines()[0][:200] if e.strip() else ''))
    return lines

def abstract_run(ops):
    """the dictionary specification: answers of the gets"""
    d = {}
    outs = []
    for op in ops:
        if op[0] == 'put':
            d[op[1]] = op[2]
        elif op[0] == 'del':
            d.pop(op[1], None)
        elif op[0] == 'get':
            outs.append(d.get(op[1]))
        elif op[0] == 'reset':
            d = {}
    return outs

def fmt(ops):
    return ''.join(' '.join(str(x) for x in op) + '\n' for op in ops)

def colliding_keys(consts, modulus, want, residue=None, start=0, prefix='k'):
    """names kN whose fnv hash has the same residue mod `modulus`"""
    found = {}
    i = start
    while True:
        k = f'{prefix}{i}'
        r = fnv(k, consts) % modulus
        found.setdefault(r, []).append(k)
        if residue is None and len(found[r]) >= want:
            return found[r]
        if residue is not None and len(found.get(residue, [])) >= want:
            return found[residue]
        i += 1

def impl_gets(lines):
    outs = []
    for l in lines:
        if l.startswith('get '):
            outs.append(None if l == 'get NULL' else int(l[4:]))
    return outs

def check_history(ctx, ops):
    """returns None if the implementation answers like a dictionary, else a description"""
    lines = run_impl(ctx, fmt(ops))
    for l in lines:
        if l.startswith('crash'):
            return f'table maintenance aborted: {l}'
    want = abstract_run(ops)
    got = impl_gets(lines)
    if want != got:
        for i, (w, g) in enumerate(zip(want, got)):
            if w != g:
                return f'get #{i} returned {g}, dictionary says {w}'
        return f'{len(got)} answers for {len(want)} gets'
    return None

def shrink(ctx, ops):
    """chunk removal (halving chunk sizes) first, then one operation at a time"""
    ops = list(ops)
    chunk = max(1, len(ops) // 2)
    while chunk >= 2:
        i = 0
        while i < len(ops):
            cand = ops[:i] + ops[i + chunk:]
            if cand and check_history(ctx, cand):
                ops = cand
            else:
                i += chunk
        chunk //= 2
    changed = True
    while changed:
        changed = False
        for i in range(len(ops)):
            cand = ops[:i] + ops[i + 1:]
            if cand and check_history(ctx, cand):
                ops = cand
                changed = True
                break
    return ops

def gen_histories(ctx, consts):
    """list of (tag, ops)"""
    rng = ctx.rng
    hs = []
    init = consts['init']
    same = colliding_keys(consts, init, 4)
    other = colliding_keys(consts, init, 1, residue=(fnv(same[0], consts) + 7) % init)[0]
    adj = colliding_keys(consts, init, 2, residue=(fnv(same[0], consts) + 1) % init)
    # corpus: the original defect and relatives (past failures first)
    corpus_dir = os.path.join(VERIF, 'corpus', 'C17')
    if os.path.isdir(corpus_dir):
        for fn in sorted(os.listdir(corpus_dir)):
            ops = []
            for line in open(os.path.join(corpus_dir, fn)):
                w = line.split()
                if not w or w[0].startswith('#'):
                    continue
                ops.append((w[0], w[1], int(w[2])) if w[0] == 'put' else tuple(w))
            hs.append(('corpus:' + fn, ops))
    a, b, c = same[0], same[1], same[2]
    hs.append(('tomb-dup', [('put', a, 1), ('put', b, 2), ('del', a), ('put', b, 3), ('del', b), ('get', b), ('get', a)]))
    # directed: probe clusters wrapping around the array end, tombstones inside, through same-capacity rehashes (c17_wrap)
    hs += c17_wrap.wrap_histories(ctx, consts)
    # exhaustive short histories over colliding keys
    keys = [a, b, c, adj[0]]
    alphabet = []
    for k in keys[:3 if not ctx.thorough else 4]:
        alphabet += [('put', k), ('del', k)]
    L = 5 if not ctx.thorough else 6
    n = 0
    for seq in itertools.product(alphabet, repeat=L):
        # canonical: skip sequences starting with a delete (no-op on the empty table)
        if seq[0][0] == 'del':
            continue
        ops = []
        v = 1
        for o in seq:
            if o[0] == 'put':
                ops.append(('put', o[1], v)); v += 1
            else:
                ops.append(('del', o[1]))
        ops += [('get', k) for k in keys]
        hs.append(('exh', ops))
        n += 1
    # random long histories near the watermark with delete-reinsert bias on overlapping probe paths
    nrand = 40 if not ctx.thorough else 400
    for r in range(nrand):
        size = rng.choice([8, 12, 20, 40, 100, 300]) if not ctx.thorough else rng.choice([8, 12, 20, 40, 100, 300, 1500, 5000])
        pool_n = max(3, size // rng.choice([1, 2, 3]))
        if rng.random() < 0.5:
            # keys chosen to collide modulo the current or next capacity
            modulus = rng.choice([init, init * 2, init * 4])
            pool = colliding_keys(consts, modulus, min(pool_n, 12), start=rng.randrange(0, 5000))
            pool = pool + [f'x{rng.randrange(10**6)}' for _ in range(max(0, pool_n - len(pool)))]
        else:
            pool = [f'key{rng.randrange(10**6)}' for _ in range(pool_n)]
        ops = []
        v = 1
        live = set()
        for _ in range(size):
            x = rng.random()
            if x < 0.45:
                k = rng.choice(pool); ops.append(('put', k, v)); v += 1; live.add(k)
            elif x < 0.75:
                k = rng.choice(sorted(live)) if live and rng.random() < 0.8 else rng.choice(pool)
                ops.append(('del', k)); live.discard(k)
                if rng.random() < 0.5:
                    k2 = rng.choice(pool); ops.append(('put', k2, v)); v += 1; live.add(k2)
            else:
                ops.append(('get', rng.choice(pool)))
        ops += [('get', k) for k in pool[:50]]
        hs.append(('rand', ops))
    # the -hashmap-test history of the suite
    t = []
    for i in range(5000): t.append(('put', f'key{i}', i + 1))
    for i in range(1000, 2000): t.append(('del', f'key{i}'))
    for i in range(1500, 1600): t.append(('put', f'key{i}', i + 1))
    for i in range(6000, 7000): t.append(('put', f'key{i}', i + 1))
    t += [('get', f'key{i}') for i in range(0, 7000, 7)]
    hs.append(('suite', t))
    return hs

def nontrivial(lines):
    """a history is non-trivial if it produced a tombstone, a collision-displaced key or a table growth"""
    for l in lines:
        if ' T' in l or '[T' in l or 'tombs=' in l and 'tombs=0' not in l:
            return True
        m = re.search(r'cap=(\d+)', l)
        if m and int(m.group(1)) > 16:
            return True
    return False

def macro_histories(ctx, corr, consts):
    """#define/#undef/-D/-U histories through the real preprocessor against the dictionary"""
    rng = ctx.rng
    # the macro table already holds the predefined names (capacity 512 or 1024): identifiers that collide modulo 1024
    # collide modulo every smaller power of two as well
    names = colliding_keys(consts, 1024, 3, prefix='M') + ['ZED', 'QUUX']
    n = 30 if not ctx.thorough else 300
    for it in range(n):
        ops = []
        cmd = []
        d = {}
        for _ in range(rng.randrange(0, 4)):
            nm = rng.choice(names)
            if rng.random() < 0.6:
                v = rng.randrange(1, 1000)
                cmd.append(f'-D{nm}={v}'); d[nm] = str(v)
            else:
                cmd.append(f'-U{nm}'); d.pop(nm, None)
        src = []
        expect = []
        # a guarded header: the include-guard shortcut consults the macro table directly, so it is a client of the
        # dictionary too: re-inclusion must be skipped exactly when the guard's most recent operation was a definition
        guard, inner = names[0] + '_H', names[1] + '_IN'
        hdr = os.path.join(ctx.scratch, f'g{it}.h')
        hval = rng.randrange(1, 1000)
        open(hdr, 'w').write(f'#ifndef {guard}\n#define {guard}\n#define {inner} {hval}\n#endif\n')
        probe_names = names + [guard, inner]
        for _ in range(rng.randrange(3, 25)):
            nm = rng.choice(probe_names)
            x = rng.random()
            if x < 0.15:
                src.append(f'#include "{hdr}"')
                if guard not in d:
                    d[guard] = ''
                    d[inner] = str(hval)
                continue
            if x < 0.4:
                v = rng.randrange(1, 1000)
                if nm in d:
                    src.append(f'#undef {nm}')
                src.append(f'#define {nm} {v}'); d[nm] = str(v)
            elif x < 0.7:
                src.append(f'#undef {nm}'); d.pop(nm, None)
            else:
                src.append(f'#ifdef {nm}\nyes_{nm} {nm}\n#else\nno_{nm}\n#endif')
                expect.append(' '.join(f'yes_{nm} {d[nm]}'.split()) if nm in d else f'no_{nm}')
        for nm in probe_names:
            src.append(f'#ifdef {nm}\nyes_{nm} {nm}\n#else\nno_{nm}\n#endif')
            expect.append(' '.join(f'yes_{nm} {d[nm]}'.split()) if nm in d else f'no_{nm}')
        path = os.path.join(ctx.scratch, f'm{it}.c')
        open(path, 'w').write('\n'.join(src) + '\n')
        rc, o, e = sh([ctx.cc, '-E'] + cmd + [path], timeout=30)
        got = [' '.join(l.split()) for l in o.splitlines() if l.strip()]
        corr.evaluations += 1
        corr.count('macro-history')
        key = hashlib.sha1(('\n'.join(cmd + src)).encode()).hexdigest()
        if any(s.startswith('#undef') for s in src):
            corr.nontrivial.add(key)
        if rc != 0 or got != expect:
            corr.violations.append({'what': 'macro table does not follow last-write-wins', 'cmd': cmd, 'source': src,
                                    'expected': expect, 'got': got, 'rc': rc, 'stderr': e[-300:]})
            return
    corr.sample({'macro-history': {'cmd': cmd, 'source': src[:6], 'expected': expect[:4]}})

def correspond(ctx, corr):
    consts = read_consts(ctx)
    hs = gen_histories(ctx, consts)
    corr.rule = ('histories of put/del/get: corpus of past failures; all histories of length L over 3-4 keys with equal '
                 'fnv_hash mod 16 (exhaustive); seeded random histories biased to delete-then-reinsert on overlapping probe '
                 'paths and to the 70% watermark; the suite history.  Each is run on the real hashmap.c (in-process, ASan/UBSan) '
                 'and on the Lean model, states compared bucket by bucket after every op, and gets compared with the abstract '
                 'dictionary.  non-trivial = the run produced a tombstone or grew the table; distinct = by history text.  '
                 'Directed (c17_wrap): names chosen by their real fnv_hash so that a probe cluster wraps around the end of the bucket '
                 'array at 16, 32 and 64 buckets (7 fixed cluster shapes + seeded random ones), members deleted to leave tombstones inside '
                 'the cluster, then define/undefine churn over distinct names landing in empty buckets until a put rehashes WITHOUT growing, '
                 'every member looked up after every operation, survivors redefined, one undefined, a second purge; the same shapes with '
                 'rehash() called directly; all put/del histories of length L over 3-4 names at the array end followed by rehash(); '
                 'the events are counted on the real table\'s output (rehash_events_on_real_table) and required >= 1 at each capacity.  '
                 'The same cluster shapes as #define/#undef histories (names with fnv_hash mod 2^14 at the array end for every capacity '
                 'the macro table can have, 700 churn cycles with #ifdef probes) through chibicc -E against gcc -E.  '
                 'Plus #define/#undef/-D/-U histories through chibicc -E.  Plus histories of byte-string keys passed by the three '
                 'client conventions (token span with arbitrary following bytes, strndup+strlen, existing C string; families: prefix '
                 'chains, one-character names, 255/256/4000-byte names, UTF-8 and raw bytes >= 0x80, keywords and near-keywords, embedded '
                 'NUL) on the real wrappers (gcc+ASan build; the same harness built by chibicc itself) against the model and a dictionary '
                 'keyed by the C meaning of each key; non-trivial = one key reached through two conventions.  Plus fnv_hash of all '
                 'names and random byte strings (four-way).  Plus C programs over the same identifier families (tags, typedef names, '
                 'shadowing block scopes, labels, macros incl. keyword-named ones, >1000 define/undef cycles, >10000 declarations in '
                 'one block) compiled by chibicc and gcc and compared with a python oracle; use-after-scope/#undef must be rejected.')
    text = ''
    index = []
    for tag, ops in hs:
        index.append((tag, ops))
        text += fmt(ops) + 'reset\n'
    impl = run_impl(ctx, text)
    model = ctx.driver('hashmap', text).splitlines()
    # split by reset
    def split(lines):
        out, cur = [], []
        for l in lines:
            if l == 'reset':
                out.append(cur); cur = []
            else:
                cur.append(l)
        if cur:
            out.append(cur)
        return out
    si, sm = split(impl), split(model)
    events = {}
    for i, (tag, ops) in enumerate(index):
        corr.evaluations += 1
        corr.count(tag.split(':')[0])
        li = si[i] if i < len(si) else ['<missing>']
        lm = sm[i] if i < len(sm) else ['<missing>']
        c17_wrap.count_events(li, consts, events)
        key = hashlib.sha1(fmt(ops).encode()).hexdigest()
        if nontrivial(li):
            corr.nontrivial.add(key)
        if li != lm:
            j = next((j for j in range(min(len(li), len(lm))) if li[j] != lm[j]), min(len(li), len(lm)))
            if len(corr.disagreements) < 3:
                corr.disagreements.append({'kind': 'hashmap state', 'history': fmt(ops[:j + 1]) if len(ops) < 400 else f'<{len(ops)} ops>',
                                           'op_index': j, 'impl': li[j] if j < len(li) else '<end>', 'model': lm[j] if j < len(lm) else '<end>', 'tag': tag})
            # model and code differ on this history; whether the CODE breaks the dictionary law is decided below, on this and
            # on every later history (a difference that is harmless here may be a lost name a few histories further on)
        want = abstract_run(ops)
        got = impl_gets(li)
        crashed = [l for l in li if l.startswith('crash')]
        if want != got or crashed:
            small = shrink(ctx, ops)
            corr.violations.append({'what': check_history(ctx, small), 'history': [list(o) for o in small], 'replay_ops': fmt(small)})
            break
    # measured on the REAL table: how often a put rehashed without growing, and how often the table then held a probe
    # cluster that wraps around the array end with a tombstone on the wrapping path (required at 16, 32 and 64 buckets)
    corr.extra['rehash_events_on_real_table'] = dict(sorted(events.items()))
    missing = [k for k in c17_wrap.required_events(consts) if not events.get(k)]
    if missing and not corr.disagreements and not corr.violations:
        corr.disagreements.append({'kind': 'coverage', 'what': 'the directed histories no longer drive the real table through a rehash that '
                                   'keeps the capacity while a probe cluster with a tombstone wraps around the array end', 'missing_events': missing,
                                   'events': dict(sorted(events.items()))})
    corr.exhaustive = False
    corr.extra['exhaustive_subspace'] = f"all put/del histories of length {5 if not ctx.thorough else 6} over {3 if not ctx.thorough else 4} colliding keys"
    corr.sample({'history': fmt(index[1][1]).split('\n')[:8], 'impl_last_state': si[1][-3] if len(si) > 1 and len(si[1]) > 2 else None})
    if corr.violations:
        return
    macro_histories(ctx, corr, consts)
    if corr.violations:
        return
    # names at the END of the macro table (by real hash), tombstone inside the cluster, churn through several purges; gcc -E as reference
    c17_wrap.macro_wrap_leg(ctx, corr, consts)
    if corr.violations:
        return
    # the clients' key conventions on the real wrappers (gcc+ASan build and chibicc-built stage-2 build) against the model
    c17_clients.client_key_histories(ctx, corr, run_impl, lambda b: fnv_bytes(b, consts))
    if corr.violations:
        return
    # the real clients inside the compiler on adversarial identifier families, gcc 12 and a python oracle as references
    c17_clients.compiler_families(ctx, corr)

def search(ctx, broken, corr):
    """proof or tie is broken but no violation was seen by the standard run: look harder with the abstract dictionary as oracle"""
    consts = read_consts(ctx)
    for depth in (6, 7):
        same = colliding_keys(consts, consts['init'], 3)
        alphabet = []
        for k in same:
            alphabet += [('put', k), ('del', k)]
        batch = []
        for seq in itertools.product(alphabet, repeat=depth):
            if seq[0][0] == 'del':
                continue
            ops = []; v = 1
            for o in seq:
                if o[0] == 'put':
                    ops.append(('put', o[1], v)); v += 1
                else:
                    ops.append(('del', o[1]))
            ops += [('get', k) for k in same]
            batch.append(ops)
        text = ''.join(fmt(o) + 'reset\n' for o in batch)
        impl = run_impl(ctx, text)
        cur, i = [], 0
        for l in impl:
            if l == 'reset':
                if impl_gets(cur) != abstract_run(batch[i]) or any(x.startswith('crash') for x in cur):
                    small = shrink(ctx, batch[i])
                    return {'what': check_history(ctx, small), 'history': [list(o) for o in small], 'replay_ops': fmt(small)}
                cur = []; i += 1
            else:
                cur.append(l)
        if cur and any(x.startswith('crash') for x in cur) and i < len(batch):
            small = shrink(ctx, batch[i])
            return {'what': check_history(ctx, small), 'history': [list(o) for o in small], 'replay_ops': fmt(small)}
    # wrapping clusters through same-capacity rehashes, more recipes than the standard run
    class _More:
        rng = ctx.rng
        thorough = True
    for tag, ops in c17_wrap.wrap_histories(_More, consts):
        if tag == 'wrapexh':
            continue
        bad = check_history(ctx, ops)
        if bad:
            small = shrink(ctx, ops)
            return {'what': check_history(ctx, small), 'history': [list(o) for o in small], 'replay_ops': fmt(small)}
    # define/undefine churn over distinct names around a small live set: tombstones must be dropped by a rehash before the
    # table runs out of empty buckets (the dual of the capacity bound, Findings C17_live_only_accounting_aborts)
    for n in (20, 40, 200, 1500):
        ops = [('put', 'keep', 1)]
        for i in range(n):
            ops += [('put', f'ch{i}', i + 2), ('del', f'ch{i}')]
        ops += [('get', 'absent'), ('get', 'keep'), ('get', 'ch0')]
        bad = check_history(ctx, ops)
        if bad:
            return {'what': bad, 'history': [list(o) for o in ops], 'replay_ops': fmt(ops)}
    # long random fill/delete churn (watermark / growth bugs)
    rng = ctx.rng
    for trial in range(60):
        n = rng.choice([30, 100, 400, 2000])
        pool = [f'c{rng.randrange(n)}' for _ in range(n)]
        ops = []
        for i in range(n * 3):
            k = rng.choice(pool)
            ops.append(('put', k, i + 1) if rng.random() < 0.55 else ('del', k))
        ops += [('get', k) for k in sorted(set(pool))]
        bad = check_history(ctx, ops)
        if bad:
            small = shrink(ctx, ops) if len(ops) < 700 else ops
            return {'what': check_history(ctx, small), 'history': [list(o) for o in small], 'replay_ops': fmt(small)}
    return None

def replay(ctx, corr, path):
    payload = json.load(open(path))
    if payload.get('program_kind') == 'preprocess-vs-gcc':
        corr.evaluations = 1
        bad = c17_wrap.pp_differs(ctx, payload.get('cmd', []), payload['program'].splitlines(), 'replay.c') is not None
        print('replay:', 'chibicc -E still differs from gcc -E on the #define/#undef history' if bad else 'chibicc -E and gcc -E agree')
        if bad:
            corr.violations.append({k: v for k, v in payload.items() if k not in ('property', 'seed', 'tier')})
        return
    if payload.get('program'):
        c17_clients.replay_program(ctx, corr, payload)
        return
    if payload.get('kops'):
        ops = c17_clients.parse_kops(payload['kops'])
        corr.evaluations = 1
        bad = c17_clients.client_bad(ctx, run_impl, ops) if ops else run_impl(ctx, payload['kops']) != run_impl(ctx, payload['kops'], stage2=True)
        print('replay:', 'the key history still fails' if bad else 'the key history now behaves like a dictionary keyed by spelling')
        if bad:
            corr.violations.append(dict(payload))
        return
    text = payload.get('replay_ops')
    if not text:
        corr.extra['replay'] = 'replay file carries no operation history'
        return
    ops = []
    for line in text.splitlines():
        w = line.split()
        ops.append((w[0], w[1], int(w[2])) if w[0] == 'put' else tuple(w))
    corr.evaluations = 1
    bad = check_history(ctx, ops)
    print('replay:', bad or 'history now behaves like a dictionary')
    if bad:
        corr.violations.append({'what': bad, 'history': [list(o) for o in ops], 'replay_ops': text})

MANIFEST = {
    'level_text': 'Lean 4 theorems (all hash functions, all key sets, all finite histories): the hashmap.c model refines the '
                  'last-write-wins dictionary, never reaches unreachable()/assert, and a lookup after any history returns the value of the '
                  'most recent put unless a delete followed (C17_refines, C17_never_aborts, C17_last_write_wins, '
                  'C17_get_agrees_with_state). The model is tied to the code on every run: constants and fnv_hash are regenerated by a '
                  'translator, and the hand model is run against the real hashmap.c (in-process, every bucket compared after every '
                  'operation) on exhaustive short colliding histories plus seeded random ones; the macro table wrappers are exercised '
                  'through chibicc -E against the dictionary.  Deepened: C17_client_keys / C17_clients_dictionary / '
                  'C17_client_last_write_wins (whatever mix of key conventions the clients use - token span, strndup+strlen, C string - '
                  'two names meet in a table iff their spellings are equal; side conditions: token inside its buffer, copied token '
                  'NUL-free, string terminated), C17_sites_audited (whole-list decide over the regenerated list of every hashmap_* call '
                  'site with the provenance of its key), C17_key_memory_stable, C17_fnv_typed / C17_index_agrees / C17_reachable_index '
                  '(the C typing of fnv_hash and of the probe index, read from clang\'s typed AST, equals the model for all 2^64 hashes '
                  'because every reachable capacity is a power of two), C17_capacity_bound / C17_churn_bounded / C17_no_int_overflow '
                  '(capacity <= max(16, 4 * peak number of live names); the int arithmetic cannot overflow below 5.3 million live names), '
                  'C17_hash_irrelevant.  rehash as an obligation of its own: C17_rehash_spec (for every well-formed table - wrapping clusters '
                  'included - rehash does not abort and leaves a well-formed table without tombstones, with the same dictionary, used = live '
                  'names and the capacity an independent specification prescribes: the least number of doublings that brings the load below '
                  'LOW_WATERMARK), C17_rehash_cap_determined, C17_rehash_keeps_capacity_iff, C17_load_arithmetic_translated (the model\'s load '
                  'tests and doubling step are the ones the translator reads from rehash()/get_or_insert_entry() on every run), '
                  'C17_hashmap_inventory (functions, macros, call graph of hashmap.c and the statement sequence of rehash, regenerated every run).',
    'level_note': 'Trusted: Lean kernel (axioms propext, Classical.choice, Quot.sound only; audited each run), the hand model of the '
                  'probe/rehash loops (tied by state-level differential execution, which is testing), tools/extract/hashmap.py, '
                  'Nat instead of C int (capacity*100 < 2^31: proved from a bound on the number of live names, C17_no_int_overflow). '
                  'The call-site list and key provenance come from a text-level translator (cross-checked against clang\'s reference '
                  'count); immutability of key memory after insertion is assumed (supported by C17_key_memory_stable). Scope/tag/typedef/'
                  'keyword tables are exercised through the compiler against gcc, which is testing.  The probe loops, match and the wrappers are '
                  'pinned by text (any other body is a translator error); rehash is recognised statement by statement.  Directed histories '
                  '(wrapping clusters with tombstones through same-capacity rehashes at 16/32/64 buckets, rehash() called directly in every '
                  'state of short exhaustive histories, the same shapes through the macro table against gcc -E) are testing; the target event '
                  'is counted on the real table and required on every run.',
    'technique': 'Lean 4 refinement proof by invariant + induction over operation lists; translator-regenerated constants; '
                 'state-level differential correspondence with the real hashmap.c',
    'design_ref': 'DESIGN.md section 6, C17',
}
