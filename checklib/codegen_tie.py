"""Assembly-text tie of the code-generation model (lean/ChibiVerif/Model/Codegen.lean) -- shared by every
property whose theorems are about `Model/Codegen` (C20, C06, C04, C16, C03, C01, ...).  Not a property plugin.

    asm_text_tie(ctx, corr, c_files, extra_flags=())

For each C file:  the hooked build of the snapshot (`ctx.cch`, -DCHIBICC_VERIF) compiles it with
`-S -o real.s -verif-dump-ast dump.txt`; the Lean driver `drv_c20 codegen dump.txt` prints the model's
assembly for the dumped AST; the two texts must be equal line by line.

The only normalisation: the comments `  # float <v>` / `  # double <v>` / `  # long double <v>` that
gen_expr() prints after a floating immediate are deleted from the real text (the model has no
floating-point printing; it prints the same immediates, which it reads as bit patterns from the dump).

Also, for every file the plain build (`ctx.cc`) must print exactly the same `-S` text as the hooked
build: the hook must not change code generation.

Outcomes
  front end rejects the file (no complete dump)     -> skipped, counted `skipped_frontend`
  chibicc's codegen aborts (unreachable/assert/error_tok) and the model fails too -> agreement (`both_fail`)
  one fails and the other does not, or the texts differ -> corr.disagreements
"""
import os, re, sys, time, hashlib
from .framework import *

sys.path.insert(0, os.path.join(VERIF, 'tools', 'gen'))

FP_COMMENT = re.compile(rb'  # (?:float|double|long double) [^\n]*')


def model_driver(ctx):
    """path of the drv_c20 executable (the code-generation model), built in ctx.lean_dir"""
    exe = getattr(ctx, '_codegen_driver', None)
    if exe:
        return exe
    rc, o, e = ctx.lake(['build', 'drv_c20'])
    if rc != 0:
        raise ModelBuildFailure((o + e)[-2000:])
    ctx._codegen_driver = os.path.join(ctx.lean_dir, '.lake/build/bin', 'drv_c20')
    return ctx._codegen_driver


def corpus_files(ctx):
    """all test/*.c of the snapshot and chibicc's own sources, as paths relative to the snapshot"""
    snap = ctx.take_snapshot(False)
    tests = sorted('test/' + f for f in os.listdir(os.path.join(snap, 'test')) if f.endswith('.c'))
    own = sorted(f for f in os.listdir(snap) if f.endswith('.c'))
    return tests + own


def generated_files(ctx, n, subdir='gen_tie'):
    """n random programs (tools/gen/cprog.py) written under ctx.scratch; list of (path, flags)"""
    import cprog
    d = os.path.join(ctx.scratch, subdir)
    os.makedirs(d, exist_ok=True)
    out = []
    for i in range(n):
        src, flags = cprog.gen_program(ctx.rng)
        p = os.path.join(d, f'g{i}.c')
        with open(p, 'w') as f:
            f.write(src)
        out.append((p, tuple(flags)))
    return out


def _run(cmd, cwd):
    try:
        p = subprocess.run(cmd, cwd=cwd, capture_output=True, timeout=300)
        return p.returncode, p.stdout, p.stderr
    except subprocess.TimeoutExpired:
        return -9, b'', b'timeout'


def tie_one(ctx, path, flags=()):
    """-> dict(outcome=..., ...).  outcome in ok | both_fail | skipped_frontend | disagree"""
    snap = ctx.take_snapshot(False)
    ctx.take_snapshot(True)
    drv = model_driver(ctx)
    work = os.path.join(ctx.scratch, 'tie_work')
    os.makedirs(work, exist_ok=True)
    real_s, plain_s, dump = (os.path.join(work, x) for x in ('real.s', 'plain.s', 'dump.txt'))
    for f in (real_s, plain_s, dump):
        if os.path.exists(f):
            os.unlink(f)
    common = [f'-I{snap}/include', f'-I{snap}/test'] + list(flags)
    # a unit that uses __TIME__ / __DATE__ / __TIMESTAMP__ compiles to different text when the clock ticks between the two runs: run the
    # pair again (up to four times) before comparing, as the C19 whole-program leg does
    for attempt in range(4):
        rc, _, err = _run([ctx.cch] + common + ['-S', '-o', real_s, '-verif-dump-ast', dump, path], snap)
        rcp, _, errp = _run([ctx.cc] + common + ['-S', '-o', plain_s, path], snap)
        real = open(real_s, 'rb').read() if rc == 0 and os.path.exists(real_s) else None
        plain = open(plain_s, 'rb').read() if rcp == 0 and os.path.exists(plain_s) else None
        if (rc == 0) == (rcp == 0) and real == plain:
            break
    res = {'file': path, 'flags': list(flags)}
    # the hook must not change what the compiler does
    if (rc == 0) != (rcp == 0) or real != plain:
        res.update(outcome='disagree', kind='hook-changes-codegen',
                   note=f'hooked build rc={rc}, plain build rc={rcp}; -S outputs ' + ('differ' if real != plain else 'equal'))
        return res
    dump_ok = os.path.exists(dump) and open(dump, 'rb').read().rstrip().endswith(b'(end)')
    if rc != 0 and not dump_ok:
        res.update(outcome='skipped_frontend', note=err.decode(errors='replace')[-200:])
        return res
    t0 = time.time()
    rcm, mout, merr = _run([drv, 'codegen', dump], work)
    res['model_s'] = round(time.time() - t0, 3)
    if rc != 0:
        # chibicc aborted inside codegen(): the model must fail as well
        if rcm != 0:
            res.update(outcome='both_fail', note=merr.decode(errors='replace').strip()[-160:])
        else:
            res.update(outcome='disagree', kind='codegen-aborts-model-does-not',
                       impl=err.decode(errors='replace').strip()[-200:], model='(model printed assembly)')
        return res
    if rcm != 0:
        res.update(outcome='disagree', kind='model-fails', impl='(chibicc printed assembly)',
                   model=merr.decode(errors='replace').strip()[-300:])
        return res
    real_n = FP_COMMENT.sub(b'', real)
    if real_n == mout:
        res.update(outcome='ok', lines=real_n.count(b'\n'), functions=real_n.count(b', @function'),
                   sha=hashlib.sha1(real_n).hexdigest()[:12])
        return res
    a, b = real_n.split(b'\n'), mout.split(b'\n')
    n = next((i for i, (x, y) in enumerate(zip(a, b)) if x != y), min(len(a), len(b)))
    res.update(outcome='disagree', kind='asm-text', line=n + 1,
               impl=(a[n] if n < len(a) else b'<end of text>').decode(errors='replace'),
               model=(b[n] if n < len(b) else b'<end of text>').decode(errors='replace'),
               context=[x.decode(errors='replace') for x in a[max(0, n - 3):n]])
    return res


def asm_text_tie(ctx, corr, c_files, extra_flags=()):
    """c_files: paths (relative to the snapshot, or absolute) or (path, flags) pairs.
    Appends to corr.disagreements; counts into corr; returns the list of per-file results."""
    results = []
    for ent in c_files:
        path, flags = (ent, ()) if isinstance(ent, str) else ent
        r = tie_one(ctx, path, tuple(flags) + tuple(extra_flags))
        results.append(r)
        corr.evaluations += 1
        corr.count('tie_' + r['outcome'])
        if r['outcome'] == 'ok':
            if r['functions'] > 0:
                corr.nontrivial.add('asm:' + r['sha'])
            corr.count('tie_asm_lines', r['lines'])
            corr.sample(f"asm-text tie: {os.path.basename(path)} {' '.join(r['flags'])}: {r['lines']} lines, "
                        f"{r['functions']} functions, equal")
        elif r['outcome'] == 'disagree':
            d = {k: v for k, v in r.items() if k != 'outcome'}
            d['tie'] = 'asm-text (Model/Codegen vs chibicc -S)'
            if not os.path.isabs(path):
                d['input'] = path
            else:
                try:
                    d['input'] = open(path).read()
                except OSError:
                    d['input'] = path
            corr.disagreements.append(d)
    return results
