"""Input generators of the C13 campaign (all randomness from the rng handed in)."""
import os, re, sys

VERIF = os.path.dirname(os.path.dirname(os.path.abspath(__file__)))

TOK = re.compile(rb'''
    (?P<ws>[ \t\r\f\v]+) | (?P<nl>\n) | (?P<com>/\*.*?\*/|//[^\n]*) |
    (?P<str>(?:u8|u|U|L)?"(?:\\.|[^"\\\n])*") | (?P<chr>(?:u|U|L)?'(?:\\.|[^'\\\n])*') |
    (?P<num>\.?[0-9](?:[eEpP][+-]|[0-9a-zA-Z_.])*) | (?P<id>[A-Za-z_$][A-Za-z0-9_$]*) |
    (?P<punct><<=|>>=|\.\.\.|==|!=|<=|>=|->|\+=|-=|\*=|/=|\+\+|--|%=|&=|\|=|\^=|&&|\|\||<<|>>|\#\#|.)
''', re.X | re.S)


def lex_atoms(data):
    """lexemes including white space, b''.join(atoms) == data"""
    return [m.group(0) for m in TOK.finditer(data)]


def sig_positions(atoms):
    return [i for i, a in enumerate(atoms) if not a.isspace()]


KEYWORDS = '''return if else for while int sizeof char struct union short long void typedef _Bool enum static goto break continue
switch case default extern _Alignof _Alignas do signed unsigned const volatile auto register restrict _Noreturn float double typeof
asm _Thread_local _Atomic __attribute__ inline _Generic __builtin_va_arg __builtin_types_compatible_p __builtin_reg_class
__builtin_compare_and_swap __builtin_atomic_exchange __builtin_alloca alloca __va_area__ __func__ __FUNCTION__ __VA_ARGS__ __VA_OPT__ defined
__FILE__ __LINE__ __COUNTER__ __has_include main printf x a b c f'''.split()
PUNCTS = '''<<= >>= ... == != <= >= -> += -= *= /= ++ -- %= &= |= ^= && || << >> ## # ( ) [ ] { } ; , . : ? ~ ! + - * / % & | ^ < > = \\ @'''.split()
LITS = ['0', '1', '-1', '2', '3', '0x7fffffff', '0xffffffffffffffff', '1.0', '1e', '0x', '1.5f', '2.0L', '""', '"a"', "'a'", "'\\0'", 'L"w"',
        'u"s"', 'U"s"', 'u8"s"', "L'x'", '1u', '1ull', '0b1', '08', '1/0', '1%0', '(1<<63)', '[0]', '[-1]', '[1000000]', '.a', '->a',
        '{}', '{0}', '{{1,2},{3}}', '()', '(void)', '(int)', '(struct S)', '*', '**', '&', 'sizeof(int)', ':3', ':0', ':33',
        '__attribute__((packed))', '__attribute__((aligned(8)))', '_Alignas(16)', 'typeof(x)', '...']
POOL = [k.encode() for k in KEYWORDS] + [p.encode() for p in PUNCTS] + [l.encode() for l in LITS]


def mutate_tokens(rng, data, nedits=None):
    atoms = lex_atoms(data)
    sig = sig_positions(atoms)
    if not sig:
        return data
    own = [atoms[i] for i in sig]
    n = nedits or rng.choice([1, 1, 1, 2, 2, 3])
    for _ in range(n):
        sig = sig_positions(atoms)
        if not sig:
            break
        i = rng.choice(sig)
        op = rng.choice(['delete', 'replace', 'insert', 'duplicate', 'swap', 'replace', 'insert'])
        newtok = rng.choice(own) if rng.random() < 0.5 else rng.choice(POOL)
        if op == 'delete':
            atoms[i] = b''
        elif op == 'replace':
            atoms[i] = newtok
        elif op == 'insert':
            atoms[i] = atoms[i] + b' ' + newtok if rng.random() < 0.5 else newtok + b' ' + atoms[i]
        elif op == 'duplicate':
            atoms[i] = atoms[i] + b' ' + atoms[i]
        elif op == 'swap':
            j = rng.choice(sig)
            atoms[i], atoms[j] = atoms[j], atoms[i]
        atoms = [a for a in atoms if a != b'']
    return b''.join(atoms)


# ---------------------------------------------------------------------------------------- (a) must be accepted

def must_accept_cases(snapshot):
    out = []
    tdir = os.path.join(snapshot, 'test')
    for fn in sorted(os.listdir(tdir)):
        if fn.endswith('.c'):
            p = os.path.join(tdir, fn)
            out.append({'gen': 'suite', 'family': 'suite', 'id': fn, 'path': 'test/' + fn, 'data': open(p, 'rb').read(), 'cwd': '@SNAP@',
                        'opts': ['-I@SNAP@/include', '-I@SNAP@/test'], 'expect': 'ok'})
    for fn in sorted(os.listdir(snapshot)):
        if fn.endswith('.c') and fn != 'verif_dump.c':
            p = os.path.join(snapshot, fn)
            out.append({'gen': 'self', 'family': 'self', 'id': fn, 'path': p, 'data': open(p, 'rb').read(), 'opts': [], 'expect': 'ok'})
    return out


MINI = [
    # declarators, typedefs, function pointers
    b'''typedef int T; typedef T (*FP)(T, char *); struct S { T a; FP f; struct S *next; union { int u; float v; }; int bits : 3, : 0, more : 5; };
enum E { A, B = 5, C }; static int g[3][2] = {{1, 2}, [2] = {5}}; struct S s = {.a = 1, .bits = 2, .next = &s, .u = 3};
int add(T x, char *p) { return x + *p; }
int main(void) { FP f = add; char c = 1; T (*arr[2])(T, char *) = {add, add}; return arr[1](g[0][1], &c) + f(B, &c) + s.next->a; }
''',
    # control flow
    b'''int f(int n) { int s = 0; for (int i = 0; i < n; i++) { if (i % 2) continue; s += i; }
  while (n--) { do { s++; } while (0); if (s > 100) break; }
  switch (n) { case 1: s = 1; break; case 2 ... 5: s = 2; default: s = 3; }
  goto end; s = 9; end: return s ? s : -1; }
int main() { return f(10); }
''',
    # initializers
    b'''struct P { int x, y; }; struct Q { struct P p[2]; char name[8]; int *q; };
int gi = 7; struct Q q = {{{1, 2}, {.y = 4}}, "abc", &gi}; char str[] = "hello" " world"; int arr[] = {1, 2, [5] = 6, 7};
long ll = sizeof(q) + _Alignof(struct Q); double d = 1.5 * 2; float fl = (float)3; int *pp = &arr[2]; char *sp = str + 1;
int main() { struct P a = {1}; struct Q b = {.name = {'a', 'b'}}; int v[3] = {a.x, b.p[1].y}; int w[2][2] = {1, 2, 3, 4};
  struct P c = a; union { int i; char ch[4]; } u = {.ch = {1, 2}}; return v[0] + w[1][1] + c.y + u.i + (struct P){5, 6}.y; }
''',
    # expressions
    b'''int g(int a, ...) { return a; } long h(long a, long b) { return a * b; }
int main() { int a = 1, b = 2, *p = &a; long l = 3; unsigned u = 4; char c = 'x'; _Bool t = 1; double d = 2.5; long double ld = 1.0L;
  a += b; a -= 1; a *= 2; a /= 1; a %= 7; a <<= 1; a >>= 1; a &= 0xff; a |= 1; a ^= 2; a++; --b; p++; p--;
  l = a + b * l - u / 2 % 3; t = !a && b || c; d = d * a + ld; a = (a, b); a = a ? b : c; a = -a + ~b + +c; l = (long)p; p = (int *)l;
  a = sizeof a + sizeof(int[3]) + _Alignof(long); a = _Generic(a, int: 1, long: 2, default: 3); a = p[0] + *p + *&a;
  a = g(1, 2, 3.0, "s") + h(l, 2); a = ({ int z = 3; z + 1; }); a = a < b | a <= b & a > b ^ a >= b == 1 != 0; return a << 2 >> 1; }
''',
    # preprocessor
    b'''#define ONE 1
#define ADD(a, b) ((a) + (b))
#define STR(x) #x
#define CAT(a, b) a##b
#define VA(fmt, ...) g(fmt, ##__VA_ARGS__)
#define OPT(x, ...) x __VA_OPT__(+ 1)
#if defined(ONE) && ONE == 1 && !defined(TWO)
int g(char *f, ...) { return 0; }
#elif 0
#error no
#else
int bad
#endif
#ifdef ONE
int CAT(v, ar) = ADD(ONE, 2);
#endif
#ifndef TWO
#undef ONE
#endif
#line 40 "x.c"
#pragma once
char *s = STR(a + b) STR("q\\n");
int main() { return VA("x") + VA("y", 1, 2) + OPT(1) + OPT(1, 2) + __LINE__ + sizeof(__FILE__) + __COUNTER__; }
''',
    # misc GNU / C11
    b'''#include <stdarg.h>
#include <stddef.h>
_Noreturn void die(void); static inline int sq(int x) { return x * x; } extern _Thread_local int tls; _Thread_local int tls2 = 3;
struct __attribute__((packed)) PK { char c; int i; }; struct AL { _Alignas(16) char c; }; typedef struct { int a; char flex[]; } FX;
int sum(int n, ...) { va_list ap; va_start(ap, n); int s = 0; for (int i = 0; i < n; i++) s += va_arg(ap, int); va_end(ap); return s; }
int vla(int n) { int a[n]; int (*p)[n] = &a; a[0] = n; return sizeof(a) + (*p)[0]; }
int at(void) { _Atomic int x = 0; x++; x += 2; int o = 0; return __builtin_compare_and_swap(&x, &o, 1) + __builtin_atomic_exchange(&x, 2); }
int lbl(int i) { static void *t[] = {&&a, &&b}; goto *t[i]; a: return 1; b: return 2; }
int main() { typeof(int) x = offsetof(struct PK, i); asm("nop"); const volatile int cv = 1; register int r = 2; auto int au = 3;
  return sum(2, 1, 2) + vla(3) + sq(x) + cv + r + au + at() + lbl(0) + __builtin_types_compatible_p(int, int) + sizeof(FX) + tls2; }
''',
    # K&R-ish, old style, odd but valid
    b'''int f(); int f(a, b) int a, b; { return a + b; }  int arr[3]; int (*pf(void))[3] { return &arr; } void v(void) { return; }
char *strs[] = {"a", "b\\x41", "\\101\\n\\t\\e", u8"u", 0}; unsigned short w[] = u"wide"; int W[] = L"wide"; unsigned U[] = U"wide";
int c1 = 'a', c2 = '\\n', c3 = L'x', c4 = u'y', c5 = U'z', c6 = '\\x41', c7 = '\\377';
long n1 = 0x7fffffffffffffff, n2 = 0777, n3 = 0b101, n4 = 10UL, n5 = 10ll; double f1 = 1e10, f2 = .5, f3 = 0x1p3, f4 = 1.f; float f5 = 1e-3f;
int main() { return f(1, 2) + (*pf())[0] + c1; }
''',
]


def load_bases(snapshot, seeds):
    bases = []
    tdir = os.path.join(snapshot, 'test')
    for fn in sorted(os.listdir(tdir)):
        if fn.endswith('.c'):
            bases.append({'id': 'test/' + fn, 'data': open(os.path.join(tdir, fn), 'rb').read(),
                          'opts': ['-I@SNAP@/include', '-I@SNAP@/test'], 'weight': 2})
    for i, m in enumerate(MINI):
        bases.append({'id': f'mini{i}', 'data': m, 'opts': [], 'weight': 8})
    for fn in ('strings.c', 'hashmap.c', 'unicode.c', 'type.c'):
        p = os.path.join(snapshot, fn)
        if os.path.exists(p):
            bases.append({'id': fn, 'data': open(p, 'rb').read(), 'opts': ['-I@SNAP@'], 'weight': 1})
    return bases


def pick_base(rng, bases):
    tot = sum(b['weight'] for b in bases)
    x = rng.random() * tot
    for b in bases:
        x -= b['weight']
        if x <= 0:
            return b
    return bases[-1]


def gen_token_edits(rng, bases, n):
    out = []
    for _ in range(n):
        b = pick_base(rng, bases)
        out.append({'gen': 'token-edit', 'family': 'token-edit:' + b['id'], 'data': mutate_tokens(rng, b['data']), 'opts': b['opts']})
    return out


def gen_seed_mutations(rng, seeds, n):
    out = []
    for _ in range(n):
        s = rng.choice(seeds)
        out.append({'gen': 'seed-edit', 'family': 'seed-edit', 'data': mutate_tokens(rng, s['data']), 'opts': s['opts']})
    return out


# ---------------------------------------------------------------------------------------- (d) byte noise

FRAGS = [b'int x = 1;', b'char *s = "abc";', b"int c = 'a';", b'/* c */', b'// line\n', b'x.y->z', b'0x1f', b'1e+5', b'.5', b'a+++b',
         b'u8"s"', b'L"w"', b"u'c'", b'\\u00e9', b'\\U0001F600', b'\xc3\xa9', b'\xe2\x82\xac', b'\xf0\x9f\x98\x80', b'ident_1', b'$d',
         b'"\\x41"', b'"\\101"', b'"\\q"', b'<<=', b'...', b'##', b'@', b'`', b'\\', b'"', b"'", b'/*', b'*/', b'//', b'\n', b'\r', b'\r\n',
         b'\\\n', b'\\\r\n', b'\t', b'\f', b'\v', b' ', b'\xef\xbb\xbf', b'main(){}', b'{', b'}', b'(', b')', b';']
NOISE = [b'\0', b'\x01', b'\x7f', b'\x80', b'\xbf', b'\xc0', b'\xc3', b'\xe2\x82', b'\xf0\x9f', b'\xf8', b'\xff', b'\xfe', b'\r', b'"\\',
         b"'\\", b'\\', b'"\\x', b"'\\x", b'\\u12', b'\\U1234', b'\\u0000', b'\\U00000000', b'\\uD800', b'\\UFFFFFFFF', b'\xed\xa0\x80',
         b'\xf4\x90\x80\x80', b'\xc0\x80', b'\x1a', b'\x1b']


def gen_byte_noise(rng, n):
    out = []
    fixed = [b'', b'\0', b'\n', b'"', b"'", b'"\\', b"'\\", b'"\\\0', b"'\\\0", b'/*', b'//', b'// x\0y\nint z = ;\n', b'"\\\0"\nint z = ;\n',
             b'\xef\xbb\xbf', b'\xef\xbb', b'\\', b'\\\n', b'\\\0', b'\r', b'a\rb\r\nc', b'int x;\r#error e\r', b'"a\\\nb"', b'"a\\\r\nb"',
             b'int a\\\nb = 1;\n', b"'", b"''", b"'\n'", b"'\\\n'", b'"\n"', b'/* \0 */', b'x\0', b'\0x', b'0x', b'1e+', b'.', b'..', b'....',
             b'\\u0041\\u0042 = 1;', b'int \\u00e9 = 1;\n', b'int \\u0024x;\n', b'"\\u0022"', b'\\u000a', b'\\u005c', b"'\\u0027'",
             b'int \xc3\xa9\xcc\x81 = 1;\n', b'int x\xff;\n', b'int \xe2\x82 = 1;\n', b'L"\xff"', b'u"\xc3"', b"'\xe2\x82'", b'U"\xf0\x9f\x98\x80"',
             b'"' + b'a' * 100000 + b'"', b'int ' + b'x' * 100000 + b';\n', b'1' * 100000, b'/*' + b'*' * 100000, b'"' + b'\\' * 99999,
             b'int x = ' + b'9' * 5000 + b';\n', b'double d = 1e' + b'9' * 5000 + b';\n', b'double d = 0.' + b'1' * 50000 + b';\n',
             b"\\u000a\\u000a'", b'int x;\\u000a#error boo\n', b'char *s = "\xff"; int x = ;\n', b'/* \xff */ int x = ;\n',
             b'int x = 0x' + b'f' * 5000 + b';\n', b'char *s = "' + b'\\x' + b'f' * 5000 + b'";\n', b"int c = '\\7777777';\n"]
    for f in fixed:
        out.append({'gen': 'byte-noise', 'family': 'byte-noise', 'data': f, 'opts': [], 'textual': False})
    while len(out) < n:
        k = rng.randrange(1, 12)
        parts = []
        for _ in range(k):
            r = rng.random()
            if r < 0.55:
                parts.append(rng.choice(FRAGS))
            elif r < 0.85:
                parts.append(rng.choice(NOISE))
            else:
                parts.append(bytes(rng.randrange(256) for _ in range(rng.randrange(1, 6))))
        data = b''.join(parts)
        if rng.random() < 0.3:
            cut = rng.randrange(len(data) + 1)
            data = data[:cut]
        if rng.random() < 0.3:
            data = b'int main() { return 0; }\n' + data
        out.append({'gen': 'byte-noise', 'family': 'byte-noise', 'data': data, 'opts': [], 'textual': False})
    return out


PREDEF = re.compile(rb'\b(?:_LP64|__\w+__|__amd64|__linux|__unix|__x86_64|linux|unix|defined|_Pragma)\b')


def lex_tie_ok(data):
    """inputs on which `-E` does nothing but scan and print: no directive, no macro name"""
    return b'#' not in data and b'%:' not in data and b'??' not in data and not PREDEF.search(data) and len(data) < 5000


def lex_tie_cases(rng, noise, n):
    sel = [c for c in noise if lex_tie_ok(c['data'])]
    while len(sel) < n:
        k = rng.randrange(1, 8)
        parts = []
        for _ in range(k):
            r = rng.random()
            parts.append(rng.choice(FRAGS) if r < 0.6 else rng.choice(NOISE) if r < 0.9 else bytes([rng.randrange(256)]))
        data = b''.join(parts)
        if lex_tie_ok(data):
            sel.append({'gen': 'lex-tie', 'family': 'lex-tie', 'data': data, 'opts': [], 'textual': False})
    return sel[:max(n, 1)]


MSG_IDS = [('unclosed string literal', 'unclosed_string'), ('unclosed char literal', 'unclosed_char'),
           ('invalid numeric constant', 'invalid_number'),
           ('unclosed block comment', 'unclosed_comment'), ('invalid token', 'invalid_token'),
           ('invalid hex escape sequence', 'invalid_hex_escape'), ('invalid UTF-8 sequence', 'invalid_utf8')]


def msg_id(text):
    for m, i in MSG_IDS:
        if m in text:
            return i
    return 'other:' + text.strip()[:40]


# ---------------------------------------------------------------------------------------- deep nesting

def gen_deep(rng, thorough):
    out = []
    depths = [30000] if not thorough else [3000, 10000, 30000, 100000]

    def add(fam, data, textual=True):
        out.append({'gen': 'deep', 'family': 'deep:' + fam, 'data': data, 'opts': [], 'textual': textual})
    for n in depths:
        N = str(n).encode()
        add('paren-expr', b'int x = ' + b'(' * n + b'1' + b')' * n + b';\n')
        add('paren-open', b'int x = ' + b'(' * n)
        add('brace-block', b'int main() ' + b'{' * n + b'}' * n + b'\n')
        add('brace-open', b'int main() ' + b'{' * n)
        add('brace-init', b'int x = ' + b'{' * n + b'1' + b'}' * n + b';\n')
        add('bracket', b'int a; int main() { a' + b'[' * n + b'0' + b']' * n + b'; }\n')
        add('unary-minus', b'int x = ' + b'- ' * n + b'1;\n')
        add('unary-not', b'int x = ' + b'!' * n + b'1;\n')
        add('unary-deref', b'int main() { int p; ' + b'*' * n + b'p; }\n')
        add('unary-addr', b'int main() { int p; ' + b'&' * n + b'p; }\n')
        add('cast', b'int x = ' + b'(int)' * n + b'1;\n')
        add('sizeof', b'int x = ' + b'sizeof ' * n + b'1;\n')
        add('ptr-declarator', b'int ' + b'*' * n + b'p;\n')
        add('paren-declarator', b'int ' + b'(' * n + b'p' + b')' * n + b';\n')
        add('array-declarator', b'int a' + b'[1]' * n + b';\n')
        add('fn-declarator', b'int f' + b'(int' * n + b')' * n + b';\n')
        add('ternary', b'int x = ' + b'1 ? ' * n + b'1' + b' : 1' * n + b';\n')
        add('binary-chain', b'int x = 1' + b' + 1' * n + b';\n')
        add('binary-chain-local', b'int main() { int a = 1; return a' + b' + a' * n + b'; }\n')
        add('comma-chain', b'int main() { int a; a = (1' + b', 1' * n + b'); }\n')
        add('assign-chain', b'int main() { int a; a' + b' = a' * n + b'; }\n')
        add('logand-chain', b'int main() { int a = 1; return a' + b' && a' * n + b'; }\n')
        add('member-chain', b'struct S { struct S *n; } s; int main() { s' + b'.n->n' * (n // 2) + b'; }\n')
        add('call-chain', b'int f(); int main() { f' + b'()' * n + b'; }\n')
        add('if-else-chain', b'int main() { int a = 0; ' + b'if (a) a = 1; else ' * n + b'a = 2; }\n')
        add('if-nest', b'int main() { int a = 0; ' + b'if (a) ' * n + b'a = 2; }\n')
        add('while-nest', b'int main() { ' + b'while (1) ' * n + b'; }\n')
        add('label-chain', b'int main() { ' + b''.join(b'L%d: ' % i for i in range(min(n, 20000))) + b'; }\n')
        add('case-chain', b'int main() { switch (1) { ' + b''.join(b'case %d: ' % i for i in range(min(n, 20000))) + b'; } }\n')
        add('struct-nest', b'struct S0 { ' * 1 + b'struct { ' * n + b'int x; ' + b'}; ' * n + b'} s;\n')
        add('struct-many-members', b'struct S { ' + b''.join(b'int m%d; ' % i for i in range(min(n, 20000))) + b'} s = {1};\n')
        add('many-globals', b''.join(b'int g%d = %d;\n' % (i, i) for i in range(min(n, 20000))))
        add('many-params', b'int f(' + b', '.join(b'int p%d' % i for i in range(min(n, 5000))) + b') { return p0; }\n')
        add('many-args', b'int f(); int main() { return f(' + b', '.join(b'1' for i in range(min(n, 5000))) + b'); }\n')
        add('string-concat', b'char *s = ' + b'"a" ' * n + b';\n')
        add('init-list', b'int a[] = {' + b'1, ' * n + b'};\n')
        add('init-desig-chain', b'struct S { struct S2 { int a[2]; } s; } x = { ' + b'.s' + b'.a[0] = 1 };\n')
        add('stmt-expr', b'int main() { return ' + b'({ ' * n + b'1;' + b' });' * n + b' }\n')
        add('typeof-nest', b'int x; ' + b'typeof(' * n + b'x' + b')' * n + b' y;\n')
        add('generic-nest', b'int x = ' + b'_Generic(1, int: ' * n + b'1' + b')' * n + b';\n')
        add('attribute-many', b'struct ' + b'__attribute__((packed)) ' * n + b'S { int a; };\n')
        add('pp-if-nest', b'#if 1\n' * n + b'int x;\n' + b'#endif\n' * n)
        add('pp-if-open', b'#if 1\n' * n + b'int x;\n')
        add('pp-paren-expr', b'#if ' + b'(' * n + b'1' + b')' * n + b'\nint x;\n#endif\n')
        add('pp-unary-expr', b'#if ' + b'!' * n + b'1\nint x;\n#endif\n')
        add('pp-macro-nest', b'#define f(x) x\nint y = ' + b'f(' * min(n, 1500) + b'1' + b')' * min(n, 1500) + b';\n')
        add('pp-macro-args', b'#define f(...) 1\nint y = f(' + b','.join(b'a' for _ in range(n)) + b');\n')
        add('pp-macro-params', b'#define f(' + b','.join(b'p%d' % i for i in range(min(n, 20000))) + b') p0\nint y = f(1);\n')
        add('pp-macro-chain', b''.join(b'#define M%d M%d\n' % (i, i + 1) for i in range(min(n, 4000))) + b'#define M%d 1\nint y = M0;\n' % min(n, 4000))
        add('pp-paste-chain', b'#define C(a) a' + b' ## a' * min(n, 5000) + b'\nint C(x);\n')
        add('pp-stringize-big', b'#define S(x) #x\nchar *s = S(' + b'a ' * n + b');\n')
        add('pp-define-long', b'#define L ' + b'1 + ' * n + b'1\nint x = L;\n')
        add('comment-long', b'/*' + b'/*' * n + b'*/ int x;\n')
        add('line-splices', b'int x' + b'\\\n' * n + b' = 1;\nint y = ;\n')
        add('many-lines', b'\n' * n + b'int y = ;\n')
        add('crlf-lines', b'\r\n' * n + b'int y = ;\n', False)
    # moderate depth: exponential behaviour shows up long before the stack is exhausted
    for n in ((20, 28) if not thorough else (20, 28, 48)):
        slow_ok = thorough or n <= 20
        add('exp-paren-declarator', b'int ' + b'(' * n + b'p' + b')' * n + b';\n')
        add('exp-fnptr-declarator', b'int ' + b'(*' * n + b'f' + b')(void)' * n + b';\n')
        if slow_ok:
            add('exp-array-of-paren', b'int ' + b'(' * n + b'a[2]' + b')' * n + b' = {1, 2};\n')
        add('exp-param-declarator', b'int f(int ' + b'(' * n + b'p' + b')' * n + b');\n')
        if slow_ok:
            add('exp-cast-paren', b'int x = ' + b'(int)(' * n + b'1' + b')' * n + b';\n')
        if slow_ok:
            add('exp-typeof', b'int x; ' + b'typeof(' * n + b'x' + b')' * n + b' y;\n')
        if slow_ok:
            add('exp-generic', b'int x = ' + b'_Generic((' * n + b'1' + b'), default: 1)' * n + b';\n')
        if slow_ok:
            add('exp-sizeof-paren', b'int x = ' + b'sizeof(' * n + b'int' + b')' * n + b';\n')
        if slow_ok:
            add('exp-local-declarator', b'int main() { int ' + b'(' * n + b'p' + b')' * n + b'; }\n')
        if slow_ok:
            add('exp-struct-member-declarator', b'struct S { int ' + b'(' * n + b'p' + b')' * n + b'; };\n')
        if slow_ok:
            add('exp-typedef-declarator', b'typedef int ' + b'(' * n + b'T' + b')' * n + b';\n')
        if slow_ok:
            add('exp-compound-literal', b'int x = ' + b'(int){' * n + b'1' + b'}' * n + b';\n')
        if slow_ok:
            add('exp-stmt-expr', b'int main() { return ' + b'({ ' * n + b'1;' + b' });' * n + b' }\n')
    return out


# ---------------------------------------------------------------------------------------- (e) preprocessor stress

def gen_pp_stress(rng, n):
    out = []

    def add(fam, data, files=None, opts=()):
        out.append({'gen': 'pp-stress', 'family': 'pp:' + fam, 'data': data, 'opts': list(opts), 'files': files or {}})
    add('include-self', b'#include __FILE__\n')
    add('include-self-q', b'int x;\n#include "f.c"\n')
    add('include-mutual', b'#include "a.h"\n', {'a.h': b'#include "b.h"\n', 'b.h': b'#include "a.h"\n'})
    add('include-self-guarded', b'#ifndef G\n#define G\n#include __FILE__\nint x;\n#endif\n')
    add('include-once-self', b'#pragma once\n#include __FILE__\nint x;\n')
    add('include-depth-200', b'#include "d0.h"\nint z = D;\n',
        dict([('d%d.h' % i, b'#include "d%d.h"\n' % (i + 1)) for i in range(300)] + [('d300.h', b'#define D 1\n')]))
    add('include-dir', b'#include "."\n')
    add('include-dir2', b'#include "/"\n')
    add('include-devnull', b'#include "/dev/null"\nint x;\n')
    add('include-empty', b'#include ""\n')
    add('include-empty-angle', b'#include <>\n')
    add('include-macro-angle', b'#define H <stddef.h>\n#include H\nsize_t x;\n')
    add('include-macro-str', b'#define H "a.h"\n#include H\n', {'a.h': b'int a;\n'})
    add('include-macro-empty', b'#define H\n#include H\n')
    add('include-macro-paren', b'#define H(x) x\n#include H("a.h")\n', {'a.h': b'int a;\n'})
    add('include-next-self', b'#include_next "f.c"\n')
    add('include-next-none', b'#include_next\n')
    add('include-eof', b'#include')
    add('include-binary', b'#include "bin.h"\nint x;\n', {'bin.h': bytes(range(256)) * 4})
    add('include-error-line', b'int x;\n#include "e.h"\n', {'e.h': b'\n\n\nint y = ;\n'})
    add('include-unterminated-if', b'#include "u.h"\nint x;\n', {'u.h': b'#if 1\n'})
    add('include-endif-in-header', b'#if 1\n#include "u.h"\nint x;\n', {'u.h': b'#endif\n'})
    add('if-unterminated', b'#if 0\n')
    add('if-eof', b'#if')
    add('ifdef-eof', b'#ifdef')
    add('ifndef-eof', b'#ifndef')
    add('ifdef-number', b'#ifdef 1\n#endif\n')
    add('elif-eof', b'#if 0\n#elif')
    add('elif-after-else', b'#if 0\n#else\n#elif 1\n#endif\n')
    add('if-div0', b'#if 1/0\n#endif\n')
    add('if-mod0', b'#if 1%0\n#endif\n')
    add('if-overflow', b'#if 0x7fffffffffffffff + 1\n#endif\n#if (-0x7fffffffffffffff - 1) / -1\n#endif\n')
    add('if-shift', b'#if 1 << 64\n#endif\n#if 1 << -1\n#endif\n#if 1 >> 100\n#endif\n')
    add('if-string', b'#if "a"\n#endif\n')
    add('if-char', b"#if 'a' == 97 && '\\377' < 0\nint x;\n#endif\n")
    add('if-float', b'#if 1.0\n#endif\n')
    add('if-assign', b'#if x = 1\n#endif\n')
    add('if-comma', b'#if 1, 2\n#endif\n')
    add('if-ternary-open', b'#if 1 ? 2\n#endif\n')
    add('if-defined-open', b'#if defined(\n#endif\n')
    add('if-defined-eof', b'#if defined')
    add('if-defined-paren-eof', b'#if defined(X')
    add('if-defined-macro', b'#define D defined(X)\n#if D\n#endif\n')
    add('if-has-include', b'#if __has_include(<stdio.h>)\n#endif\n')
    add('if-sizeof', b'#if sizeof(int) == 4\n#endif\n')
    add('if-cast', b'#if (int)1\n#endif\n')
    add('if-funclike', b'#define F(x) x\n#if F(1\n#endif\n')
    add('if-skipped-garbage', b'#if 0\n"unterminated\n\'x\n#bogus\n#else junk\n#endif\nint x;\n')
    add('if-skipped-unclosed-comment', b'#if 0\n/* never closed\n#endif\n')
    add('define-eof', b'#define')
    add('define-noname', b'#define\n')
    add('define-open-paren', b'#define f(\n')
    add('define-open-paren-eof', b'#define f(')
    add('define-param-eof', b'#define f(a')
    add('define-param-comma-eof', b'#define f(a,')
    add('define-dup-param', b'#define f(a,a) a\nint x = f(1,2);\n')
    add('define-va-named', b'#define f(a...) a\nint x = f(1);\n')
    add('define-va-mid', b'#define f(..., a) a\n')
    add('define-va-args-param', b'#define f(__VA_ARGS__) 1\n')
    add('define-defined', b'#define defined 1\n#if defined\n#endif\n')
    add('define-keyword', b'#define int long\nint x;\n#define return\nint f(){return;}\n')
    add('define-hash-end', b'#define f(x) #\nint y = f(1);\n')
    add('define-hash-hash', b'#define f(x) # # x\nchar *y = f(1);\n')
    add('define-paste-only', b'#define f ##\nf\n')
    add('define-paste-obj-start', b'#define f ## a\nint f;\n')
    add('define-paste-obj-end', b'#define f a ##\nint f;\n')
    add('define-paste-comment', b'#define C(a,b) a##b\nint x; C(/,/) int y;\n')
    add('define-paste-comment-block', b'#define C(a,b) a##b\nint x; C(/,*) int y; */\n')
    add('define-paste-string', b'#define C(a,b) a##b\nchar *s = C("a","b");\n')
    add('define-paste-quote', b'#define C(a,b) a##b\nchar *s = C(L,"b"); int c = C(L,\'c\'); char *t = C(u8,"x");\n')
    add('define-paste-empty', b'#define C(a,b) a##b\nint C(,x); int C(y,); C(,)\n')
    add('define-paste-number', b'#define C(a,b) a##b\nint x = C(1,2) + C(1.,e5) + C(0x,1) + C(1,e+);\n')
    add('define-paste-punct', b'#define C(a,b) a##b\nint x = 1 C(<,<) 2; int y = 1 C(+,+);\n')
    add('define-paste-vaopt', b'#define F(a,...) a ## __VA_OPT__(x)\nint F(y); int F(z,1);\n')
    # `##` at every position of a replacement list of up to four elements over two parameters (leading, trailing, doubled, chains),
    # invoked with every combination of empty and non-empty arguments (placemarkers: C11 6.10.3.3p2-3)
    import itertools as _it
    for n in (1, 2, 3, 4):
        for body in _it.product(('a', 'b', '##'), repeat=n):
            if '##' not in body:
                continue
            for args in (',', '1,', ',2'):
                add('define-paste-positions', ('#define F(a,b) ' + ' '.join(body) + '\nint x = 0 F(' + args + ');\n').encode())
    add('define-vaopt-open', b'#define F(...) __VA_OPT__(\nF(1)\n')
    add('define-vaopt-nested', b'#define F(...) __VA_OPT__(__VA_OPT__(1))\nint x = F(1);\n')
    add('define-vaopt-obj', b'#define F __VA_OPT__(1)\nint x = F;\n')
    add('define-va-args-outside', b'int __VA_ARGS__;\n')
    add('define-stringize-va', b'#define S(...) #__VA_ARGS__\nchar *s = S(a, "b\\n", \'c\');\n')
    add('define-stringize-backslash', b'#define S(x) #x\nchar *s = S(\\); char *t = S("\\\\"); char *u = S(\'\\\'\');\n')
    add('define-stringize-open', b'#define S(x) #x\nchar *s = S(");\n')
    add('define-self', b'#define x x\nint x;\n#define a b\n#define b a\nint a;\n#define f(x) f(x)\nint f(1);\n')
    add('define-recursive-arg', b'#define f(x) x\n#define g f(g)\nint g;\nint f(f)(1);\n')
    add('call-eof', b'#define f(x) x\nint y = f(')
    add('call-eof2', b'#define f(x,y) x\nint y = f(1,')
    add('call-directive-inside', b'#define f(x) x\nint y = f(1\n#undef f\n);\n')
    add('call-too-few', b'#define f(x,y) x\nint y = f(1);\n')
    add('call-empty', b'#define f(x,y) 1 x y\nint y = f(,);\n')
    add('call-across-include-end', b'#define f(x) x\n#include "t.h"\n1);\n', {'t.h': b'int y = f(\n'})
    add('undef-eof', b'#undef')
    add('undef-builtin', b'#undef __FILE__\n#undef __LINE__\nint x = __LINE__;\n')
    add('line-zero', b'#line 0\nint x = ;\n')
    add('line-huge', b'#line 2147483647\nint x = ;\n')
    add('line-overflow', b'#line 4294967296\nint x = ;\n#line 99999999999999999999\n')
    add('line-negative', b'#line -5\nint x = ;\n')
    add('line-eof', b'#line')
    add('line-file', b'#line 5 "foo.c"\nint x = ;\n')
    add('line-file-wide', b'#line 5 L"foo.c"\nint x = __LINE__; char *f = __FILE__;\n')
    add('line-macro', b'#define N 77\n#line N\nint x = ;\n')
    add('linemarker', b'# 5 "foo.c" 2\nint x = ;\n')
    add('linemarker-bad', b'# 5 foo\n')
    add('linemarker-float', b'# 1.5\n')
    add('linemarker-long', b'# 5L\n')
    add('pragma-eof', b'#pragma')
    add('pragma-once-eof', b'#pragma once')
    add('pragma-garbage', b'#pragma "\n')
    add('error-eof', b'#error')
    add('warning', b'#warning foo\nint x;\n')
    add('hash-eof', b'#')
    add('hash-hash', b'##\n')
    add('hash-number', b'#123456789012345678901234567890\n')
    add('hash-in-middle', b'int x; # define Y 1\n')
    add('directive-in-string', b'char *s = "\n#define X 1\n";\n')
    add('null-directives', b'#\n#\n # \n#/**/\nint x;\n')
    add('file-macro-long', b'char *f = __FILE__; int l = __LINE__; char *d = __DATE__ __TIME__ __TIMESTAMP__ __BASE_FILE__; int c = __COUNTER__;\n')
    add('counter-many', b'int a[] = {' + b'__COUNTER__, ' * 3000 + b'};\n')
    add('assert-directive', b'#assert x(y)\n')
    add('ident-directive', b'#ident "x"\n')
    add('include-next-macro', b'#define H <stdarg.h>\n#include_next H\n')
    add('has-include-eof', b'#if __has_include(\n#endif\n')
    add('big-macro-expansion', b'#define A a a a a a a a a a a\n#define B A A A A A A A A A A\n#define C B B B B B B B B B B\n#define D C C C C C C C C C C\n'
        b'#define E D D D D D D D D D D\n#define S(x) #x\n#define T(x) S(x)\nchar *s = T(E);\n')
    add('exp-macro-bomb', b'#define A(x) x x\n#define B(x) A(A(A(A(A(x)))))\n#define C(x) B(B(B(B(x))))\nint y[] = { C(C(1,)) };\n')
    add('D-comment', b'int x;\n', opts=['-DX=//'])
    add('D-open-comment', b'int x;\n', opts=['-DX=/*'])
    add('D-open-string', b'int x;\n', opts=['-DX="'])
    add('D-backslash', b'int x = X;\n', opts=['-DX=\\'])
    add('D-string-backslash', b'int x;\n', opts=['-DX="\\'])
    add('D-char-backslash', b'int x;\n', opts=["-DX='\\"])
    add('D-empty', b'int x;\n', opts=['-D'])
    add('D-noname', b'int x;\n', opts=['-D=1'])
    add('D-funclike', b'int x = F(1);\n', opts=['-DF(x)=x'])
    add('D-utf8', b'int x;\n', opts=['-DX=\udcff'])
    add('U-builtin', b'int x = __LINE__;\n', opts=['-U__LINE__'])
    add('include-opt-missing', b'int x;\n', opts=['-include', '@DIR@/nonexistent.h'])
    add('include-opt-self', b'int x;\n', opts=['-include', '@DIR@/f.c'])
    add('include-opt-unterminated', b'int x;\n', {'p.h': b'#if 1\n'}, opts=['-include', '@DIR@/p.h'])
    add('include-opt-openstr', b'int x;\n', {'p.h': b'"abc'}, opts=['-include', '@DIR@/p.h'])
    add('include-opt-empty', b'int x;\n', {'p.h': b''}, opts=['-include', '@DIR@/p.h'])
    add('include-opt-noeol', b'int x;\n', {'p.h': b'#define Q 1'}, opts=['-include', '@DIR@/p.h'])
    add('E-mode-garbage', b'1e 0x 1.2.3 @ ` $ \\ x\n', opts=['-E'])
    add('E-mode-unclosed', b'"abc\n', opts=['-E'])
    add('M-mode', b'#include <stddef.h>\n#include "a.h"\n', {'a.h': b'int a;\n'}, opts=['-M'])
    add('MD-mode', b'#include "a.h"\nint main(){return 0;}\n', {'a.h': b'int a;\n'}, opts=['-MD', '-MF', '@DIR@/dep.d', '-MP', '-MT', 'x y'])
    add('diag-nonutf8-line-include', b'#include "h.h"\nchar *s = "\xff"; int x = ;\n', {'h.h': b'int h;\n'})
    add('diag-nonutf8-line-macro', b'#define L __LINE__\nint y = L;\nchar *s = "\xff"; int x = ;\n')
    add('diag-nonutf8-line-comment', b'#define S(x) #x\nchar *t = S(a);\n/* \xe2\x82 */ int x = ;\n')
    add('linemarker-in-macro-args', b'#define A(x) x\nint y = A(\n#2)\n')
    add('line-directive-in-macro-args', b'#define A(x) x\nint y = A(1\n#line 7\n);\n')
    add('misc-label-address-constant', b'int f(void) { static int t = !&&a; a: return t; }\n')
    add('misc-label-address-logand', b'int f(void) { static int t = &&a && &&b; a: b: return t; }\n')
    add('misc-incomplete-array-element', b'int g[2][] = {{1}};\n')
    add('misc-incomplete-array-static', b'int g[3][static] = {{}, [2]};\n')
    add('misc-string-init-int-array', b'int s[] = "abc"; short t[] = "abc"; long u[] = "hello"; int v[2] = "abcdef";\n')
    add('misc-wide-concat-diag', b'#include "a.h"\nint main() { 1 "b" L"c"; }\n', {'a.h': b'int a;\n'})
    add('fpic', b'extern int e; static int s; int g; int f(void); int main() { return e + s + g + f() + (long)&e + (long)f; }\n', opts=['-fpic'])
    add('fcommon', b'int g; int h[3]; _Thread_local int t;\n', opts=['-fcommon'])
    add('idirafter', b'#include <z.h>\nint q = Z;\n', {'inc/z.h': b'#define Z 1\n'}, opts=['-idirafter', '@DIR@/inc'])
    fixed = len(out)
    # mutated directive soups
    DIRS = [b'#if', b'#ifdef', b'#ifndef', b'#elif', b'#else', b'#endif', b'#define', b'#undef', b'#include', b'#include_next', b'#line',
            b'#pragma', b'#error', b'#', b'##', b'defined', b'__VA_ARGS__', b'__VA_OPT__', b'__FILE__', b'__LINE__', b'__COUNTER__', b'(', b')',
            b',', b'...', b'X', b'Y', b'F', b'f(x)', b'F(1,2)', b'1', b'0', b'"a.h"', b'<stddef.h>', b'\n', b'\n', b'\n', b'\\\n', b'x', b'#x', b'a##b',
            b'once', b'&&', b'||', b'!', b'==', b'<', b'>', b'?', b':', b'"', b"'", b'/*', b'*/', b'//']
    while len(out) < max(n, fixed):
        k = rng.randrange(2, 25)
        toks = [rng.choice(DIRS) for _ in range(k)]
        data = b' '.join(toks).replace(b' \n ', b'\n')
        if rng.random() < 0.5:
            data = b'#define F(x,y) x y\n#define X 1\n' + data
        out.append({'gen': 'pp-stress', 'family': 'pp:soup', 'data': data + b'\n', 'opts': [], 'files': {'a.h': b'int a_h;\n'}})
    return out


def gen_options(rng, bases, n):
    OPTS = [['-E'], ['-fpic'], ['-fPIC'], ['-fcommon'], ['-fno-common'], ['-DX=1'], ['-DX'], ['-D', 'main=f'], ['-Dint=long'], ['-UX'],
            ['-U', '__STDC__'], ['-I@DIR@'], ['-I', '/nonexistent'], ['-idirafter', '@DIR@'], ['-M'], ['-MD', '-MF', '@DIR@/d.d'],
            ['-O2'], ['-g'], ['-std=c11'], ['-w'], ['-W'], ['-xc'], ['-x', 'c'], ['-x', 'assembler'], ['-x', 'bogus'], ['-bogus'], ['-o', '@DIR@/o.s'],
            ['-S'], ['-c'], ['-s'], ['-static'], ['-shared'], ['-L.'], ['-lfoo'], ['-Wl,x'], ['-Xlinker', 'x'], ['-###'], ['-MP'], ['-MQ', 'a b'],
            ['-MMD'], ['-include', '@SNAP@/include/stddef.h'], ['-D__FILE__=1'], ['-D__LINE__'], ['-Ddefined'], ['-D__VA_ARGS__=1']]
    out = []
    for _ in range(n):
        b = pick_base(rng, bases)
        opts = list(b['opts'])
        for _ in range(rng.randrange(1, 4)):
            opts += rng.choice(OPTS)
        data = b['data'] if rng.random() < 0.6 else mutate_tokens(rng, b['data'])
        out.append({'gen': 'options', 'family': 'options', 'data': data, 'opts': opts})
    return out


# ---------------------------------------------------------------------------------------- (f) valid programs

class Valid:
    """small generator of valid C11 within what chibicc supports: declarations, declarators, initializers, statements.
    Everything is typed by construction; expressions are integer-valued unless stated."""

    def __init__(self, rng):
        self.r = rng
        self.n = 0
        self.structs = []      # (tag, [(name, type, kind)])
        self.typedefs = []
        self.enums = []
        self.gints = []
        self.garr = []         # (name, len)
        self.gptrs = []
        self.gstructs = []     # (name, tag)
        self.funcs = []        # (name, nparams)
        self.out = []

    def fresh(self, p='v'):
        self.n += 1
        return f'{p}{self.n}'

    def pick(self, xs):
        return xs[self.r.randrange(len(xs))]

    def chance(self, p):
        return self.r.random() < p

    def itype(self):
        base = ['int', 'char', 'short', 'long', 'long long', 'unsigned', 'unsigned char', 'unsigned short', 'unsigned long', 'signed char',
                '_Bool', 'long int', 'int long unsigned', 'short int', 'unsigned long long int', 'signed', 'int signed', 'char unsigned']
        t = self.pick(base + self.typedefs + [f'enum {e}' for e in self.enums])
        if self.chance(0.15):
            t = self.pick(['const ', 'volatile ', 'const volatile ']) + t
        return t

    def const(self, small=False):
        r = self.r
        if small:
            return str(r.randrange(0, 4))
        k = r.randrange(12)
        if k == 0:
            return self.pick(['0x10', '0xffu', '077', '0b11', '10L', '10UL', '10ull', "'a'", "'\\n'", "'\\x41'", "L'x'", '1u', '0x7fffffff', '2147483648'])
        if k == 1 and self.enums:
            return self.pick(['EA', 'EB', 'EC'])
        if k == 2:
            return f'(int)sizeof({self.itype()})'
        if k == 3:
            return f'(int)_Alignof({self.itype()})'
        if k == 4:
            return f'({self.const()} {self.pick(["+", "-", "*", "|", "&", "^", "<", "==", "&&", "||"])} {self.const()})'
        if k == 5:
            return f'({self.const()} ? {self.const()} : {self.const()})'
        if k == 6:
            return f'({self.const()} {self.pick(["/", "%"])} {r.randrange(1, 9)})'
        if k == 7:
            return f'({self.const()} {self.pick(["<<", ">>"])} {r.randrange(0, 8)})'
        if k == 8:
            return f'{self.pick(["-", "~", "!", "+"])}({self.const()})'
        if k == 9:
            return f'({self.itype()}){self.const()}'
        return str(r.randrange(0, 200))

    def struct_def(self):
        tag = self.fresh('S')
        kind = self.pick(['struct', 'struct', 'union'])
        mems = []
        lines = []
        for _ in range(self.r.randrange(1, 6)):
            m = self.fresh('m')
            k = self.r.randrange(10)
            if k == 0 and kind == 'struct':
                w = self.r.randrange(1, 17)
                lines.append(f'{self.pick(["int", "unsigned", "unsigned int", "signed int"])} {m} : {w};')
                mems.append((m, 'int', 'bits'))
            elif k == 1 and kind == 'struct':
                lines.append(self.pick(['int : 0;', 'int : 3;', 'unsigned : 5;']))
            elif k == 2:
                n = self.r.randrange(1, 5)
                lines.append(f'{self.itype()} {m}[{n}];')
                mems.append((m, n, 'arr'))
            elif k == 3 and self.structs:
                t = self.pick(self.structs)
                lines.append(f'{t[0]} {m};')
                mems.append((m, t, 'struct'))
            elif k == 4:
                lines.append(f'{self.itype()} *{m};')
                mems.append((m, 'int', 'ptr'))
            elif k == 5:
                a, b = self.fresh('m'), self.fresh('m')
                su = self.pick(['struct', 'union'])
                lines.append(f'{su} {{ int {a}; {self.itype()} {b}; }};')
                mems.append((a, 'int', 'int'))
                mems.append((b, 'int', 'int' if su == 'struct' else 'union2'))   # an anonymous union takes ONE initializer
            elif k == 6:
                lines.append(f'double {m};')
                mems.append((m, 'double', 'flt'))
            elif k == 7:
                lines.append(f'{kind} {tag} *{m};')
                mems.append((m, 'self', 'ptr'))
            else:
                lines.append(f'{self.itype()} {m};')
                mems.append((m, 'int', 'int'))
        if not mems:
            m = self.fresh('m')
            lines.append(f'int {m};')
            mems.append((m, 'int', 'int'))
        attr = self.pick(['', '', '', ' __attribute__((packed))', ' __attribute__((aligned(16)))'])
        self.out.append(f'{kind}{attr} {tag} {{ ' + ' '.join(lines) + ' };')
        self.structs.append((f'{kind} {tag}', mems))

    def init_for(self, t, depth=0):
        """brace initializer for a struct type, with designators sometimes"""
        tag, mems = t
        parts = []
        first = True
        need_des = False
        for (m, ty, k) in mems:
            if tag.startswith('union') and not first:
                break
            if k == 'union2':
                continue
            if self.chance(0.25) and not first:
                need_des = True
                continue
            des = need_des or self.chance(0.4)
            if k in ('int', 'bits', 'union2'):
                v = self.const(k == 'bits')
            elif k == 'flt':
                v = self.pick(['1.5', '0.0', '2', '-1e3', '1.0f'])
            elif k == 'ptr':
                v = '0'
            elif k == 'arr':
                v = '{' + ', '.join(self.const() for _ in range(self.r.randrange(0, ty + 1))) + '}'
                if v == '{}':
                    v = '{0}'
                if self.chance(0.3):
                    v = f'{{[{self.r.randrange(ty)}] = {self.const()}}}'
            else:
                v = self.init_for(ty, depth + 1) if depth < 3 else '{0}'
            parts.append(f'.{m} = {v}' if des else v)
            first = False
        return '{' + ', '.join(parts) + (',' if self.chance(0.2) else '') + '}'

    def top_decls(self):
        r = self.r
        if self.chance(0.7):
            self.out.append('enum E0 { EA, EB = 5, EC = EB * 2 };')
            self.enums.append('E0')
        for _ in range(r.randrange(0, 3)):
            t = self.fresh('T')
            self.out.append(f'typedef {self.itype()} {t};')
            self.typedefs.append(t)
        for _ in range(r.randrange(1, 4)):
            self.struct_def()
        for _ in range(r.randrange(2, 7)):
            k = r.randrange(9)
            sc = self.pick(['', '', 'static ', 'extern '])
            if k == 0:
                v = self.fresh('g')
                n = r.randrange(1, 6)
                init = '' if sc == 'extern ' or self.chance(0.3) else ' = {' + ', '.join(self.const() for _ in range(r.randrange(1, n + 1))) + '}'
                self.out.append(f'{sc}{self.itype()} {v}[{n}]{init};')
                self.garr.append((v, n))
            elif k == 1:
                v = self.fresh('g')
                t = self.pick(self.structs)
                init = '' if sc == 'extern ' or self.chance(0.3) else ' = ' + self.init_for(t)
                self.out.append(f'{sc}{t[0]} {v}{init};')
                self.gstructs.append((v, t))
            elif k == 2 and self.gints:
                v = self.fresh('g')
                tgt = self.pick(self.gints)
                init = '' if sc == 'extern ' else f' = &{tgt}'
                self.out.append(f'{sc}int *{v}{init};')
                self.gptrs.append(v)
            elif k == 3:
                v = self.fresh('g')
                lit = self.pick(['abc', '', 'a\\n', 'x y', '\\x41\\101'])
                self.out.append(('static ' if sc == 'static ' else '') + f'char {v}[] = "{lit}";')
            elif k == 4:
                v = self.fresh('g')
                n, m = r.randrange(1, 4), r.randrange(1, 4)
                self.out.append(f'int {v}[{n}][{m}] = {{{{{self.const()}}}, [{n - 1}][{m - 1}] = {self.const()}}};')
            elif k == 5:
                v = self.fresh('g')
                self.out.append(f'{self.pick(["double", "float", "long double"])} {v} = {self.pick(["1.5", "2", "-0.5e3", "1.0f", "3.0L", "1e10"])};')
            else:
                v = self.fresh('g')
                init = '' if sc == 'extern ' or self.chance(0.3) else ' = ' + self.const()
                self.out.append(f'{sc}int {v}{init};')
                self.gints.append(v)
        if not self.gints:
            self.out.append('int g0 = 1;')
            self.gints.append('g0')

    # ---- expressions (int valued)
    def expr(self, env, d=0):
        r = self.r
        if d > 3 or self.chance(0.25):
            k = r.randrange(6)
            if k == 0 and env['ints']:
                return self.pick(env['ints'])
            if k == 1 and self.garr:
                a, n = self.pick(self.garr)
                return f'{a}[{r.randrange(n)}]'
            if k == 2 and self.gstructs:
                return self.member(self.pick(self.gstructs))
            if k == 3 and self.gints:
                return self.pick(self.gints)
            return self.const()
        k = r.randrange(16)
        e = lambda: self.expr(env, d + 1)
        if k == 0:
            return f'({e()} {self.pick(["+", "-", "*", "&", "|", "^"])} {e()})'
        if k == 1:
            return f'({e()} {self.pick(["<", ">", "<=", ">=", "==", "!="])} {e()})'
        if k == 2:
            return f'({e()} {self.pick(["&&", "||"])} {e()})'
        if k == 3:
            return f'({e()} ? {e()} : {e()})'
        if k == 4:
            return f'{self.pick(["-", "~", "!"])}({e()})'
        if k == 5:
            return f'({self.itype()}){e()}'
        if k == 6 and self.funcs:
            f, n = self.pick(self.funcs)
            return f'{f}({", ".join(e() for _ in range(n))})'
        if k == 7 and env['ints']:
            return f'({self.pick(env["ints"])} {self.pick(["=", "+=", "-=", "*=", "|=", "&=", "^=", "<<=", ">>="])} {e()})'
        if k == 8 and env['ints']:
            v = self.pick(env['ints'])
            return self.pick([f'{v}++', f'{v}--', f'++{v}', f'--{v}'])
        if k == 9:
            return f'({e()}, {e()})'
        if k == 10 and env['ints']:
            return f'*&{self.pick(env["ints"])}'
        if k == 11:
            return f'(int)sizeof(({e()}) + 0)'
        if k == 12:
            return f'_Generic({e()}, int: {e()}, default: {e()})'
        if k == 13:
            return f'({e()} {self.pick(["/", "%"])} ({e()} | 1))'
        if k == 14 and self.structs:
            t = self.pick(self.structs)
            ints = [m for m in t[1] if m[2] in ('int', 'union2')]
            if ints:
                return f'(({t[0]}){self.init_for(t)}).{ints[0][0]}'
        if k == 15 and env['ptrs']:
            return self.pick([f'*{self.pick(env["ptrs"])}', f'{self.pick(env["ptrs"])}[0]'])
        return e()

    def member(self, gs, d=0):
        v, t = gs
        m, ty, k = self.pick(t[1])
        if k in ('int', 'bits', 'union2'):
            return f'{v}.{m}'
        if k == 'arr':
            return f'{v}.{m}[{self.r.randrange(ty)}]'
        if k == 'struct' and d < 3:
            return self.member((f'{v}.{m}', ty), d + 1)
        if k == 'flt':
            return f'(int){v}.{m}'
        if k == 'ptr':
            return f'({v}.{m} != 0)'
        return '0'

    def stmt(self, env, d=0):
        r = self.r
        k = r.randrange(15)
        e = lambda: self.expr(env)
        body = lambda: self.block(env, d + 1) if d < 3 else ';'
        if k == 0:
            return f'if ({e()}) {body()}' + (f' else {body()}' if self.chance(0.5) else '')
        if k == 1:
            return f'while ({e()}) {self.block(env, d + 1, loop=True) if d < 3 else ";"}'
        if k == 2:
            return f'do {self.block(env, d + 1, loop=True) if d < 3 else ";"} while ({e()});'
        if k == 3:
            i = self.fresh('i')
            env2 = dict(env, ints=env['ints'] + [i])
            return f'for (int {i} = 0; {i} < {r.randrange(1, 9)}; {i}++) {self.block(env2, d + 1, loop=True) if d < 3 else ";"}'
        if k == 4 and d < 3:
            cases = sorted(r.sample(range(0, 40), r.randrange(1, 5)))
            s = f'switch ({e()}) {{ '
            for c in cases:
                s += f'case {c}: {self.simple(env)} ' + ('break; ' if self.chance(0.7) else '')
            if self.chance(0.3):
                s += f'case {cases[-1] + 2} ... {cases[-1] + 5}: break; '
            if self.chance(0.6):
                s += f'default: {self.simple(env)} break; '
            return s + '}'
        if k == 5 and env.get('loop'):
            return self.pick(['break;', 'continue;'])
        if k == 6:
            return f'return {e()};'
        if k == 7 and d < 3:
            return self.block(env, d + 1)
        if k == 8:
            l = self.fresh('L')
            return f'goto {l}; {self.simple(env)} {l}: {self.simple(env)}'
        if k == 9:
            return ';'
        return self.simple(env)

    def simple(self, env):
        if env['ints'] and self.chance(0.6):
            return f'{self.pick(env["ints"])} = {self.expr(env)};'
        return f'{self.expr(env)};'

    def local_decl(self, env):
        r = self.r
        k = r.randrange(8)
        v = self.fresh('l')
        if k == 0:
            n = r.randrange(1, 5)
            env['arrs'] = env.get('arrs', []) + [(v, n)]
            return f'{self.itype()} {v}[{n}] = {{' + ', '.join(self.expr(env) for _ in range(r.randrange(1, n + 1))) + '};'
        if k == 1 and self.structs:
            t = self.pick(self.structs)
            return f'{t[0]} {v} = {self.init_for(t)};'
        if k == 2 and env['ints']:
            tgt = self.pick(env['ints'])
            s = f'__typeof__({tgt}) *{v} = &{tgt};'
            env['ptrs'].append(v)
            return s
        if k == 3:
            s = f'{self.pick(["static ", "static const ", "register ", "auto ", "const "])}int {v} = {self.const()};'
            return s
        if k == 4 and env['ints']:
            s = f'int {v}[{self.pick(env["ints"])} & 3 | 1];'
            return s
        if k == 5:
            s = f'__typeof__(({self.expr(env)}) + 0) {v} = {self.const()};'
            return s
        s = f'{self.itype().replace("const ", "").replace("volatile ", "").replace("const", "")} {v} = {self.expr(env)};'
        env['ints'].append(v)
        return s

    def block(self, env, d=0, loop=False):
        env = {'ints': list(env['ints']), 'ptrs': list(env['ptrs']), 'loop': loop or env.get('loop')}
        items = []
        for _ in range(self.r.randrange(0, 3)):
            items.append(self.local_decl(env))
        for _ in range(self.r.randrange(1, 4)):
            items.append(self.stmt(env, d))
        return '{ ' + ' '.join(items) + ' }'

    def func(self):
        f = self.fresh('f')
        n = self.r.randrange(0, 5)
        ps = [self.fresh('p') for _ in range(n)]
        sig = ', '.join(f'{self.pick(["int", "long", "char", "unsigned", "short"])} {p}' for p in ps) or 'void'
        sc = self.pick(['', 'static ', 'static inline ', ''])
        if self.chance(0.3):
            self.out.append(('static ' if sc else self.pick(['', 'extern '])) + f'int {f}({sig});')
        env = {'ints': list(ps), 'ptrs': [], 'loop': False}
        body = self.block(env)
        self.out.append(f'{sc}int {f}({sig}) {body[:-1]} return {self.expr(env)}; }}')
        self.funcs.append((f, n))

    def program(self):
        self.top_decls()
        for _ in range(self.r.randrange(1, 5)):
            self.func()
        env = {'ints': [], 'ptrs': [], 'loop': False}
        self.out.append(f'int main(void) {self.block(env)[:-1]} return 0; }}')
        return '\n'.join(self.out) + '\n'


def gen_valid(rng, n):
    out = []
    sys.path.insert(0, os.path.join(VERIF, 'tools', 'gen'))
    try:
        import cprog
    except Exception:
        cprog = None
    finally:
        sys.path.pop(0)
    for i in range(n):
        if cprog is not None and i % 8 == 7:
            try:
                src, flags = cprog.gen_program(rng)
                out.append({'gen': 'valid-cprog', 'family': 'valid', 'data': src.encode(), 'opts': list(flags or []), 'expect': 'ok',
                            'gcc_opts': [f for f in (flags or []) if f.startswith(('-D', '-f'))]})
                continue
            except Exception:
                pass
        src = Valid(rng).program()
        out.append({'gen': 'valid', 'family': 'valid', 'data': src.encode(), 'opts': [], 'expect': 'ok'})
    return out


# ---------------------------------------------------------------------------------------- (g) boundary constants at emission sites

_POW = [7, 8, 15, 16, 31, 32, 63]


def boundary_values():
    """0, +-1 and +-1 around 2^7, 2^8, 2^15, 2^16, 2^31, 2^32, 2^63 (both signs)"""
    vs = {0, 1, -1, 2, -2}
    for k in _POW:
        for d in (-2, -1, 0, 1):
            vs.add((1 << k) + d)
            vs.add(-(1 << k) - d)
    return sorted(vs)


CTL_TYPES = [  # (spelling, lo, hi) of the promoted controlling type's value range the type itself can hold
    ('char', -128, 127), ('signed char', -128, 127), ('unsigned char', 0, 255), ('short', -32768, 32767),
    ('unsigned short', 0, 65535), ('int', -(1 << 31), (1 << 31) - 1), ('unsigned', 0, (1 << 32) - 1),
    ('long', -(1 << 63), (1 << 63) - 1), ('unsigned long', 0, (1 << 64) - 1), ('long long', -(1 << 63), (1 << 63) - 1),
    ('unsigned long long', 0, (1 << 64) - 1), ('_Bool', 0, 1),
]


def c_lit(v, unsigned=False):
    """a C constant expression with value v whose type is long / unsigned long (or int where it fits), accepted by gcc without
    warnings about its spelling"""
    if unsigned:
        if v < (1 << 32):
            return '%dU' % v if v < (1 << 31) else '0x%xU' % v
        return '0x%xUL' % v
    if v == -(1 << 63):
        return '(-9223372036854775807L-1)'
    if v == -(1 << 31):
        return '(-2147483647-1)'
    if v < 0:
        return '(-%s)' % c_lit(-v)
    if v < (1 << 31):
        return str(v) if v % 3 else '0x%x' % v
    return '%dL' % v if v % 2 else '0x%xL' % v


def promoted_range(lo, hi):
    """range of the type the controlling expression is promoted to (C11 6.8.4.2p5 converts the case constants to it)"""
    if lo >= -(1 << 31) and hi <= (1 << 31) - 1:
        return -(1 << 31), (1 << 31) - 1, False
    if lo >= 0 and hi <= (1 << 32) - 1:
        return 0, (1 << 32) - 1, True
    if lo < 0:
        return -(1 << 63), (1 << 63) - 1, False
    return 0, (1 << 64) - 1, True


ALLOW_U64_CROSSING = True     # /repo fix 2292ae8: the emptiness test of a case range is made in the promoted controlling type


def gen_switch_fn(rng, name):
    ty, lo, hi = CTL_TYPES[rng.randrange(len(CTL_TYPES))] if rng.random() < 0.6 else CTL_TYPES[rng.randrange(7, 11)]   # 64-bit types more often
    plo, phi, uns = promoted_range(lo, hi)
    vals = [v for v in boundary_values() if plo <= v <= phi]
    rng.shuffle(vals)
    want = rng.randrange(3, 10)
    taken = []          # disjoint closed intervals
    arms = []
    spans = [0, 1, 2, 126, 127, 128, 255, 256, 32767, 65535, 65536, (1 << 31) - 2, (1 << 31) - 1, 1 << 31, (1 << 31) + 1, (1 << 32) - 2,
             (1 << 32) - 1, 1 << 32, (1 << 32) + 1, (1 << 63) - 1, 1 << 63, (1 << 64) - 2, (1 << 64) - 1,
             (1 << 31) - 1, 1 << 31, (1 << 32) - 1, 1 << 32]
    for v in vals:
        if len(arms) >= want:
            break
        if rng.random() < 0.45:
            span = spans[rng.randrange(len(spans))]
            a, b = v, min(phi, v + span)
        else:
            a = b = v
        if any(not (b < x or y < a) for x, y in taken):
            continue
        if uns and a < (1 << 63) <= b and not ALLOW_U64_CROSSING:
            continue        # parse.c compares the bounds of a case range as `long`: an unsigned range crossing 2^63 is rejected (reported)
        taken.append((a, b))
        k = len(arms) + 1
        if a == b:
            arms.append(f'  case {c_lit(a, uns)}: r = {k}; break;')
        else:
            arms.append(f'  case {c_lit(a, uns)} ... {c_lit(b, uns)}: r = {k}; break;')
    body = '\n'.join(arms)
    dflt = '  default: r = -1; break;\n' if rng.random() < 0.7 else ''
    return f'int {name}({ty} x) {{\n  int r = 0;\n  switch (x) {{\n{body}\n{dflt}  }}\n  return r;\n}}\n'


def gen_imm_fn(rng, name):
    """immediates of boundary magnitude in arithmetic / compare / assignment / index / shift positions"""
    bv = boundary_values()
    pick = lambda: bv[rng.randrange(len(bv))]
    lines = []
    ity = rng.choice(['int', 'long', 'unsigned', 'unsigned long', 'short', 'char', 'unsigned char'])
    lines.append(f'long {name}({ity} x, long y, unsigned long u, char *p, long *q, int *ip) {{')
    lines.append('  long r = 0;')
    for _ in range(rng.randrange(6, 14)):
        v = pick()
        k = rng.randrange(14)
        L = c_lit(v) if -(1 << 63) <= v <= (1 << 63) - 1 else c_lit(v % (1 << 64), True)
        U = c_lit(v % (1 << 64), True)
        if k == 0:
            op = rng.choice(['+', '-', '*', '&', '|', '^'])
            lines.append(f'  r += y {op} {L};')
        elif k == 1:
            op = rng.choice(['<', '<=', '>', '>=', '==', '!='])
            lines.append(f'  r += (y {op} {L}) + (u {op} {U}) + (x {op} {L});')
        elif k == 2:
            lines.append(f'  y = {L}; r ^= y; u = {U}; r ^= (long)u;')
        elif k == 3:
            d = v if v not in (0,) else 3
            Ld = c_lit(d) if -(1 << 63) <= d <= (1 << 63) - 1 else c_lit(d % (1 << 64), True)
            if d == -1:
                lines.append(f'  r += u / {c_lit(d % (1 << 64), True)} + u % {c_lit(d % (1 << 64), True)};')
            else:
                lines.append(f'  r += y / {Ld} + y % {Ld};')
        elif k == 4:
            i = v if -(1 << 63) <= v <= (1 << 63) - 1 else 1
            lines.append(f'  r += p[{c_lit(i)}] + q[{c_lit(i // 8)}] + ip[{c_lit(i // 4)}];')
        elif k == 5:
            i = v if -(1 << 63) <= v <= (1 << 63) - 1 else 1
            lines.append(f'  r += *(p + {c_lit(i)}) + (long)(q + {c_lit(i // 8)}) + (long)&ip[{c_lit(i // 4)}];')
        elif k == 6:
            c = rng.choice([0, 1, 7, 8, 15, 16, 31, 32, 33, 62, 63])
            lines.append(f'  r += (y << {c}) + (y >> {c}) + (long)(u << {c}) + (long)(u >> {c});')
            if c < 32:
                lines.append(f'  r += (x << {c % 8}) + (x >> {c % 8});')
        elif k == 7:
            lines.append(f'  y += {L}; y -= {L}; u *= {U}; u &= {U}; y |= {L}; y ^= {L};')
        elif k == 8:
            lines.append(f'  r += y ? {L} : {c_lit(pick() % (1 << 63))};')
        elif k == 9:
            lines.append(f'  r += ({rng.choice(["char", "short", "int", "unsigned char", "unsigned short", "unsigned", "long", "_Bool"])}){L};')
        elif k == 10:
            lines.append(f'  {{ long t[3] = {{{L}, {c_lit(pick() % (1 << 63))}, y}}; r += t[x & 1]; }}')
        elif k == 11:
            lines.append(f'  x = ({ity}){L}; r += x; x += ({ity}){c_lit(pick() % (1 << 31))}; r += x;')
        elif k == 12:
            lines.append(f'  r ^= ~{L}; r += !{L}; r ^= (long)(-(unsigned long){L});')
        else:
            lines.append(f'  if (y == {L} || u > {U}) r++; while (y < {L}) {{ y += {c_lit(max(1, abs(v) // 2 + 1) % (1 << 62) + 1)}; r++; if (r > 3) break; }}')
    lines.append('  return r;')
    lines.append('}')
    return '\n'.join(lines) + '\n'


def gen_struct_off(rng, name):
    """members at boundary offsets (within chibicc's struct size limit), bit-fields of boundary widths, used through a pointer"""
    offs = [0x7f, 0x80, 0xff, 0x100, 0x7fff, 0x8000, 0xffff, 0x10000, 0x7fffff, 0x800000, 0x7ffffff]
    o1, o2 = sorted(rng.sample(offs, 2))
    widths = rng.sample([1, 2, 7, 8, 15, 16, 31, 32, 33, 63, 64], 4)
    bfs = ' '.join(f'{"unsigned long" if w > 32 or rng.random() < 0.5 else "long"} b{i} : {w};' for i, w in enumerate(widths))
    s = f'typedef struct {{ char pad0[{o1}]; int m1; char pad1[{o2 - o1}]; long m2; {bfs} char tail; }} {name}_t;\n'
    s += f'long {name}({name}_t *p, {name}_t *q) {{\n'
    s += '  p->m1 = 1; p->m2 = q->m2 + q->m1; p->tail = q->tail;\n'
    for i, w in enumerate(widths):
        s += f'  p->b{i} = q->b{i} + 1; p->b{i}++; p->b{i} |= 1;\n'
    s += f'  return p->m1 + p->m2 + p->b0 + (long)&p->m2 + (long)sizeof(*p) + (long)&(({name}_t *)0)->tail + (long)(p + 1) + (long)&p[{rng.choice([1, 2, 15, 16, 255])}];\n}}\n'
    if o2 <= 0x10000 and rng.random() < 0.7:       # an initialized object costs one Initializer node per array element (see C13-huge-designator-index)
        s += f'static {name}_t {name}_g = {{ .m1 = 1, .m2 = 2, .b0 = 1, .tail = 3 }};\nlong {name}_h(void) {{ return {name}({name}_g.m1 ? &{name}_g : 0, &{name}_g); }}\n'
    return s


def gen_frame_fn(rng, name):
    """large local frames and alignments"""
    sz = rng.choice([1, 0x7f, 0x80, 0xff, 0x100, 0x7fff, 0x8000, 0xffff, 0x10000, 0x7ffff, 0x100000, 0x7fffff, 0x1000000, 0x7fffffe])
    al = rng.choice([1, 2, 4, 8, 16, 32, 64, 128, 4096])
    s = f'long {name}(long n) {{\n  char a[{sz}]; _Alignas({al}) char b[{rng.choice([1, 3, 16, 33])}]; long v[{rng.choice([1, 15, 16, 17, 4095, 4096])}];\n'
    s += f'  _Alignas({rng.choice([16, 32, 64])}) struct {{ char c; long d; }} s = {{1, 2}};\n'
    s += f'  a[0] = 1; a[{sz - 1}] = 2; b[0] = 3; v[0] = n; s.d += n;\n'
    s += '  return a[0] + b[0] + v[0] + s.d + (long)&a + (long)&b;\n}\n'
    return s


def gen_global_data(rng, name):
    bv = [v for v in boundary_values() if -(1 << 63) <= v <= (1 << 63) - 1]
    vals = [bv[rng.randrange(len(bv))] for _ in range(rng.randrange(3, 9))]
    s = f'long {name}_l[] = {{{", ".join(c_lit(v) for v in vals)}}};\n'
    s += f'unsigned long {name}_u[] = {{{", ".join(c_lit(v % (1 << 64), True) for v in vals)}}};\n'
    s += f'int {name}_i[] = {{{", ".join(c_lit(v % (1 << 31)) for v in vals)}}};\n'
    s += f'char {name}_c[{rng.choice([1, 127, 128, 255, 256, 65535, 65536, 0x100000])}] = {{1}};\n'
    s += f'char {name}_z[{rng.choice([0x1000000, 0x7fffffff, 0x10000000])}];\n'
    s += f'long *{name}_p = &{name}_l[{len(vals) - 1}]; char *{name}_q = {name}_c + {rng.choice([0, 1, 127, 128, 255])};\n'
    s += f'_Alignas({rng.choice([16, 64, 4096, 65536])}) long {name}_al = {c_lit(vals[0])};\n'
    return s


CONST_EDGE = ['0', '1', '2', '-1', '-2', '127', '128', '255', '256', '32767', '32768', '65535', '65536', '2147483647', '(-2147483647-1)',
              '2147483648', '4294967295', '4294967296', '9223372036854775807', '(-9223372036854775807-1)', '(-9223372036854775807)',
              '9223372036854775808u', '18446744073709551615u', '0x100000000', '0xffffffff00000000', '1u', '1l', '-1l', '63', '64', '31', '32']

def gen_const_fold(rng, tag):
    """constant expressions the translation-time folder evaluates, with both operands on the boundaries of the integer types (the
    host's own arithmetic must not trap: LONG_MIN / -1, LONG_MIN % -1, x / 0 are diagnostics or values, never a signal); every
    undefined combination is left out (division by zero, shifts out of range, signed overflow other than the two division cases gcc
    folds with a warning)"""
    lines = []
    for k in range(rng.randrange(4, 10)):
        a, b = rng.choice(CONST_EDGE), rng.choice(CONST_EDGE)
        op = rng.choice(['/', '%', '/', '%', '*', '+', '-', '<<', '>>', '&', '|', '^', '<', '<=', '==', '&&', '||', '?'])
        if op in ('/', '%') and b.strip('()ul') in ('0',):
            b = '-1'
        if op in ('<<', '>>'):
            b = rng.choice(['0', '1', '31', '32', '63'])
            a = rng.choice(['1', '1u', '1l', '0xffl', '1ul'])
        if op in ('*', '+', '-'):
            a, b = f'(unsigned long){a}', f'(unsigned long){b}'      # unsigned: wraps, never overflows
        e = f'({a} ? {b} : 7)' if op == '?' else f'({a} {op} {b})'
        kind = rng.randrange(5)
        if kind == 0:
            lines.append(f'static long {tag}_c{k} = {e};')
        elif kind == 1:
            lines.append(f'enum {{ {tag}_e{k} = (int)(({e}) & 0xff) }};')
        elif kind == 2:
            lines.append(f'char {tag}_a{k}[((({e}) & 7) + 1)];')
        elif kind == 3:
            lines.append(f'#if {e}\nint {tag}_p{k};\n#endif'.replace('(unsigned long)', ''))
        else:
            lines.append(f'int {tag}_f{k}(long x) {{ switch (x) {{ case (({e}) & 0xff): return 1; }} return 0; }}')
    return '\n'.join(lines)


def gen_boundary(rng, n):
    """valid programs whose constants sit on the boundaries of the instruction encodings: expect exit 0 and `as` accepts"""
    out = []
    for i in range(n):
        parts = []
        fam = i % 6
        if fam == 5:
            parts = [gen_const_fold(rng, f'cf{j}') for j in range(rng.randrange(1, 4))]
        elif fam == 0:
            parts = [gen_switch_fn(rng, f'sw{j}') for j in range(rng.randrange(2, 6))]
        elif fam == 1:
            parts = [gen_imm_fn(rng, f'im{j}') for j in range(rng.randrange(1, 3))]
        elif fam == 2:
            parts = [gen_struct_off(rng, f'so{j}') for j in range(rng.randrange(1, 3))]
        elif fam == 3:
            parts = [gen_frame_fn(rng, f'fr{j}') for j in range(rng.randrange(1, 3))] + [gen_global_data(rng, 'gd')]
        else:
            parts = [gen_switch_fn(rng, 'sw'), gen_imm_fn(rng, 'im'), gen_struct_off(rng, 'so'), gen_frame_fn(rng, 'fr'),
                     gen_global_data(rng, 'gd')]
        src = '\n'.join(parts)
        out.append({'gen': 'valid-boundary', 'family': 'valid', 'data': src.encode(), 'opts': [], 'expect': 'ok'})
    return out


# ---------------------------------------------------------------------------------------- (h) literal texts for the reader tie

LIT_BODY = [b'a', b'Z', b'0', b' ', b'%', b'\\n', b'\\t', b'\\\\', b'\\"', b"\\'", b'\\0', b'\\7', b'\\77', b'\\777', b'\\7777', b'\\8',
            b'\\x41', b'\\x0', b'\\xfffffffff', b'\\x', b'\\xg', b'\\e', b'\\q', b'\\?', b'\xc3\xa9', b'\xe2\x82\xac', b'\xf0\x9f\x98\x80',
            b'\xc3', b'\xe2\x82', b'\xf0\x9f', b'\x80', b'\xbf', b'\xc0\x80', b'\xff', b'\xfe', b'\xed\xa0\x80', b'\xf4\x90\x80\x80',
            b'\x01', b'\x7f', b'/*', b'//', b"'", b'"']
LIT_NUM = [b'0', b'1', b'08', b'0x', b'0x1f', b'0b', b'0b102', b'1e', b'1e+', b'1e+5', b'1.', b'.5', b'1.5f', b'1.5fl', b'0x1p', b'0x1p-3',
           b'1u', b'1ul', b'1lu', b'1llu', b'1lul', b'1uu', b'18446744073709551615', b'18446744073709551616', b'0xffffffffffffffffu',
           b'1..2', b'1e5e5', b'12ab', b'1_000', b'0x1.8p1L', b'1.0e+', b'9' * 40, b'.e1', b'.1e', b'1.e+1f']


def gen_literal_texts(rng, n):
    """texts that start with a string, character or numeric literal (well-formed or not); no NUL, CR, newline, `\\u`, `#`"""
    out = [b'"\\', b"'\\", b'"\\x', b"'\\x", b'"', b"'", b"''", b'""', b'L"', b"u'", b'u8"', b'U"\xf0\x9f"', b"'\\", b'"\\7', b'"a\\']
    while len(out) < n:
        r = rng.random()
        if r < 0.25:
            out.append(rng.choice(LIT_NUM))
            continue
        q = b'"' if rng.random() < 0.6 else b"'"
        pre = rng.choice([b'', b'', b'u8', b'u', b'L', b'U']) if q == b'"' else rng.choice([b'', b'', b'u', b'L', b'U'])
        body = b''.join(rng.choice(LIT_BODY) for _ in range(rng.randrange(0, 6)))
        t = pre + q + body + (q if rng.random() < 0.8 else b'')
        if b'\\u' in t or b'\\U' in t:
            continue
        out.append(t)
    return out


# ---------------------------------------------------------------------------------------- (i) long histories of the macro table

def gen_macro_histories(rng, n):
    """long #define / #undef histories over DISTINCT names (each name is defined, used and undefined again): the macro table sees
    hundreds to thousands of insertions and deletions, far more than its initial capacity; valid input, must be accepted"""
    out = []
    for i in range(n):
        k = rng.choice([40, 200, 400, 700, 1200, 2500]) if i else 900
        lines = []
        live = []
        total = 0
        for j in range(k):
            nm = 'M%d_%d' % (i, j) if rng.random() < 0.8 else 'm%dx%dy' % (j, i)
            r = rng.random()
            if r < 0.15:
                lines.append('#define %s(a, b) ((a) + (b) + %d)' % (nm, j))
                lines.append('int u%d = %s(1, 2);' % (j, nm))
            else:
                lines.append('#define %s %d' % (nm, j))
                if r < 0.4:
                    lines.append('int u%d = %s;' % (j, nm))
            live.append((nm, r < 0.15))
            total += 1
            # keep only a few names live: the others are removed again (tombstones)
            while len(live) > rng.choice([0, 1, 3, 8]):
                v = live.pop(rng.randrange(len(live)))
                lines.append('#undef %s' % v[0])
            if r > 0.97 and live and not live[0][1]:
                lines.append('#ifdef %s\nint w%d = %s;\n#endif' % (live[0][0], j, live[0][0]))
        lines.append('#ifdef M%d_0\n#error still defined\n#endif' % i)
        lines.append('int main(void) { return 0; }')
        src = '\n'.join(lines) + '\n'
        out.append({'gen': 'macro-history', 'family': 'pp:macro-history', 'data': src.encode(), 'opts': [], 'expect': 'ok'})
    return out
