"""C17, deepened legs:
   (a) the key conventions of the clients (token span / strndup+strlen / existing C string) on the real hashmap.c
       wrappers with the real libc, against the model (drv_c17 hashmapx) and a python dictionary keyed by the C meaning
       of each key; the same harness compiled by the snapshot's chibicc (stage-2 hashmap.c) must print the same lines;
   (b) the real clients inside the compiler (macro table, scope tables for variables/typedefs and tags, keyword and
       type-name sets) on adversarial identifier families, against gcc 12 and a python oracle."""
import os, hashlib
from .framework import *

MASK64 = (1 << 64) - 1
KEYWORDS = ['return', 'if', 'else', 'for', 'while', 'int', 'sizeof', 'char', 'struct', 'union', 'short', 'long', 'void',
            'typedef', '_Bool', 'enum', 'static', 'goto', 'break', 'continue', 'switch', 'case', 'default', 'extern',
            '_Alignof', '_Alignas', 'do', 'signed', 'unsigned', 'const', 'volatile', 'auto', 'register', 'restrict',
            '__restrict', '__restrict__', '_Noreturn', 'float', 'double', 'typeof', 'asm', '_Thread_local', '__thread',
            '_Atomic', '__attribute__', 'inline']

# ------------------------------------------------------------------------------------------------ (a) key conventions

def c_key(conv, obj, ln):
    """what C says the key is (python as the independent reading of strndup/strlen/(ptr,len))"""
    if conv == 'span':
        return obj[:ln]
    if conv == 'dup':
        return obj[:ln].split(b'\0')[0]
    return obj.split(b'\0')[0]

def hexs(b):
    return b.hex() if b else '-'

def byte_families(rng, thorough, fnv_py=None):
    fams = {}
    if fnv_py:
        # names that share a bucket with a name they extend (a false hit needs the probe paths to meet): extensions of
        # `out` and of `a\0b`-like names whose hash is equal modulo 16 and modulo 64
        col = []
        for base in (b'out', b'a\0', b'x'):
            col.append(base)
            for mod in (16, 64):
                want = fnv_py(base + (b'b' if base.endswith(b'\0') else b'')) % mod
                found = 0
                for a in range(1, 256):
                    for b in ([None] if base.endswith(b'\0') else range(48, 123)):
                        cand = base + bytes([a]) + (bytes([b]) if b is not None else b'')
                        if fnv_py(cand) % mod == want and cand not in col:
                            col.append(cand); found += 1
                            break
                    if found >= 4:
                        break
        fams['collide'] = col
    chain = b'out_err_code_2'
    fams['prefix'] = [chain[:i] for i in range(1, len(chain) + 1)] + [b'x' * k for k in range(1, 12)]
    fams['onechar'] = [bytes([c]) for c in b'abcdefghijklmnopqrstuvwxyzABCDEFGHIJKLMNOPQRSTUVWXYZ_$']
    fams['long'] = [b'L' * 255, b'L' * 254 + b'M', b'M' + b'L' * 254, b'L' * 256, b'L' * 254, b'L' * 4000, b'L' * 3999 + b'K']
    fams['utf8'] = [x.encode() for x in ['é', 'éé', 'è', 'e', 'naïve', 'naive', '日本', '日本語', '日', 'αβ', 'α', 'β', 'ж', 'жж', '\U0001F600x']]
    fams['keywords'] = [k.encode() for k in KEYWORDS] + [b'in', b'inte', b'retur', b'returns', b'type', b'typedefs', b'_Atomi']
    fams['highbytes'] = [b'\xff', b'\xff\xfe', b'\x80', b'\x80\x80', b'\xc3', b'\xc3\xa9', b'\xe9', b'a\xff', b'\xffa', b'\x7f', b'\x81']
    fams['nul'] = [b'a\0b', b'a\0c', b'a', b'\0', b'', b'ab\0', b'ab']
    n = 6 if thorough else 2
    for j in range(n):
        k = rng.randrange(3, 30)
        fams[f'random{j}'] = [bytes(rng.randrange(1, 256) for _ in range(rng.randrange(1, 9))) for _ in range(k)]
    return fams

def gen_client_history(rng, names, nops):
    """returns (text, ops) with ops = [(kind, conv, obj, len, val, ckey)]"""
    ops = []
    val = 1
    for _ in range(nops):
        name = rng.choice(names)
        x = rng.random()
        kind = 'kput' if x < 0.45 else 'kdel' if x < 0.65 else 'kget'
        conv = rng.choice(['span', 'dup', 'cstr'])
        tail = rng.choice([b'', b'_err', b' = 1;', b'0', b'\xff', bytes(rng.randrange(256) for _ in range(rng.randrange(0, 6)))])
        if conv == 'cstr':
            if b'\0' in name and rng.random() < 0.5:
                conv = 'span'
                obj, ln = name + tail, len(name)
            else:
                obj, ln = name + b'\0' + tail, 0
        elif conv == 'dup':
            obj, ln = name + tail, len(name)
            if rng.random() < 0.2:            # strndup with n beyond the string's end stops at the NUL
                obj, ln = name + b'\0', len(name) + rng.randrange(0, 4)
                if ln > len(obj):
                    ln = len(obj)
        else:
            obj, ln = name + tail, len(name)
        ops.append((kind, conv, obj, ln, val if kind == 'kput' else None, c_key(conv, obj, ln)))
        if kind == 'kput':
            val += 1
    for name in names[:40]:
        ops.append(('kget', 'span', name + b'??', len(name), None, name))
    text = ''
    for kind, conv, obj, ln, v, _ in ops:
        text += f'{kind} {conv} {hexs(obj)} {ln}' + (f' {v}' if kind == 'kput' else '') + '\n'
    return text, ops

def oracle_gets(ops):
    d, outs = {}, []
    for kind, conv, obj, ln, v, ck in ops:
        if kind == 'kput':
            d[ck] = v
        elif kind == 'kdel':
            d.pop(ck, None)
        else:
            outs.append(d.get(ck))
    return outs

def gets_of(lines):
    return [None if l == 'get NULL' else int(l[4:]) for l in lines if l.startswith('get ')]

def client_key_histories(ctx, corr, run_impl, fnv_py):
    rng = ctx.rng
    fams = byte_families(rng, ctx.thorough, fnv_py)
    cases = []
    per = 6 if ctx.thorough else 2
    for fname, names in fams.items():
        for _ in range(per):
            text, ops = gen_client_history(rng, names, rng.choice([30, 80, 200]) if not ctx.thorough else rng.choice([30, 80, 200, 1500]))
            cases.append((fname, text, ops))
    # hashes of every name and of random byte strings (bytes >= 0x80 included)
    hnames = [n for ns in fams.values() for n in ns] + [bytes(rng.randrange(256) for _ in range(rng.randrange(0, 40))) for _ in range(200)]
    htext = ''.join(f'hash {hexs(n)}\n' for n in hnames)
    big = ''.join(t + 'reset\n' for _, t, _ in cases) + htext
    impl = run_impl(ctx, big)
    impl2 = run_impl(ctx, big, stage2=True)
    model = ctx.driver('hashmapx', big).splitlines()
    def split(lines):
        out, cur = [], []
        for l in lines:
            if l == 'reset':
                out.append(cur); cur = []
            else:
                cur.append(l)
        out.append(cur)
        return out
    si, s2, sm = split(impl), split(impl2), split(model)
    for i, (fname, text, ops) in enumerate(cases):
        corr.evaluations += 1
        corr.count('client-keys:' + fname.rstrip('0123456789'))
        li = si[i] if i < len(si) else ['<missing>']
        l2 = s2[i] if i < len(s2) else ['<missing>']
        lm = sm[i] if i < len(sm) else ['<missing>']
        convs = {}
        for kind, conv, obj, ln, v, ck in ops:
            convs.setdefault(ck, set()).add(conv)
        if any(len(c) >= 2 for c in convs.values()):
            corr.nontrivial.add(hashlib.sha1(text.encode()).hexdigest())
        want = oracle_gets(ops)
        got = gets_of(li)
        crashed = [l for l in li if l.startswith('crash')]
        if crashed or got != want:
            j = next((j for j, (w, g) in enumerate(zip(want, got)) if w != g), None)
            small = shrink_client(ctx, run_impl, ops)
            corr.violations.append({'what': 'a name table answers a lookup differently from the dictionary keyed by spelling '
                                            '(false hit or false miss through the key conventions)' if not crashed else
                                            'table maintenance aborted: ' + crashed[0],
                                    'family': fname, 'first_bad_get': j, 'kops': ops_text(small),
                                    'expected': oracle_gets(small), 'got': gets_of(run_impl(ctx, ops_text(small)))})
            return False
        if li != lm:
            j = next((j for j in range(min(len(li), len(lm))) if li[j] != lm[j]), min(len(li), len(lm)))
            corr.disagreements.append({'kind': 'client key conventions: hashmap.c+libc vs Model/C17Clients', 'family': fname,
                                       'op_index': j, 'op': text.splitlines()[j] if j < len(ops) else '<end>',
                                       'impl': li[j] if j < len(li) else '<end>', 'model': lm[j] if j < len(lm) else '<end>'})
            return False
        if l2 != li:
            j = next((j for j in range(min(len(li), len(l2))) if li[j] != l2[j]), min(len(li), len(l2)))
            corr.violations.append({'what': 'hashmap.c compiled by chibicc itself (stage 2) behaves differently from the gcc build '
                                            'on the same key history', 'family': fname, 'kops': text if len(ops) < 300 else ops_text(ops[:j + 1]),
                                    'expected': li[j] if j < len(li) else '<end>', 'got': l2[j] if j < len(l2) else '<end>'})
            return False
    # hashes
    hi, h2, hm = si[-1], s2[-1], sm[-1]
    for k, n in enumerate(hnames):
        corr.evaluations += 1
        want = f'hash {fnv_py(n)}'
        a = hi[k] if k < len(hi) else '<missing>'
        b = h2[k] if k < len(h2) else '<missing>'
        c = hm[k] if k < len(hm) else '<missing>'
        if any(x >= 0x80 for x in n):
            corr.nontrivial.add('hash:' + n.hex())
        if c != want or a != c:
            corr.disagreements.append({'kind': 'fnv_hash: code vs translated model vs python', 'bytes': n.hex(), 'impl': a, 'model': c, 'python': want})
            return False
        if b != a:
            corr.violations.append({'what': 'fnv_hash compiled by chibicc itself (stage 2) differs from the gcc build (char signedness / '
                                            'uint64_t arithmetic): the two stages of a bootstrap would lay out every table differently',
                                    'kops': f'hash {hexs(n)}\n', 'expected': a, 'got': b})
            return False
    corr.count('hash', len(hnames))
    corr.sample({'client-keys': cases[0][1].splitlines()[:5], 'impl': si[0][:3]})
    return True

def ops_text(ops):
    return ''.join(f'{kind} {conv} {hexs(obj)} {ln}' + (f' {v}' if kind == 'kput' else '') + '\n' for kind, conv, obj, ln, v, _ in ops)

def client_bad(ctx, run_impl, ops):
    lines = run_impl(ctx, ops_text(ops))
    if any(l.startswith('crash') for l in lines):
        return True
    return gets_of(lines) != oracle_gets(ops)

def shrink_client(ctx, run_impl, ops):
    ops = list(ops)
    if len(ops) > 400:
        return ops
    changed = True
    while changed:
        changed = False
        for i in range(len(ops)):
            cand = ops[:i] + ops[i + 1:]
            if cand and client_bad(ctx, run_impl, cand):
                ops, changed = cand, True
                break
    return ops

def parse_kops(text):
    ops = []
    for line in text.splitlines():
        w = line.split()
        if not w or w[0] not in ('kput', 'kdel', 'kget'):
            continue
        obj = b'' if w[2] == '-' else bytes.fromhex(w[2])
        ln = int(w[3])
        ops.append((w[0], w[1], obj, ln, int(w[4]) if w[0] == 'kput' else None, c_key(w[1], obj, ln)))
    return ops

# ------------------------------------------------------------------------------------------------ (b) through the compiler

def ident_families(rng, thorough):
    fams = {}
    chain = 'out_err_code_2x'
    fams['prefix'] = [chain[:i] for i in range(1, len(chain) + 1)] + ['x' * k for k in range(2, 9)]
    fams['onechar'] = list('abcdefghijklmnopqrtuvwxyzABCDEFGHIJKLMNOPQRSTUVWXYZ_')      # 's' is the checksum variable
    fams['long'] = ['L' * 255, 'L' * 254 + 'M', 'M' + 'L' * 254, 'L' * 256, 'L' * 254, 'L' * 1000, 'L' * 999 + 'K']
    fams['utf8'] = ['é', 'éé', 'è', 'e', 'naïve', 'naive', '日本', '日本語', '日', 'αβ', 'α', 'β', 'ж', 'жж', 'x日', '日x']
    fams['near-keywords'] = ['in', 'inte', 'int_', 'Int', 'retur', 'returns', 'type', 'typedefs', '_Atomi', 'whil', 'whiles',
                             'iff', 'i', 'f', 'fo', 'fore', 'd', 'doo', 'els', 'elses', 'cas', 'cases', 'sizeo', 'sizeofs',
                             'struc', 'structs', 'unio', 'unions', 'enu', 'enums', 'voi', 'voids', 'lon', 'longs', 'cha', 'chars']
    n = 4 if thorough else 1
    alphabet = 'ab_'
    for j in range(n):
        k = rng.randrange(10, 60)
        names = set()
        while len(names) < k:
            names.add('q' + ''.join(rng.choice(alphabet) for _ in range(rng.randrange(0, 6))))
        fams[f'dense{j}'] = sorted(names)
    return fams

def step(s, v):
    return (s * 31 + v) & MASK64

def prog_scopes(names, rng):
    """tags, typedef names, block-scope variables with shadowing, labels - all drawn from one identifier family.
    Returns (source, expected stdout)."""
    names = list(names)
    rng.shuffle(names)
    L = ['int printf(const char *, ...);']
    for i, n in enumerate(names):
        L.append(f'struct {n} {{ char c[{i + 3}]; }};')
    for i, n in enumerate(names):
        L.append(f'typedef char {n}[{2 * i + 5}];')
    L += ['int main(void) {', '  unsigned long s = 0;']
    s = 0
    for i, n in enumerate(names):
        L.append(f'  s = s * 31 + sizeof({n}) * 1000 + sizeof(struct {n});')
        s = step(s, (2 * i + 5) * 1000 + (i + 3))
    outer = {n: rng.randrange(1, 10 ** 6) for n in names}
    L.append('  {')
    for n in names:
        L.append(f'    int {n} = {outer[n]};')
    for n in names:
        L.append(f'    s = s * 31 + {n};'); s = step(s, outer[n])
    sub = [n for n in names if rng.random() < 0.5]
    inner = {n: rng.randrange(1, 10 ** 6) for n in sub}
    L.append('    {')
    for n in sub:
        L.append(f'      long {n} = {inner[n]};')
    for n in names:
        L.append(f'      s = s * 31 + {n};'); s = step(s, inner.get(n, outer[n]))
    # a tag redeclared in the inner scope hides the outer one of the same name only
    if names:
        t = names[0]
        L.append(f'      struct {t} {{ char c[777]; }};')
        for n in names[:6]:
            L.append(f'      s = s * 31 + sizeof(struct {n});'); s = step(s, 777 if n == t else names.index(n) + 3)
    L.append('    }')
    for n in names:
        L.append(f'    s = s * 31 + {n} + sizeof(struct {n});'); s = step(s, outer[n] + names.index(n) + 3)
    L.append('  }')
    for i, n in enumerate(names):
        L.append(f'  s = s * 31 + sizeof({n});'); s = step(s, 2 * i + 5)
    perm = list(names)
    rng.shuffle(perm)
    nxt = {perm[j]: (perm[j + 1] if j + 1 < len(perm) else 'zz_done_label_') for j in range(len(perm))}
    if perm:
        L.append(f'  goto {perm[0]};')
    for j, n in enumerate(names):
        L.append(f'  {n}: s = s * 31 + {j + 7}; goto {nxt[n]};')
    for n in perm:
        s = step(s, names.index(n) + 7)
    L += ['  zz_done_label_: printf("%lu\\n", s);', '  return 0;', '}']
    return '\n'.join(L) + '\n', f'{s}\n'

def prog_macros(names, rng, nsteps):
    names = list(names)
    L = ['int printf(const char *, ...);', 'int main(void) {', '  unsigned long s = 0;']
    d, s = {}, 0
    def probe(n):
        nonlocal s
        L.extend([f'#ifdef {n}', f'  s = s * 31 + {n};', '#else', '  s = s * 31 + 1;', '#endif'])
        s = step(s, d.get(n, 1))
    for _ in range(nsteps):
        n = rng.choice(names)
        x = rng.random()
        if x < 0.4:
            v = rng.randrange(2, 10 ** 6)
            if n in d and rng.random() < 0.6:    # otherwise a redefinition (gcc: warning only; the last definition wins)
                L.append(f'#undef {n}')
            L.append(f'#define {n} {v}'); d[n] = v
        elif x < 0.65:
            L.append(f'#undef {n}'); d.pop(n, None)
        else:
            probe(n)
    for n in names:
        probe(n)
    for n in names:
        L.append(f'#undef {n}')
    L += ['  while (0) { int if_ = sizeof(int); (void)if_; }', '  printf("%lu\\n", s);', '  return 0;', '}']
    return '\n'.join(L) + '\n', f'{s}\n'

def prog_churn(rng, ncycles):
    """more than 1000 distinct names defined, used and undefined one after the other around a small live set"""
    L = ['int printf(const char *, ...);', 'int main(void) {', '  unsigned long s = 0;',
         '#define KEEP_A 11', '#define KEEP_B 13']
    s = 0
    d = {'KEEP_A': 11, 'KEEP_B': 13}
    for i in range(ncycles):
        n = f'CH{i}' if i % 3 else f'CH{i}_' + 'x' * (i % 7)
        v = i + 2
        L += [f'#define {n} {v}', f'  s = s * 31 + {n} + KEEP_A;', f'#undef {n}']
        s = step(s, v + d['KEEP_A'])
        if i % 97 == 0:
            nv = rng.randrange(2, 1000)
            L += ['#undef KEEP_A', f'#define KEEP_A {nv}']; d['KEEP_A'] = nv
        if i % 53 == 0:
            j = rng.randrange(0, i + 1)
            old = f'CH{j}' if j % 3 else f'CH{j}_' + 'x' * (j % 7)
            L += [f'#ifdef {old}', '  s = s * 31 + 1000003;', '#else', '  s = s * 31 + KEEP_B;', '#endif']
            s = step(s, d['KEEP_B'])
    L += ['  printf("%lu\\n", s);', '  return 0;', '}']
    return '\n'.join(L) + '\n', f'{s}\n'

def prog_blocks(rng, ndecl, nsib, depth):
    """more than 10000 declarations in one block scope, sibling blocks, nested shadowing"""
    L = ['int printf(const char *, ...);', 'int v7 = 1000001; int v70 = 1000002; int t = 1000003;', 'int main(void) {',
         '  unsigned long s = 0;', '  {']
    s = 0
    for i in range(ndecl):
        L.append(f'    int v{i} = {i ^ 0x55};')
    for i in range(ndecl):
        if i % 7 == 0 or i < 200:
            L.append(f'    s = s * 31 + v{i};'); s = step(s, i ^ 0x55)
    L.append('  }')
    L.append('  s = s * 31 + v7 + v70;'); s = step(s, 2000003)
    for i in range(nsib):
        L.append(f'  {{ int t = {i}; int u{i} = t + 1; s = s * 31 + u{i}; }}'); s = step(s, i + 1)
    L.append('  s = s * 31 + t;'); s = step(s, 1000003)
    for dpt in range(depth):
        L.append('  ' + '{ int d = %d; ' % (dpt + 1))
    L.append('  s = s * 31 + d;'); s = step(s, depth)
    for dpt in range(depth, 0, -1):
        L.append('  s = s * 31 + d; }'); s = step(s, dpt)
    L += ['  printf("%lu\\n", s);', '  return 0;', '}']
    return '\n'.join(L) + '\n', f'{s}\n'

def invalid_programs(names):
    """programs in which a name is used after its last operation removed it: both compilers must reject"""
    out = []
    a, b = names[0], names[1]          # a is a proper prefix of b in the prefix family
    out.append(('scope-exit', f'int main(void) {{ {{ int {b} = 1; (void){b}; }} return {b}; }}\n'))
    out.append(('scope-exit-prefix', f'int main(void) {{ {{ int {b} = 1; (void){b}; }} {{ int {a} = 2; return {b}; }} }}\n'))
    out.append(('scope-prefix-longer', f'int main(void) {{ int {a} = 1; return {b} + {a}; }}\n'))
    out.append(('scope-prefix-shorter', f'int main(void) {{ int {b} = 1; return {a} + {b}; }}\n'))
    out.append(('undef', f'#define {b} 1\n#undef {b}\nint main(void) {{ return {b}; }}\n'))
    out.append(('undef-prefix', f'#define {a} 1\n#define {b} 2\n#undef {b}\nint main(void) {{ return {a} + {b}; }}\n'))
    out.append(('tag-scope-exit', f'void f(void) {{ struct {b} {{ int m; }} x; x.m = 1; }}\nint main(void) {{ struct {b} y; y.m = 1; return y.m; }}\n'))
    out.append(('tag-prefix', f'struct {a} {{ int m; }};\nint main(void) {{ struct {b} y; y.m = 1; return y.m; }}\n'))
    out.append(('typedef-scope-exit', f'int main(void) {{ {{ typedef int {b}; {b} q = 1; (void)q; }} {b} r = 2; return r; }}\n'))
    out.append(('typedef-prefix', f'typedef int {b};\nint main(void) {{ {a} r = 2; return r; }}\n'))
    return out

def compile_run(ctx, cc, src_path, exe, extra=()):
    rc, o, e = sh([cc] + list(extra) + ['-o', exe, src_path], timeout=300)
    if rc != 0 or not os.path.exists(exe):
        return ('reject', (e or o)[-300:])
    rc, o, e = sh([exe], timeout=60)
    return ('ran', rc, o)

def compiler_families(ctx, corr):
    rng = ctx.rng
    fams = ident_families(rng, ctx.thorough)
    progs = []     # (tag, source, expected stdout or None for must-reject)
    for fname, names in fams.items():
        src, exp = prog_scopes(names, rng)
        progs.append((f'scopes:{fname}', src, exp))
        src, exp = prog_macros(names, rng, 150 if not ctx.thorough else 600)
        progs.append((f'macros:{fname}', src, exp))
    src, exp = prog_macros(['while', 'return', 'sizeof', 'int', 'unsigned', 'long', 'if', 'typedef', 'struct', 'goto', 'while_', 'whil'], rng, 120)
    progs.append(('macros:keywords', src, exp))
    src, exp = prog_churn(rng, 1200 if not ctx.thorough else 9000)
    progs.append(('macro-churn', src, exp))
    src, exp = prog_blocks(rng, 10500 if not ctx.thorough else 70000, 3000 if not ctx.thorough else 20000, 120)
    progs.append(('block-decls', src, exp))
    for fname in ('prefix', 'utf8', 'long'):
        for tag, src in invalid_programs(fams[fname] if fname != 'utf8' else ['é', 'éé']):
            progs.append((f'invalid:{tag}:{fname}', src, None))
    if fams['long']:
        pass
    wd = os.path.join(ctx.scratch, 'c17prog')
    os.makedirs(wd, exist_ok=True)
    for k, (tag, src, exp) in enumerate(progs):
        path = os.path.join(wd, f'p{k}.c')
        with open(path, 'w', encoding='utf-8') as f:
            f.write(src)
        g = compile_run(ctx, 'gcc', path, os.path.join(wd, f'p{k}.gcc'), ['-std=gnu11', '-w', '-O0'])
        corr.evaluations += 1
        corr.count(tag.split(':')[0])
        if exp is None:
            if g[0] != 'reject':
                corr.count('skipped_oracle_disagrees')       # the reference accepts it: not a case
                continue
        elif g != ('ran', 0, exp):
            corr.count('skipped_oracle_disagrees')           # generator and gcc disagree: never blame chibicc for that
            ctx.notes.append(f'C17 compiler leg: gcc and the python oracle disagree on {tag}: {str(g)[:200]}')
            continue
        c = compile_run(ctx, ctx.cc, path, os.path.join(wd, f'p{k}.chibicc'))
        corr.nontrivial.add(hashlib.sha1(src.encode()).hexdigest())
        ok = (c[0] == 'reject') if exp is None else (c == ('ran', 0, exp))
        if not ok:
            corr.violations.append({'what': 'a name table of the compiler does not behave like a dictionary on this identifier family: '
                                            + ('a name is still visible after its scope ended / after #undef (gcc rejects, chibicc accepts)'
                                               if exp is None else
                                               'chibicc does not compile a program gcc accepts (a declared name is not found, or table '
                                               'maintenance aborted): ' + str(c[1])[-200:] if c[0] == 'reject' else
                                               'the compiled program prints a different checksum than gcc and the oracle'),
                                    'family': tag, 'program': src if len(src) < 60000 else src[:60000] + '\n/* truncated */\n',
                                    'expected': 'rejected' if exp is None else exp, 'got': str(c)[:400]})
            return False
        for ext in ('.gcc', '.chibicc'):
            try:
                os.unlink(os.path.join(wd, f'p{k}{ext}'))
            except OSError:
                pass
    corr.sample({'compiler-family': progs[0][0], 'source_head': progs[0][1].splitlines()[:6]})
    return True

def replay_program(ctx, corr, payload):
    wd = os.path.join(ctx.scratch, 'c17replay')
    os.makedirs(wd, exist_ok=True)
    path = os.path.join(wd, 'p.c')
    with open(path, 'w', encoding='utf-8') as f:
        f.write(payload['program'])
    g = compile_run(ctx, 'gcc', path, os.path.join(wd, 'p.gcc'), ['-std=gnu11', '-w', '-O0'])
    c = compile_run(ctx, ctx.cc, path, os.path.join(wd, 'p.chibicc'))
    corr.evaluations = 1
    same = (g[0] == 'reject' and c[0] == 'reject') or g == c
    print('replay:', 'gcc and chibicc agree' if same else f'gcc {str(g)[:120]} / chibicc {str(c)[:120]}')
    if not same:
        corr.violations.append(dict(payload, got=str(c)[:400]))
