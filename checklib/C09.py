"""C09 - macro expansion follows C11 6.10.3 and terminates (preprocess.c: hide sets, subst, expand_macro, preprocess2).

Four legs on every generated input (a small C file of #define lines and invocation text):
  tie      real `chibicc -E`  vs  Lean model `drv_c09 expand` (Model/PP.lean)   spellings, line structure, spacing, error kind
  hide     real preprocess2() in-process (tools/harness/pp_harness.c #includes the snapshot's preprocess.c, ASan/UBSan)
           vs  `drv_c09 expandh`: the HIDE SET of every output token, names in list order (what C09_terminates argues about)
  oracle   real `chibicc -E`  vs  `gcc -E -P` (independent 6.10.3 implementation) at token granularity
  spec     Lean `drv_c09 spec` (Spec/PPSpec.lean, 6.10.3 in the standard's phases)  vs  `gcc -E -P`
A chibicc/gcc mismatch is a VIOLATION when gcc and the Lean specification agree with each other (two independent
readings of the standard against chibicc).  There is no known finding left (C09-placemarker was repaired in /repo by
`fix:` 5a15c0f; a mismatch on a chain of `##` with empty operands is a VIOLATION like any other).
A fifth leg compares chibicc -E with the results PRINTED IN THE STANDARD for the examples of C11 6.10.3.5 (STD_EXAMPLES,
EXAMPLE 3, 4, 5, 7).
A sixth leg ties `subst` ALONE: pp_harness -subst calls the static function subst() of the snapshot's preprocess.c directly on one
invocation and prints the token list it returns before any rescanning (kind, spelling, at_bol, has_space); `drv_c09 subst` prints
the model's `subst` on the same definitions and invocation (the function C09_subst_spec is about), the model before `fix:` 5a15c0f
and the specification.
A chibicc run that does not finish in 5 s is a violation (non-termination).
Runs in which `#` produces something that is not a valid string literal (a `\` outside a literal in front of the closing
quote, `str(\)`) are undefined behaviour (6.10.3.2p2) and are counted as skipped_ub, not compared."""
import os, json, itertools, hashlib
from concurrent.futures import ThreadPoolExecutor
from .framework import *

PROPERTY = 'C09'
GEN_MODULES = ['pp']
LEAN_TARGETS = ['ChibiVerif.Props.C09', 'ChibiVerif.Findings.C09']
PROPS_FILES = ['ChibiVerif/Props/C09.lean']
NEEDS_HOOKS = False
TRUSTED_BASE = [
    'Lean 4.33.0 kernel; axioms admitted: propext, Classical.choice, Quot.sound (audited per theorem on every run)',
    'hand-written model lean/ChibiVerif/Model/PP.lean of preprocess.c (hide sets, read_macro_args, subst, expand_macro, preprocess2); '
    'tied on every run by differential execution against the real `chibicc -E` (token spellings, at_bol line structure, has_space, '
    'diagnostic kind), against the real static subst() called in-process on single invocations (every token it returns with kind and flags, '
    'before rescanning) and against the real preprocess2() run in-process (tools/harness/pp_harness.c #includes the snapshot\'s '
    'preprocess.c; ASan/UBSan): the hide set of every output token, names in list order, equals the model\'s on generated definition '
    'sets x invocations (hide sets of intermediate tokens are observed only through what they leave on the output tokens)',
    'translator tools/extract/pp.py (punctuator list, init_macros tables, __COUNTER__ start; pins the shape of subst/expand_macro/is_hash/'
    'hideset_*/join_tokens/paste/read_macro_arg_one/quote_string, the whole arm "parameter followed by ##" of subst with its '
    'placemarker loop, the whole copy loop of stringize and which token kinds it escapes, '
    'and fails loudly when they change)',
    'the specification lean/ChibiVerif/Spec/PPSpec.lean (my reading of C11 6.10.3-6.10.3.4, C2x __VA_OPT__, GNU `, ##`), validated against '
    'gcc 12 `-E -P` at token granularity on the same inputs',
    'the python tokenizer in checklib/C09.py (mirrors tokenize.c for ASCII; a mistake shows up as a tie disagreement)',
    'the small lexer Lex.lexOne inside Model/PP.lean used by paste (ASCII only)',
]
ASSUMPTIONS = [
    'inputs are ASCII; no backslash-newline, no #include/#if (C10), no directives inside macro arguments (undefined behaviour)',
    'the macro table is a dictionary (C17)',
    'where C11 6.10.3.4p4 leaves nested replacement unspecified, for the GNU `, ## __VA_ARGS__` pre-expansion question, and for '
    '__VA_OPT__ with a variable argument that expands to nothing (not C11; C2x drafts differ), chibicc and gcc are not compared',
    'when the result of `#` is not a valid string literal (possible only with a `\\` or `"` outside a literal in the argument; '
    'C11 6.10.3.2p2: undefined behaviour) the run is not compared: the C function re-tokenizes its buffer (diagnostic, or a '
    'shorter first token), the model returns the buffer; Props C09_stringize_wellformed proves the two agree everywhere else',
]
TIMEOUT = 5
FUEL = 200000

# ------------------------------------------------------------------------------------------------ tokenizer (tokenize.c, ASCII)

_PUNCT = None

def punct_kw(ctx=None):
    global _PUNCT
    if _PUNCT is None:
        base = ctx.lean_dir if ctx else LEAN_DIR
        txt = open(os.path.join(base, 'ChibiVerif/Gen/PPGen.lean')).read()
        m = re.search(r'def punctKw : List String := \[(.*?)\]\n', txt)
        _PUNCT = [json.loads(x) for x in re.findall(r'"(?:\\.|[^"\\])*"', m.group(1))]
    return _PUNCT

class LexErr(Exception):
    pass

def _is_ident1(c): return c.isascii() and (c.isalpha() or c in '_$')
def _is_ident2(c): return _is_ident1(c) or (c.isascii() and c.isdigit())
def _ispunct(c): return c.isascii() and 33 <= ord(c) <= 126 and not c.isalnum()

def _str_end(s, i):
    """i: index after the opening quote; returns index after the closing quote"""
    while True:
        if i >= len(s) or s[i] == '\n':
            raise LexErr('unclosed string literal')
        if s[i] == '"':
            return i + 1
        if s[i] == '\\':
            i += 1
        i += 1

def _chr_end(s, i):
    if i >= len(s):
        raise LexErr('unclosed char literal')
    if s[i] == '\\':
        i += 1
        if i < len(s) and s[i] in '01234567':
            n = 0
            while i < len(s) and s[i] in '01234567' and n < 3:
                i += 1; n += 1
        elif i < len(s) and s[i] == 'x':
            i += 1
            if i >= len(s) or s[i] not in '0123456789abcdefABCDEF':
                raise LexErr('invalid hex escape sequence')
            while i < len(s) and s[i] in '0123456789abcdefABCDEF':
                i += 1
        else:
            i += 1
    else:
        i += 1
    j = s.find("'", i)
    if j < 0:
        raise LexErr('unclosed char literal')
    return j + 1

def tokenize(s, ctx=None):
    """list of (kind, text, at_bol, has_space, line); kind in i n s p o"""
    kws = punct_kw(ctx)
    out = []
    i, bol, sp, line = 0, True, False, 1
    n = len(s)
    while i < n:
        c = s[i]
        if s.startswith('//', i):
            while i < n and s[i] != '\n':
                i += 1
            sp = True
            continue
        if s.startswith('/*', i):
            j = s.find('*/', i + 2)
            if j < 0:
                raise LexErr('unclosed block comment')
            line += s.count('\n', i, j)
            i = j + 2
            sp = True
            continue
        if c == '\n':
            i += 1; bol = True; sp = False; line += 1
            continue
        if c.isspace():
            i += 1; sp = True
            continue
        st = i
        if c.isdigit() or (c == '.' and i + 1 < n and s[i + 1].isdigit()):
            i += 1
            while i < n:
                if i + 1 < n and s[i] in 'eEpP' and s[i + 1] in '+-':
                    i += 2
                elif (s[i].isascii() and s[i].isalnum()) or s[i] == '.':
                    i += 1
                else:
                    break
            kind = 'n'
        elif c == '"':
            i = _str_end(s, i + 1); kind = 's'
        elif s.startswith('u8"', i):
            i = _str_end(s, i + 3); kind = 's'
        elif s.startswith(('u"', 'L"', 'U"'), i):
            i = _str_end(s, i + 2); kind = 's'
        elif c == "'":
            i = _chr_end(s, i + 1); kind = 'o'
        elif s.startswith(("u'", "L'", "U'"), i):
            i = _chr_end(s, i + 2); kind = 'o'
        elif _is_ident1(c):
            while i < n and _is_ident2(s[i]):
                i += 1
            kind = 'i'
        else:
            for k in kws:
                if s.startswith(k, i):
                    i += len(k)
                    break
            else:
                if not _ispunct(c):
                    raise LexErr('invalid token')
                i += 1
            kind = 'p'
        out.append((kind, s[st:i], bol, sp, line))
        bol = sp = False
    return out

def enc(toks):
    return ' '.join(f"{k}{int(b)}{int(s)}.{ln}.{t.encode().hex()}" for k, t, b, s, ln in toks)

def dec(words):
    """driver output tokens `<k><b><s>.<hex>` -> (kind, text, bol, space)"""
    out = []
    for w in words:
        f, hx = w.split('.')
        out.append((f[0], bytes.fromhex(hx).decode('latin-1'), f[1] == '1', f[2] == '1'))
    return out

def need_space(a, b):
    """main.c need_space(prev, tok)"""
    ops = "+-*/%&|^<>=!.:#"
    if not a or not b:
        return False
    x, y = a[-1], b[0]
    word = lambda ch: ch.isascii() and (ch.isalnum() or ch in '_$') or ord(ch) >= 128
    is_num = a[0].isdigit() or (a[0] == '.' and len(a) > 1 and a[1].isdigit())
    if word(x) and (word(y) or y in '"\''):
        return True
    if is_num and (y == '.' or (y.isascii() and y.isalnum()) or (y in '+-' and x in 'eEpP')):
        return True
    if x == '.' and y.isdigit():
        return True
    return x in ops and y in ops

# ------------------------------------------------------------------------------------------------ running the four parties

DIAG = [
    ('premature end of input', 'prematureEnd'),
    ("'#' is not followed by a macro parameter", 'hashNotParam'),
    ("'##' cannot appear at start of macro expansion", 'pasteAtStart'),
    ("'##' cannot appear at end of macro expansion", 'pasteAtEnd'),
    ('pasting forms', 'pasteInvalid'),
    ('unclosed block comment', 'lexError'), ('unclosed string literal', 'lexError'), ('unclosed char literal', 'lexError'),
    ('invalid token', 'lexError'), ('invalid hex escape', 'lexError'),
    ('macro name must be an identifier', 'macroNameNotIdent'),
    ('expected an identifier', 'expectedIdent'),
    ('invalid preprocessor directive', 'invalidDirective'),
]

def classify_stderr(e):
    m = re.search(r"\^ expected '(.*)'", e)
    if m:
        return 'expected' + m.group(1).encode().hex()
    for pat, name in DIAG:
        if pat in e:
            return name
    if re.search(r'\^ error\s*$', e.strip()):
        return 'errorDirective'
    return 'diag:' + (e.strip().splitlines()[-1][:60] if e.strip() else '')

_PRLIMIT = shutil.which('prlimit')

def run_chibicc(ctx, d):
    # address-space cap: a runaway expansion must not take the machine down before the wall-clock limit fires
    cmd = ([_PRLIMIT, '--as=3221225472'] if _PRLIMIT else []) + [ctx.cc, '-E', 't.c']
    rc, o, e = sh(cmd, cwd=d, timeout=TIMEOUT)
    if rc == -9:
        return ('hang',)
    if rc != 0:
        if not e.strip():
            return ('crash',)
        return ('err', classify_stderr(e))
    try:
        return ('ok', [(k, t, b, s) for k, t, b, s, _ in tokenize(o, ctx)])
    except LexErr as x:
        return ('unlexable-output', str(x), o[:200])

def build_harness(ctx):
    """tools/harness/pp_harness.c against the snapshot's sources (static functions and struct Hideset reachable)"""
    exe = os.path.join(ctx.scratch, 'pp_harness')
    if os.path.exists(exe):
        return exe
    amalgam = ''
    for f in ('unicode.c', 'tokenize.c', 'type.c', 'hashmap.c', 'strings.c', 'preprocess.c'):
        t = open(os.path.join(ctx.snapshot, f), encoding='utf-8', errors='surrogateescape').read()
        t = re.sub(r'^\s*#\s*include\s+"chibicc.h"\s*$', '', t, flags=re.M)
        amalgam += f'#line 1 "{f}"\n{t}\n'
    with open(os.path.join(ctx.scratch, 'pp_amalgam.c'), 'w', encoding='utf-8', errors='surrogateescape') as f:
        f.write(amalgam)
    rc, o, e = sh(['gcc', '-O1', '-g', '-w', '-fsanitize=address,undefined', '-fno-sanitize-recover=all',
                   '-I', ctx.snapshot, '-I', ctx.scratch, os.path.join(VERIF, 'tools/harness/pp_harness.c'), '-o', exe], timeout=600)
    if rc != 0:
        raise BuildFailure('pp harness does not compile against the snapshot: ' + e[-1500:])
    return exe

def run_harness_part(exe, part):
    env = dict(os.environ, ASAN_OPTIONS='detect_leaks=0:exitcode=99:allocator_may_return_null=1', UBSAN_OPTIONS='exitcode=99')
    rc, o, e = sh([exe] + part, timeout=60 + 6 * len(part), env=env)
    lines = o.splitlines()
    lines += ['crash harness-rc=%s' % rc] * (len(part) - len(lines))
    return [parse_hide(l) for l in lines[:len(part)]]

def start_harness(ctx, ex, dirs):
    """futures of the harness runs: one result per directory, ('ok', [(spelling, [names])]) | ('err',) | ('hang',) |
    ('crash', status); the directories are handed to several harness processes (each forks one child per directory)"""
    if not dirs:
        return []
    exe = build_harness(ctx)
    parts = [dirs[i:i + 24] for i in range(0, len(dirs), 24)]
    return [ex.submit(run_harness_part, exe, p) for p in parts]

def parse_hide(line):
    w = line.split(' ')
    if w[0] == 'ok':
        toks = []
        for x in w[1:]:
            if not x:
                continue
            hx, _, hs = x.partition('@')
            toks.append((bytes.fromhex(hx).decode('latin-1'), [n for n in hs.split(',') if n]))
        return ('ok', toks)
    if w[0] == 'err':
        return ('err', w[1] if len(w) > 1 else '')
    if w[0] == 'hang':
        return ('hang',)
    return ('crash', ' '.join(w[1:]))

def run_gcc(ctx, d):
    rc, o, e = sh(['gcc', '-E', '-P', '-undef', 't.c'], cwd=d, timeout=30)
    if rc != 0:
        return ('err', e.strip().splitlines()[0][:120] if e.strip() else '')
    try:
        return ('ok', [t for _, t, _, _, _ in tokenize(o, ctx)], 'warning' in e)
    except LexErr as x:
        return ('unlexable-output', str(x))

def parse_driver(line):
    w = line.split()
    if not w:
        return ('bad',)
    if w[0].startswith('ok'):
        # model: ok[:p][b] (ghost flags: some expansion had `p ## q ##` with both arguments empty, i.e. needed a placemarker chain /
        # a stringized argument with `\\` or `"` outside a literal); spec: ok | okx (crossed)
        return ('ok', dec(w[1:]), w[0][2:])
    if w[0] == 'err':
        return ('err', w[1])
    return ('bad', line[:80])

def run_all(ctx, texts):
    """returns list of dict(text, toks, C, M, G, S)"""
    base = os.path.join(ctx.scratch, 'c09')
    os.makedirs(base, exist_ok=True)
    start = getattr(ctx, '_c09_n', 0)
    cases = []
    for j, text in enumerate(texts):
        d = os.path.join(base, str(start + j))
        os.makedirs(d, exist_ok=True)
        with open(os.path.join(d, 't.c'), 'w') as f:
            f.write(text)
        try:
            toks = tokenize(text, ctx)
        except LexErr:
            toks = None
        cases.append({'text': text, 'dir': d, 'toks': toks})
    ctx._c09_n = start + len(texts)
    live = [c for c in cases if c['toks'] is not None]
    with ThreadPoolExecutor(max_workers=max(2, NPROC)) as ex:
        hfuts = start_harness(ctx, ex, [c['dir'] for c in live])
        cs = list(ex.map(lambda c: run_chibicc(ctx, c['dir']), cases))
        gs = list(ex.map(lambda c: run_gcc(ctx, c['dir']), cases))
        hs = [r for f in hfuts for r in f.result()]
    inp = ''.join(f"{FUEL} {enc(c['toks'])}\n" for c in live)
    mo = ctx.driver('expand', inp).splitlines() if live else []
    so = ctx.driver('spec', inp).splitlines() if live else []
    ho = ctx.driver('expandh', inp).splitlines() if live else []
    k = 0
    for c, C, G in zip(cases, cs, gs):
        c['C'], c['G'] = C, G
        if c['toks'] is None:
            c['M'] = c['S'] = c['MH'] = c['H'] = ('unlexable-input',)
        else:
            c['M'] = parse_driver(mo[k]) if k < len(mo) else ('bad', 'missing')
            c['S'] = parse_driver(so[k]) if k < len(so) else ('bad', 'missing')
            c['MH'] = parse_hide(ho[k]) if k < len(ho) else ('crash', 'missing')
            c['H'] = hs[k] if k < len(hs) else ('crash', 'missing')
            k += 1
        shutil.rmtree(c['dir'], ignore_errors=True)
    return cases

# ------------------------------------------------------------------------------------------------ judging one case

def tie_problem(c):
    """None, or a description of how model and chibicc differ"""
    C, M = c['C'], c['M']
    if C[0] == 'hang':
        return None            # judged as a violation elsewhere
    if M[0] == 'bad' or M[0] == 'unlexable-input':
        return f'model driver could not process the case: {M}'
    if M[0] == 'err' and M[1] == 'unsupportedDirective':
        return None
    if C[0] == 'crash':
        return f'chibicc crashed (no diagnostic, non-zero exit), model says {M[:2]}'
    if C[0] == 'err':
        if M[0] != 'err':
            return f'chibicc reports {C[1]}, model expands without error'
        if C[1].startswith('diag:'):
            return f'chibicc diagnostic not known to the tie: {C[1]} (model {M[1]})'
        return None if C[1] == M[1] else f'chibicc reports {C[1]}, model {M[1]}'
    if C[0] != 'ok':
        return f'chibicc output cannot be tokenized: {C}'
    if M[0] != 'ok':
        return f'model reports {M[1]}, chibicc expands without error'
    ct, mt = C[1], M[1]
    if [t[1] for t in ct] != [t[1] for t in mt]:
        return 'token spellings differ: chibicc ' + ' '.join(t[1] for t in ct)[:300] + ' | model ' + ' '.join(t[1] for t in mt)[:300]
    prev = None
    for i, (a, b) in enumerate(zip(ct, mt)):
        if i > 0 and a[2] != b[2]:
            return f'line structure differs at token {i} ({a[1]}): chibicc at_bol={a[2]} model at_bol={b[2]}'
        if i > 0 and not a[2]:
            want = b[3] or need_space(prev, b[1])
            if a[3] != want:
                return f'spacing differs at token {i} ({a[1]}): chibicc prints space={a[3]}, model has_space={b[3]}'
        prev = b[1]
    return None

def hide_problem(c):
    """None, or how the hide sets of the model's output tokens differ from those of the real preprocess2 (in-process harness)"""
    H, MH, M = c.get('H'), c.get('MH'), c['M']
    if H is None or MH is None or H[0] == 'unlexable-input':
        return None
    if M[0] == 'err' and M[1] == 'unsupportedDirective':
        return None
    if H[0] == 'hang':
        return None            # chibicc -E hangs as well: judged as a violation by the oracle leg
    if H[0] == 'crash':
        return None            # counted in process(): a sanitizer report or a harness limit, not a statement about hide sets
    if H[0] == 'err' or MH[0] == 'err':
        if H[0] == MH[0]:
            return None
        return f'in-process preprocess2: {H[0]}, model (expandh): {MH[0]} {MH[1] if MH[0] == "err" else ""}'
    if MH[0] != 'ok':
        return f'model driver (expandh) could not process the case: {MH}'
    if [t[0] for t in H[1]] != [t[0] for t in MH[1]]:
        return ('spellings differ (in-process harness vs model): ' + ' '.join(t[0] for t in H[1])[:200] + ' | ' + ' '.join(t[0] for t in MH[1])[:200])
    for i, (a, b) in enumerate(zip(H[1], MH[1])):
        if a[1] != b[1]:
            return f'hide set of output token {i} ({a[0]}): preprocess.c has [{",".join(a[1])}], the model [{",".join(b[1])}]'
    return None

def tie_all(c):
    if strz_ub(c):
        # undefined behaviour: only "no crash" is asked of the real code (hangs are judged by the oracle leg)
        return 'chibicc crashed (no diagnostic, non-zero exit) on an invocation whose `#` result is not a valid string literal' if c['C'][0] == 'crash' else None
    return tie_problem(c) or hide_problem(c)

def flat(res):
    return [t[1] for t in res[1]] if res[0] == 'ok' else None

def str_lit_closed(t):
    """the spelling is one string literal for string_literal_end: closed by an unescaped `"` at its very end"""
    m = re.match(r'(u8|u|U|L)?"', t)
    if not m:
        return False
    try:
        return _str_end(t, m.end()) == len(t)
    except LexErr:
        return False

def str_lit_valid(t):
    """... and every `\\x` is followed by a hexadecimal digit (read_escaped_char; every other escape is accepted)"""
    if not str_lit_closed(t):
        return False
    m = re.match(r'(u8|u|U|L)?"', t)
    e = len(t)
    body, j = t[m.end():e - 1], 0
    while j < len(body):
        if body[j] == '\\':
            if j + 1 < len(body) and body[j + 1] == 'x' and not (j + 2 < len(body) and body[j + 2] in '0123456789abcdefABCDEF'):
                return False
            j += 2
        else:
            j += 1
    return True

def strz_ub(c):
    """C11 6.10.3.2p2: "If the replacement that results is not a valid character string literal, the behavior is undefined."
    True when the model stringized an argument with a `\\`/`"` outside a literal (ghost flag `b`; by C09_stringize_wellformed
    nothing else can give an invalid literal) and the model or the specification shows a string token that is not a valid
    literal.  The C code re-tokenizes the buffer then (diagnostic, or only its first token); the model does not."""
    M, S = c['M'], c['S']
    if not (M[0] == 'ok' and 'b' in M[2]):
        return False
    if any(k == 's' and not str_lit_valid(t) for k, t, _, _ in M[1]):
        return True
    return S[0] == 'ok' and any(k == 's' and not str_lit_valid(t) for k, t, _, _ in S[1])

def oracle_verdict(c):
    """'agree' | 'both-reject' | ('violation', what) | ('inconclusive', why) | ('skipped_…', why)"""
    C, G, S, M = c['C'], c['G'], c['S'], c['M']
    if C[0] == 'hang':
        return ('violation', f'chibicc -E did not finish within {TIMEOUT} s (macro expansion must terminate)')
    if strz_ub(c):
        return ('skipped_ub', 'the result of # is not a valid string literal (6.10.3.2p2)')
    if G[0] == 'unlexable-output' or C[0] == 'unlexable-output':
        return ('inconclusive', 'output not tokenizable')
    cf = flat(C)
    gf = G[1] if G[0] == 'ok' else None
    if cf is not None and gf is not None and cf == gf:
        return 'agree'
    if cf is None and gf is None:
        return 'both-reject'
    # undefined behaviour: a ## whose result is not a valid preprocessing token (6.10.3.3p3), judged by the oracle side
    if (S[0] == 'err' and S[1] in ('pasteInvalid', 'lexError')) or (G[0] == 'err' and 'valid preprocessing token' in G[1]):
        return ('skipped_ub', 'a ## does not give a valid preprocessing token')
    if gf is None:
        return ('inconclusive', 'gcc rejects the input, chibicc accepts it (constraint violation diagnosed late or not at all: not C09): ' + G[1])
    what = (f"chibicc: {' '.join(cf)[:300] if cf is not None else C[:2]} | gcc -E -P: {' '.join(gf)[:300] if gf is not None else G[:2]}")
    if re.search(r',\s*##', c['text']):
        return ('inconclusive', 'GNU `, ## __VA_ARGS__` has no C11 text (gcc keeps the comma for an empty-but-present variable argument and does not pre-expand)')
    sf = flat(S)
    spec_agrees_gcc = (sf is not None and gf is not None and sf == gf) or (sf is None and gf is None and S[0] == 'err')
    if S[0] == 'ok' and 'v' in S[2]:
        return ('skipped_latitude_va_opt', '__VA_OPT__ with a variable argument that has tokens which all vanish under macro replacement: '
                'not C11, and the C2x drafts changed this point (chibicc tests the unexpanded argument, gcc 12/clang 14 the expanded one)')
    if S[0] == 'ok' and 'x' in S[2]:
        return ('inconclusive', 'C11 6.10.3.4p4: an invocation takes its arguments from beyond the replacement list it starts in (unspecified)')
    if not spec_agrees_gcc:
        return ('inconclusive', 'gcc and the Lean specification disagree with each other: ' + what + f" | spec: {' '.join(sf)[:200] if sf is not None else S[:2]}")
    return ('violation', what)

def spec_vs_gcc(c):
    G, S = c['G'], c['S']
    if strz_ub(c):
        return None
    if S[0] == 'ok' and ('x' in S[2] or 'v' in S[2]):
        return None
    if re.search(r',\s*##', c['text']):
        return None
    if G[0] == 'ok' and S[0] == 'ok':
        return None if G[1] == flat(S) else ('spec ' + ' '.join(flat(S))[:200] + ' | gcc ' + ' '.join(G[1])[:200])
    return None        # one of them rejects: invalid or undefined input, not a statement about 6.10.3 on valid programs

# ------------------------------------------------------------------------------------------------ generators

A_ID = ['a', 'b', 'c']
A_NUM = ['1', '2', '0x1f']
A_STR = ['"s"', '"x y"', '"q\\"r"', "'c'", '"b\\\\n"']
# brackets and braces do NOT nest macro arguments (C11 6.10.3p11: only parentheses do): commas between them split arguments
A_PUN = ['+', ',', '(', ')', '-', '*', '[', ']', '{', '}', ',', '{', '}']

def render(lines):
    """lines: list of lists of (text, space_before)"""
    out = []
    for ln in lines:
        s = ''
        prev = None
        for t, sp in ln:
            if prev is not None and (sp or glue(prev, t)):
                s += ' '
            elif prev is None and sp:
                s += ' '
            s += t
            prev = t
        out.append(s)
    return '\n'.join(out) + '\n'

_glue_cache = {}
def glue(a, b):
    """printing b right after a would not read back as the two tokens"""
    k = (a, b)
    if k not in _glue_cache:
        try:
            # the printer rule of main.c is the conservative side (C11 pp-numbers also continue over `_`)
            _glue_cache[k] = need_space(a, b) or [t[1] for t in tokenize(a + b)] != [a, b]
        except LexErr:
            _glue_cache[k] = True
    return _glue_cache[k]

def rand_arg(rng, names, depth=0, allow_comma=False):
    n = rng.choice([0, 1, 1, 2, 3])
    out = []
    for _ in range(n):
        x = rng.random()
        if x < 0.25:
            out.append(rng.choice(A_ID))
        elif x < 0.4:
            out.append(rng.choice(A_NUM))
        elif x < 0.5:
            out.append(rng.choice(A_STR))
        elif x < 0.62:
            out.append(rng.choice(['+', '-', '*']))
        elif x < 0.7 and depth < 2:
            out += ['('] + rand_arg(rng, names, depth + 1, True) + [')']
        elif x < 0.75 and allow_comma:
            out.append(',')
        elif names:
            nm, kind, np, va = rng.choice(names)
            out.append(nm)
            if kind == 'fn' and depth < 2 and rng.random() < 0.8:
                out += call_args(rng, names, np, va, depth + 1)
    return out

def call_args(rng, names, np, va, depth):
    k = np
    if va:
        k += rng.choice([0, 0, 1, 1, 2, 3]) if np > 0 else rng.choice([0, 1, 2, 3])
    if rng.random() < 0.06:
        k = max(0, k + rng.choice([-1, 1]))          # wrong number of arguments (a diagnostic in both)
    out = ['(']
    for i in range(k):
        if i:
            out.append(',')
        out += rand_arg(rng, names, depth, False)
    out.append(')')
    return out

def rand_body(rng, me, kind, params, va, names, allow_hash, allow_gnu):
    """replacement list as a list of spellings"""
    n = rng.choice([0, 1, 2, 3, 4, 5, 6])
    out = []
    pnames = params + (['__VA_ARGS__'] if va else [])
    def operand():
        x = rng.random()
        if pnames and x < 0.6:
            return rng.choice(pnames)
        if x < 0.75:
            return rng.choice(A_ID)
        if x < 0.85:
            return rng.choice(A_NUM)
        return rng.choice([m[0] for m in names] or A_ID)
    for _ in range(n):
        x = rng.random()
        if kind == 'fn' and pnames and x < 0.3:
            out.append(rng.choice(pnames))
        elif kind == 'fn' and pnames and allow_hash and x < 0.38:
            out += ['#', rng.choice(pnames)]
        elif x < 0.5 and (kind == 'fn' or rng.random() < 0.5):
            out += [operand(), '##', operand()]
            while rng.random() < 0.3:
                out += ['##', operand()]
        elif va and x < 0.55:
            inner = rand_body(rng, me, kind, params, va, names, allow_hash, False)[:3]
            if inner and inner[-1] == '#':
                inner.pop()
            if inner.count('(') != inner.count(')') or (')' in inner and inner.index(')') < (inner.index('(') if '(' in inner else 99)):
                inner = [t for t in inner if t not in '()']
            if inner and inner[0] != '##' and inner[-1] != '##' and '__VA_OPT__' not in inner:
                if out and out[-1] == '##':
                    out.append(rng.choice(A_ID))
                out += ['__VA_OPT__', '('] + inner + [')']
                out.append(rng.choice(A_ID + ['+']))
        elif va and allow_gnu and x < 0.6:
            out += [rng.choice(A_ID), ',', '##', '__VA_ARGS__']
        elif x < 0.72:
            out.append(rng.choice([m[0] for m in names] + [me]))
        elif x < 0.8:
            out.append(rng.choice(A_ID))
        elif x < 0.86:
            out.append(rng.choice(A_NUM + A_STR))
        elif x < 0.93:
            out.append(rng.choice(['+', ',', '-']))
        else:
            out += ['(', rng.choice(A_ID), ')'] if rng.random() < 0.7 else [rng.choice(['(', ')'])]
    return out

def gen_random_case(rng):
    nm = rng.choice([1, 2, 2, 3, 3, 4])
    pool = ['F', 'G', 'H', 'K', 'A', 'B', 'M', 'N']
    rng.shuffle(pool)
    allow_gnu = rng.random() < 0.15
    allow_hash = not allow_gnu
    names = []
    for nme in pool[:nm]:
        if rng.random() < 0.6:
            np = rng.choice([0, 1, 1, 2, 2, 3])
            va = rng.random() < 0.3
            names.append((nme, 'fn', np, va))
        else:
            names.append((nme, 'obj', 0, False))
    lines = []
    for nme, kind, np, va in names:
        params = ['x', 'y', 'z'][:np]
        body = rand_body(rng, nme, kind, params, va, names, allow_hash, allow_gnu)
        if kind == 'fn':
            head = [('#', False), ('define', False), (nme, True), ('(', False)]
            for i, p in enumerate(params):
                if i:
                    head.append((',', False))
                head.append((p, rng.random() < 0.3))
            if va:
                if params:
                    head.append((',', False))
                head.append(('...', rng.random() < 0.3))
            head.append((')', False))
        else:
            head = [('#', False), ('define', False), (nme, True)]
        first = True
        toks = []
        for t in body:
            sp = True if first and (kind == 'obj' and t == '(') else (first or rng.random() < 0.7)
            toks.append((t, sp))
            first = False
        lines.append(head + toks)
    # invocation text, possibly spanning lines
    text = []
    for _ in range(rng.choice([1, 2, 3])):
        text += rand_arg(rng, names, 0, True) if rng.random() < 0.5 else []
        nme, kind, np, va = rng.choice(names)
        text.append(nme)
        if kind == 'fn' and rng.random() < 0.9:
            text += call_args(rng, names, np, va, 0)
            if rng.random() < 0.2:
                text += call_args(rng, names, rng.choice([0, 1, 2]), False, 1)       # f(1)(2)
    if not text:
        text = ['a']
    cur = []
    tl = []
    for t in text:
        if cur and rng.random() < 0.12 and t != '#':
            tl.append(cur); cur = []
        cur.append((t, rng.random() < 0.5))
    tl.append(cur)
    return render(lines + tl)

OPERANDS = [('', 'empty'), ('a', 'one'), ('a b', 'two'), ('M', 'macro'), ('1', 'num'), ('"s"', 'str'), ('( a , b )', 'paren')]

def gen_operand_grid(thorough):
    """every combination of empty/non-empty operands around # and ##"""
    out = []
    ops = OPERANDS if thorough else OPERANDS[:5]
    bodies2 = ['x ## y', 'x##y', 'a x ## y b', 'x ## y x y', '#x #y', 'x #y', '#x y', 'x ## 1', '1 ## x', 'x ## y ## 1',
               '[x] ## [y]', 'x y', '<x##y>', 'x ## M', 'M ## x']
    for body in bodies2:
        for (a, _), (b, _) in itertools.product(ops, ops):
            out.append(f'#define M 9 8\n#define f(x,y) {body}\n[ f({a},{b}) ]\n')
    bodies3 = ['x ## y ## z', 'a x ## y ## z b', 'x ## y z', 'x y ## z', '#x ## y z', 'x ## y #z', 'x ## 1 ## z', 'a ## x ## y ## z']
    ops3 = [o for o in ops if o[1] in ('empty', 'one', 'two', 'num')]
    for body in bodies3:
        if '#x ##' in body:
            continue        # order of evaluation of # and ## is unspecified (6.10.3.2p2)
        for a, b, c in itertools.product(ops3, ops3, ops3):
            out.append(f'#define f(x,y,z) {body}\n[ f({a[0]},{b[0]},{c[0]}) ]\n')
    # variadics: 0/1/n variable arguments, __VA_OPT__, GNU comma
    vbodies = ['<__VA_ARGS__>', '<x|__VA_ARGS__>', '#__VA_ARGS__', 'x ## __VA_ARGS__', '__VA_ARGS__ ## x',
               'g(x __VA_OPT__(,) __VA_ARGS__)', '__VA_OPT__(x x) |', 'a __VA_OPT__(#x x ## x) b', 'g(x , ## __VA_ARGS__)',
               '__VA_OPT__(a , b)', 'x __VA_OPT__() y']
    # braces and brackets do NOT nest macro arguments (C11 6.10.3p11: only parentheses do): a comma between them separates arguments
    vargs = ['', '1', '1,', '1,2', '1,2,3', '1,,3', ',', '1,(2,3)', 'M', '1,M', '1, f(2) ,3', '(1,2)',
             '{1,2}', '1,{2,3}', '[1,2],3', '},{', '{', '{(1,2),3}', '{1,2},{3,4}']
    for body in vbodies:
        for a in vargs:
            out.append(f'#define M 9 8\n#define f(x, ...) {body}\n[ f({a}) ]\n')
    for body in ['<__VA_ARGS__>', '#__VA_ARGS__', '__VA_OPT__(a) b', 'g(0 , ## __VA_ARGS__)']:
        for a in ['', '1', '1,2', ',', '(,),', '{1,2}', '},{']:
            out.append(f'#define f(...) {body}\n[ f({a}) ]\n')
    return out

CHAIN_SHAPES3 = ['x ## y ## z', 'a x ## y ## z b', 'x ## y ## z x y z', '#x x ## y ## z #z', 'x ## y ## z ## 1', '1 ## x ## y ## z',
                 'x ## 1 ## z', 'x y ## z', 'x ## y z', '( x ## y ## z )', 'x ## y ## z ## x ## y ## z', 'M ## x ## y ## z', 'x ## y ## z ## M']
CHAIN_SHAPES4 = ['x ## y ## z ## w', 'a x ## y ## z ## w b', 'x ## y ## z ## w x w', 'x ## y ## 1 ## w', 'x ## y z ## w', 'x ## y ## z w',
                 'a ## x ## y ## z ## w', 'x ## y ## z ## w ## b', '[ x ## y ] ## z ## w', '#x y ## z ## w #w', 'x ## y ## z ## w ## x']
CHAIN_VA = ['x ## y ## __VA_ARGS__', 'a x ## __VA_ARGS__ ## y b', '__VA_ARGS__ ## x ## y', 'x ## y ## __VA_ARGS__ ## x']

def gen_chain_grid(rng, thorough):
    """chains of 3 and 4 `##` operands (placemarkers, C11 6.10.3.3p2-3; the loop of `fix:` 5a15c0f): EVERY combination of empty /
    non-empty arguments (2^3 and 2^4, two different non-empty spellings; thorough: empty / one token / two tokens / a macro name,
    4^3 and 4^4) for chains alone, behind and in front of other tokens, with a parameter used again outside the chain, next to `#`,
    with literal operands inside the chain, two chains in one list, variadic operands; and the constraint violations
    (`##` last after a run of empty operands)"""
    out = []
    vals = ['', 'a', '1 2', 'M'] if thorough else None
    def combos(n):
        if thorough:
            return itertools.product(vals, repeat=n)
        r = []
        for bits in itertools.product([False, True], repeat=n):
            r.append(tuple((['a', '1', 'b', '2'][i] if b else '') for i, b in enumerate(bits)))
            r.append(tuple((['1 2', 'a b', 'M', 'c'][i] if b else '') for i, b in enumerate(bits)))
        return sorted(set(r))
    for body in CHAIN_SHAPES3:
        for a in combos(3):
            out.append(f'#define M 9 8\n#define f(x,y,z) {body}\n[ f({",".join(a)}) ]\n')
    for body in CHAIN_SHAPES4:
        for a in combos(4):
            out.append(f'#define M 9 8\n#define f(x,y,z,w) {body}\n[ f({",".join(a)}) ]\n')
    for body in CHAIN_VA:
        for a in combos(2):
            for v in ['', ',', ',1', ',1,2', ',,']:
                out.append(f'#define f(x,y,...) {body}\n[ f({",".join(a)}{v}) ]\n')
    # a chain whose operands become empty only through an outer macro (the inner invocation sees empty arguments)
    for a in itertools.product(['', '1'], repeat=3):
        out.append(f'#define t(x,y,z) x ## y ## z\n#define o(x,y,z) < t(x,y,z) | t(x,,z) | x ## y ## z >\n[ o({",".join(a)}) ]\n')
    # 5 and 6 operands, all empty but one
    for n in (5, 6):
        ps = ['p%d' % i for i in range(n)]
        for k in range(n + 1):
            args = ['' if i != k else '7' for i in range(n)]
            out.append(f'#define f({",".join(ps)}) a {" ## ".join(ps)} b\n[ f({",".join(args)}) ]\n')
    # `##` as the last token after empty operands: 6.10.3.3p1 (a diagnostic in chibicc and in the model; gcc rejects the definition)
    for body in ['x ## y ##', 'a x ## y ##', 'x ## y ## z ##', '## x ## y']:
        for a in itertools.product(['', '1'], repeat=3):
            out.append(f'#define f(x,y,z) {body}\n[ f({",".join(a)}) ]\n')
    return out

def gen_recursion_shapes(rng, thorough):
    """every mutual-recursion shape on <= 4 object-like macros (each body: a list of up to two macro names or `a`),
    and the function-like relatives"""
    out = []
    for k in (1, 2, 3, 4):
        names = ['T', 'U', 'V', 'W'][:k]
        choices = [('a',)] + [(n,) for n in names] + [(n, m) for n in names for m in names]
        total = len(choices) ** k
        if k <= 2 or (k == 3 and thorough):
            combos = itertools.product(choices, repeat=k)
        else:
            cnt = (6000 if k == 3 else 30000) if thorough else (250 if k == 3 else 400)
            combos = (tuple(rng.choice(choices) for _ in range(k)) for _ in range(cnt))
        for combo in combos:
            s = ''.join(f'#define {n} {" ".join(b)}\n' for n, b in zip(names, combo))
            out.append(s + ' '.join(names) + '\n')
    # function-like shapes: name reappears in its own expansion, `(` supplied by the surrounding text
    fl = [
        '#define f(x) x f\nf(1)(2)\n',
        '#define f(x) x f\nf(1) (2) (3)\n',
        '#define f(x) f(x)\nf(1)\n',
        '#define f(x) g(x)\n#define g(x) f(x)\nf(1) g(2)\n',
        '#define f(x) g x\n#define g(x) f x\nf(1)(2)(3)(4)\n',
        '#define f(x) x g\n#define g(x) x f\nf(1)(2)(3)(4)\n',
        '#define f(x) (x\n#define g f\ng(1))\n',
        '#define f(x) [x]\n#define g f\ng(1) g (2) g\n(3)\n',
        '#define f(x) [x]\n#define e(y) y(1)\ne(f)\n',
        '#define f(x) [x]\n#define e(y) y\ne(f)(1)\n',
        '#define f(x) [x]\n#define obj f(\nobj 1)\n',
        '#define f(x) [x]\n#define obj f\n#define lp (\nobj lp 1)\nobj (1)\n',
        '#define f(x) x(\n#define g(y) <y>\nf(g)1)\n',
        '#define f(x) g(x\n#define g(y) <y>\nf(1))\n',
        '#define f(x,y) x y\n#define g f(a,\ng b)\n',
        '#define AA BB\n#define BB AA\n#define f(x) x AA\nf(BB) f(AA) AA BB\n',
        '#define f(x) #x x\n#define T U\n#define U T\nf(T) f(U)\n',
        '#define cat(x,y) x ## y\n#define T cat(T,)\n#define TU 7\ncat(T,U) T cat(T,) cat(,T)\n',
        '#define foo foo a\n#define cat(x,y) x##y\ncat(fo,o) cat(f,oo) foo\n',
        '#define EMPTY\n#define f(x) [x]\nf EMPTY (1)\n',
        '#define EMPTY\n#define f(x) [x]\n#define g f EMPTY\ng(1)\n',
        '#define f(x) x\nf(f)(1) f(f(f))(2)\n',
        '#define f(x) g\n#define g(x) f\nf(1)(2)(3)(4)(5)\n',
        '#define obj (1)\n#define f(x) <x>\n#define h f\nh obj\nh (2)\n',
        '#define str(x) #x\n#define xstr(x) str(x)\n#define T U\n#define U T\nstr(T) xstr(T) xstr(U)\n',
    ]
    # the NAME of a function-like macro comes out of an object-like macro while its `(...)` stands in the source: the hide set of
    # the result is the intersection of the name's and the `)`'s hide sets (the latter empty here), so the outer macro is
    # expanded again inside the body (6.10.3.4p2 only forbids the nested replacement of a macro being replaced)
    for n in (1, 2, 3):
        for body in itertools.product(('x', 'O', 'F', 'G'), repeat=n):
            for call in ('O(1)', 'O(1)(2) G (3)'):
                fl.append('#define O F\n#define G O\n#define F(x) [' + ' '.join(body) + ']\n' + call + '\n')
    return out + fl

def gen_fn_shapes(rng, thorough):
    """the shapes the termination theorem C09_terminates has to cope with, on the real code: two function-like macros whose
    replacement lists are every sequence of <= 2 tokens over {x, f, g, (, ), a} (unbalanced parentheses included, so that
    an invocation started inside an expansion takes its arguments and its `)` from the text behind it: the hide set of the
    expansion is then the INTERSECTION with the hide set of that `)`), against inputs that keep offering `(..)` groups,
    macro names as arguments and spare `)`; and `##` forming macro names whose hide set is only that of the paste"""
    out = []
    alpha = ['x', 'f', 'g', '(', ')', 'a']
    bodies = [()] + [(a,) for a in alpha] + [(a, b) for a in alpha for b in alpha]
    if thorough:
        bodies += [tuple(rng.choice(alpha) for _ in range(3)) for _ in range(60)]
    inputs = ['f(1)(2)(3)', 'f(g)(1)(2) )', 'f(f)(g)(1)', 'f(g(1))(2) ) )', 'g f(1) (2) )', 'f((g)(1))(2)(3)', 'f(g f)(1)(2)(f) )',
              'f(g(f(g)))(f)(g)(1) ) )', 'f(f g)(g f)(1)(2)']
    def one(bf, bg, inp):
        return f'#define f(x) {" ".join(bf)}\n#define g(x) {" ".join(bg)}\n{inp}\n'
    if thorough:
        for bf in bodies:
            for bg in bodies:
                for inp in inputs[:5] if len(bf) + len(bg) > 3 else inputs:
                    out.append(one(bf, bg, inp))
    else:
        for _ in range(500):
            out.append(one(rng.choice(bodies), rng.choice(bodies), rng.choice(inputs)))
    # `##` makes a macro name; the pasted token starts with an empty hide set and gets only that of this expansion
    palpha = ['x', 'f', 'g', '(', ')', 'cat(f,)', 'cat(,g)', 'cat(f,', 'cat(g,x)', 'cat(x,)', 'XY']
    pinputs = ['f(1)(2) ) ) )', 'XY ) XY ) (1)', 'g(f)(g)(1) ) )', 'cat(f,)(1)(2) )', 'cat(X,Y) ) (1) )', 'f(XY ) )(1) )']
    for _ in range(2500 if thorough else 250):
        bf = [rng.choice(palpha) for _ in range(rng.choice([1, 2, 2, 3, 4]))]
        bg = [rng.choice(palpha) for _ in range(rng.choice([0, 1, 2, 3]))]
        bxy = rng.choice(['cat(X,Y', 'cat(f,', 'f cat(X,Y', 'cat(X,Y)', 'g (', 'cat(g,) ( XY'])
        out.append(f'#define cat(x,y) x##y\n#define f(x) {" ".join(bf)}\n#define g(x) {" ".join(bg)}\n#define XY {bxy}\n'
                   f'{rng.choice(pinputs)}\n')
    out += [
        '#define cat(x,y) x##y\n#define XY cat(X,Y\nXY ) XY )\n',
        '#define cat(x,y) x##y\n#define XY cat(X,Y\n#define e(x) x\ne(XY )) XY ) e(e(XY )))\n',
        '#define f(x) x g\n#define g(x) x f\n#define d(x) x x\nd(f(1)(2))(3)(4) d(f)(1)(2)(3)\n',
        '#define d(x) x x\n#define f(x) d(d(x)) f\nf(f(1))(f(2))(3)\n',
        '#define sw(a,b) b a\n#define f(x) g\n#define g(x) f\nsw((1), f)(2)(3) sw(g f, (1))(2)\n',
        '#define f(x, ...) __VA_ARGS__ f x\nf(1, (2), g)(3, f)(4)\n',
        '#define f(...) g __VA_OPT__((__VA_ARGS__) f)\n#define g(x) f\nf(1)(2)(3) f()(1)(2)\n',
    ]
    return out

BATTERY = [
    # argument pre-expansion vs # / ## operands
    '#define M 1 2\n#define f(x) x #x\n#define g(x) #x x\nf(a M b) g(a M b) f(M b)\n',
    '#define M 1 2\n#define f(x) x x##c\nf(a M) f(M)\n',
    '#define E\n#define f(x) x #x\nf(E b) f(a E b)\n',
    '#define d(x) x x\nd(__COUNTER__) __COUNTER__ d(__COUNTER__)\n',
    '#define s(x) #x\n#define s2(x) s(x)\n#define N 42\ns(N) s2(N) s( N + N ) s2( N + N )\n',
    '#define c(x,y) x##y\n#define c2(x,y) c(x,y)\n#define N 4\n#define N4 five\nc(N,4) c2(N,4) c(N,N) c2(N,N)\n',
    # stringification: spacing, escaping, newlines inside the invocation
    '#define s(x) #x\ns(a\nb) s(  a   +   b  ) s("a\\n" + c) s( "x y" ) s(\'"\') s("\\\\") s() s( ) s(a,b)\n',
    '#define s(x) #x\ns(a /* c */ b) s(a/**/b) s(/**/a) s(a // x\n b)\n',
    '#define s(x) #x\n#define o(y) s(a #y b)\n#define p(y) s(a y##1 b)\no(1) p(x)\n',
    '#define s(...) #__VA_ARGS__\ns(a , b) s(a,b) s( a ,b ) s((a,b),c) s()\n',
    # object-like ##, # as ordinary token, directive look-alikes
    '#define X a ## b\n#define Y 1 ## 2 ## 3\n#define Z + ## +\nX Y Z\n',
    '#define H #\n#define E\nH define Y 1\nY\na E\n#define Z 2\nZ\nE # define W 1\nW\n',
    '#define hash_hash # ## #\n#define mkstr(a) # a\n#define in_between(a) mkstr(a)\n#define join(c, d) in_between(c hash_hash d)\nchar p[] = join(x, y);\n',
    # C11 6.10.3.5 examples
    '#define x 3\n#define f(a) f(x * (a))\n#undef x\n#define x 2\n#define g f\n#define z z[0]\n#define h g(~\n#define m(a) a(w)\n#define w 0,1\n'
    '#define t(a) a\n#define p() int\n#define q(x) x\n#define r(x,y) x ## y\n#define str(x) # x\n'
    'f(y+1) + f(f(z)) % t(t(g)(0) + t)(1);\ng(x+(3,4)-w) | h 5) & m\n(f)^m(m);\np() i[q()] = { q(1), r(2,3), r(4,), r(,5), r(,) };\nchar c[2][6] = { str(hello), str() };\n',
    '#define str(s) # s\n#define xstr(s) str(s)\n#define debug(s, t) printf("x" # s "= %d, x" # t "= %s", x ## s, x ## t)\n'
    '#define INCFILE(n) vers ## n\n#define glue(a, b) a ## b\n#define xglue(a, b) glue(a, b)\n#define HIGHLOW "hello"\n#define LOW LOW ", world"\n'
    'debug(1, 2);\nfputs(str(strncmp("abc\\0d", "abc", \'\\4\') == 0) str(: @\\n), s);\nxstr(INCFILE(2).h)\nglue(HIGH, LOW);\nxglue(HIGH, LOW)\n',
    '#define t(x,y,z) x ## y ## z\nint j[] = { t(1,2,3), t(,4,5), t(6,,7), t(8,9,),\n t(10,,), t(,11,), t(,,12) };\n',
    '#define t(x,y,z) x ## y ## z\nint j[] = { t(1,2,3), t(,4,5), t(6,,7), t(8,9,),\n t(10,,), t(,11,), t(,,12), t(,,) };\n',
    '#define t(x,y,z) x ## y ## z\nt(,,)\n',
    '#define u(x,y,z) a x ## y ## z b\nu(,,3) u(,,) u(1,,) u(,2,) u(,,3 4) u( , , )\n',
    '#define q(x,y,z,w) x ## y ## z ## w\nq(,,,) q(,,,4) q(,,3,) q(1,,,) q(,,3,4) q(1,,,4) q(,2,,) [q(,,,)]\n',
    '#define t(x,y,z) x ## y ## z\n#define E\n#define o(x) t(x,,)|t(,x,)|t(,,x)\no() o(E) o(1) t(E,,) t(,E,) t(,,E) t(E,E,E)\n',
    '#define cat3(x,y,z) x ## y ## z\n#define AB 1\n#define A 2\ncat3(A,,B) cat3(,A,B) cat3(A,B,) cat3(,,AB) cat3(,,A)\n',
    '#define debug(...) fprintf(stderr, __VA_ARGS__)\n#define showlist(...) puts(#__VA_ARGS__)\n#define report(test, ...) ((test)?puts(#test): printf(__VA_ARGS__))\n'
    'debug("Flag");\ndebug("X = %d\\n", x);\nshowlist(The first, second, and third items.);\nreport(x>y, "x is %d but y is %d", x, y);\n',
    # line spanning, flags
    '#define f(x,y) [x|y]\nf(\n1\n,\n2\n) f\n(3,4) f(f(1,2),\nf(3,\n4))\n',
    '#define f(x) [x]\nf\n(1) f(\n1\n) f  (f)(2)\n',
    '#define E\n#define f(x)\na E\nb f(1)\nc E E f() d\nE\ne\n',
    # empty arguments
    '#define f(x,y) [x|y]\nf((a,b),c) f(,) f( , ) f((,),(,)) f(f(1,2),3) f(()())\n',
    '#define f() <>\n#define g(x) <x>\nf() f( ) g() g( ) g(()) f ()\n',
    # argument count diagnostics
    '#define f(x,y) x y\nf(1)\n', '#define f(x) x\nf(1,2)\n', '#define f() x\nf(1)\n', '#define f(x) x\nf(1\n',
    '#define f(x,...) x\nf()\n', '#define f(x,y,...) x\nf(1)\n',
    # constraint violations
    '#define f(x) # y\nf(1)\n', '#define f(x) ## x\nf(1)\n', '#define f(x) x ##\nf(1)\n', '#define X ## a\nX\n', '#define X a ##\nX\n',
    '#define e(x,y) x ## y ##\ne(,)\n', '#define e(x,y) a x ## y ##\ne(,)\n', '#define e(x,y) x ## y ##\ne(1,)\n', '#define e(x,y,z) x ## y ## ## z\ne(,,)\n',
    '#define f(x) x ## +\nf(a)\n', '#define f(x,y) x ## y\nf("a","b") \n', '#define f(x,y) x ## y\nf(., .)\n',
    # pasting that forms other kinds of tokens
    '#define c(x,y) x ## y\nc(+,+) c(-,>) c(<,<=) c(1,e) c(1e,+) c(.,5) c(L,"s") c(L,\'c\') c(u8,"s") c(a,1) c(1,a) c(<<,=) c(#,#) c(%,=) c(.,..) \n',
    # built-ins
    '__COUNTER__ __COUNTER__ __LINE__ __COUNTER__\n__LINE__ __FILE__\n#define L __LINE__\n\nL\n#define f(x) x __LINE__\nf(__LINE__)\n',
    '#define c(x,y) x ## y\nc(__COUN,TER__) c(__LI,NE__) __COUNTER__\n',
    # #undef, redefinition after undef
    '#define A 1\nA\n#undef A\nA\n#define A 2\nA\n#undef B\n#define f(x) x\n#undef f\nf(1)\n',
    # named variadic (GNU)
    '#define f(x, args...) <x|args>\nf(1) f(1,2) f(1,2,3)\n',
    # latitude: __VA_OPT__ with an argument that expands to nothing (counted, not compared)
    '#define EMP\n#define F(...) f(0 __VA_OPT__(,) __VA_ARGS__)\nF(EMP) F() F(1)\n',
    # null directive
    'a\n#\nb\n# \nc\n',
]

# C11 6.10.3.5: source and the result PRINTED IN THE STANDARD (compared at token granularity with chibicc -E, independent
# of gcc and of the Lean specification).  EXAMPLE 5 (`t(10,,)` ...: placemarkers) was the known finding C09-placemarker until
# `fix:` 5a15c0f; it is compared like the others now.
# The `debug`/`report` definitions are written on one line (no backslash-newline: C18's subject), `#include xstr(..)` as text.
_EX3_DEFS = ('#define x 3\n#define f(a) f(x * (a))\n#undef x\n#define x 2\n#define g f\n#define z z[0]\n#define h g(~\n#define m(a) a(w)\n'
             '#define w 0,1\n#define t(a) a\n#define p() int\n#define q(x) x\n#define r(x,y) x ## y\n#define str(x) # x\n')
_EX4_DEFS = ('#define str(s) # s\n#define xstr(s) str(s)\n#define debug(s, t) printf("x" # s "= %d, x" # t "= %s", x ## s, x ## t)\n'
             '#define INCFILE(n) vers ## n\n#define glue(a, b) a ## b\n#define xglue(a, b) glue(a, b)\n#define HIGHLOW "hello"\n'
             '#define LOW LOW ", world"\n')
_EX7_DEFS = ('#define debug(...) fprintf(stderr, __VA_ARGS__)\n#define showlist(...) puts(#__VA_ARGS__)\n'
             '#define report(test, ...) ((test)?puts(#test): printf(__VA_ARGS__))\n')
STD_EXAMPLES = [
    ('EXAMPLE 3', _EX3_DEFS + 'f(y+1) + f(f(z)) % t(t(g)(0) + t)(1);\ng(x+(3,4)-w) | h 5) & m\n(f)^m(m);\n'
                  'p() i[q()] = { q(1), r(2,3), r(4,), r(,5), r(,) };\nchar c[2][6] = { str(hello), str() };\n',
     'f(2 * (y+1)) + f(2 * (f(2 * (z[0])))) % f(2 * (0)) + t(1);\nf(2 * (2+(3,4)-0,1)) | f(2 * (~ 5)) & f(2 * (0,1))^m(0,1);\n'
     'int i[] = { 1, 23, 4, 5, };\nchar c[2][6] = { "hello", "" };\n'),
    ('EXAMPLE 4', _EX4_DEFS + 'debug(1, 2);\nfputs(str(strncmp("abc\\0d", "abc", \'\\4\') // this goes away\n == 0) str(: @\\n), s);\n'
                  'xstr(INCFILE(2).h)\nglue(HIGH, LOW);\nxglue(HIGH, LOW)\n',
     'printf("x" "1" "= %d, x" "2" "= %s", x1, x2);\nfputs("strncmp(\\"abc\\\\0d\\", \\"abc\\", \'\\\\4\') == 0" ": @\\n", s);\n'
     '"vers2.h"\n"hello";\n"hello" ", world"\n'),
    ('EXAMPLE 4: str(: @\\n)', '#define str(s) # s\nstr(: @\\n)\n', '": @\\n"\n'),
    ('EXAMPLE 4: xstr(INCFILE(2).h)', '#define str(s) # s\n#define xstr(s) str(s)\n#define INCFILE(n) vers ## n\nxstr(INCFILE(2).h)\n', '"vers2.h"\n'),
    ('EXAMPLE 4: str(strncmp...)', '#define str(s) # s\nstr(strncmp("abc\\0d", "abc", \'\\4\') // this goes away\n == 0)\n',
     '"strncmp(\\"abc\\\\0d\\", \\"abc\\", \'\\\\4\') == 0"\n'),
    ('EXAMPLE 5', '#define t(x,y,z) x ## y ## z\nint j[] = { t(1,2,3), t(,4,5), t(6,,7), t(8,9,),\n t(10,,), t(,11,), t(,,12), t(,,) };\n',
     'int j[] = { 123, 45, 67, 89,\n 10, 11, 12, };\n'),
    ('EXAMPLE 5: t(,,)', '#define t(x,y,z) x ## y ## z\n[ t(,,) ]\n', '[ ]\n'),
    ('EXAMPLE 5: t(,,12)', '#define t(x,y,z) x ## y ## z\n[ t(,,12) ]\n', '[ 12 ]\n'),
    ('EXAMPLE 7', _EX7_DEFS + 'debug("Flag");\ndebug("X = %d\\n", x);\nshowlist(The first, second, and third items.);\n'
                  'report(x>y, "x is %d but y is %d", x, y);\n',
     'fprintf(stderr, "Flag" );\nfprintf(stderr, "X = %d\\n", x );\nputs( "The first, second, and third items." );\n'
     '((x>y)?puts("x>y"):\n printf("x is %d but y is %d", x, y));\n'),
]

# ---- the # operator: `\` and `"` inside and outside string literals / character constants of every prefix

STR_PREFIX = ['', 'u8', 'u', 'U', 'L']
CHR_PREFIX = ['', 'u', 'U', 'L']
STR_BODY = ['a\\\\b', 'q\\"r', '\\n', '\\\\', '', 'x y', '\\\\\\"', "'", '\\0d']            # a\\b  q\"r  \n  \\  (empty)  x y  \\\"  '  \0d
CHR_BODY = ['\\\\', '"', "\\'", '\\n', 'a', '\\"', '\\4']                             # \\  "  \'  \n  a  \"  \4
STRZ_LITS = [p + '"' + b + '"' for p in STR_PREFIX for b in STR_BODY] + [p + "'" + b + "'" for p in CHR_PREFIX for b in CHR_BODY]
STRZ_PLAIN = ['a', 'n', 'x', 'e1', '0', '12', '0x1f', '+', '-', '@', ':', '.', '%', '#', '\\', '\\', '\\']
STRZ_DEFS = ('#define str(s) # s\n#define xstr(s) str(s)\n#define showlist(...) puts(#__VA_ARGS__)\n#define two(x,y) <#x|# y|x y>\n'
             '#define M 9 8\n')

def _strz_arg(rng, allow_comma=False, allow_macro=False):
    """an argument as text: 1-6 tokens, literals of every prefix and bare `\\` mixed, random white space (none where the two
    spellings would lex differently when glued)"""
    n = rng.choice([1, 2, 2, 3, 3, 4, 5, 6])
    toks = []
    for _ in range(n):
        x = rng.random()
        if x < 0.4:
            toks.append(rng.choice(STRZ_LITS))
        elif x < 0.48 and allow_comma:
            toks.append(',')
        elif x < 0.53 and allow_macro:
            toks.append('M')
        elif x < 0.6:
            toks += ['(', rng.choice(STRZ_PLAIN + STRZ_LITS), ')']
        else:
            toks.append(rng.choice(STRZ_PLAIN))
    out, prev = '', None
    for t in toks:
        if prev is not None and (rng.random() < 0.5 or glue(prev, t)):
            out += rng.choice([' ', ' ', '  ', '\t', ' /* c */ '])
        out += t
        prev = t
    return out

def gen_strz_grid(rng, thorough):
    """every literal (5 string prefixes x 9 bodies, 4 character-constant prefixes x 7 bodies) between every combination of
    {nothing, `\\`, `\\ `, `a`, `a `} before and {nothing, `\\`, ` \\`, `n`, ` n`, `\\n`, ` \\ n`} after it, stringized directly"""
    pres = ['', '\\', '\\ ', 'a', 'a ']
    posts = ['', '\\', ' \\', 'n', ' n', '\\n', ' \\ n']
    out = []
    for lit in STRZ_LITS:
        for pre in pres:
            for post in posts:
                a, b = pre, post
                if a and not a.endswith(' ') and glue(a.strip(), lit):
                    a += ' '
                if b and not b.startswith(' ') and glue(lit, b.split()[0] if b.split() else b):
                    b = ' ' + b
                out.append(f'#define str(s) # s\n[ str({a}{lit}{b}) ]\n')
    # no literal at all: runs of bare backslashes and plain tokens
    for arg in ['\\', '\\\\', '\\ \\', '\\n', '\\ n', 'a\\', 'a \\ b', '\\x', '\\x1', '\\ x', '\\0', '\\\\n', '\\\\\\', ': @\\n', '\\(', '(\\)', '\\#', '@\\@']:
        out.append(f'#define str(s) # s\n[ str({arg}) ]\n')
        out.append(f'#define str(s) # s\n#define xstr(s) str(s)\n[ xstr({arg}) ]\n')
    if not thorough:
        keep = out[-36:]
        out = rng.sample(out[:-36], 350) + keep
    return out

def gen_strz_random(rng, n):
    out = []
    for _ in range(n):
        k = rng.random()
        if k < 0.4:
            inv = f'str({_strz_arg(rng)})'
        elif k < 0.6:
            inv = f'xstr({_strz_arg(rng, allow_macro=True)})'
        elif k < 0.8:
            inv = f'showlist({_strz_arg(rng, True, False)})'
        else:
            inv = f'two({_strz_arg(rng)},{_strz_arg(rng)})'
        out.append(STRZ_DEFS + '[ ' + inv + ' ]\n')
    return out


def corpus_cases():
    d = os.path.join(VERIF, 'corpus', 'C09')
    out = []
    if os.path.isdir(d):
        for fn in sorted(os.listdir(d)):
            if fn.endswith('.c'):
                out.append(('corpus:' + fn, open(os.path.join(d, fn)).read()))
    return out

def is_nontrivial(c):
    """the case exercises more than plain text: some macro was expanded and one of #, ##, variadics, a self-reference
    left unexpanded, a function-like name without `(`, or an invocation spanning lines is involved"""
    t = c['text']
    if c['C'][0] != 'ok':
        return True
    spell = flat(c['C'])
    defs = set(re.findall(r'^\s*#\s*define\s+(\w+)', t, re.M))
    if not defs:
        return False
    left = any(s in defs for s in spell)
    return left or '##' in t or re.search(r'#\s*\w+', t.split('\n', 1)[-1]) is not None or '...' in t or bool(re.search(r'\(\s*\n', t))

# ------------------------------------------------------------------------------------------------ shrinking

def shrink(ctx, text, still_bad, budget=120):
    """drop lines, then tokens, while `still_bad(text)` holds"""
    lines = text.splitlines()
    changed = True
    while changed and budget > 0:
        changed = False
        for i in range(len(lines)):
            cand = lines[:i] + lines[i + 1:]
            if not cand:
                continue
            budget -= 1
            if budget <= 0:
                break
            if still_bad('\n'.join(cand) + '\n'):
                lines = cand; changed = True
                break
    changed = True
    while changed and budget > 0:
        changed = False
        for li, ln in enumerate(lines):
            try:
                toks = tokenize(ln + '\n')
            except LexErr:
                continue
            start = 3 if re.match(r'\s*#\s*define', ln) else 0
            for ti in range(start, len(toks)):
                keep = toks[:ti] + toks[ti + 1:]
                new = render([[(t[1], t[3] or j == 0 and False) for j, t in enumerate(keep)]]).rstrip('\n')
                # keep `name(` of function-like definitions glued
                if start and len(keep) > 3 and toks[3][1] == '(' and not toks[3][3]:
                    new = re.sub(r'^(\s*#\s*define\s+\w+)\s+\(', r'\1(', new)
                cand = lines[:li] + [new] + lines[li + 1:]
                budget -= 1
                if budget <= 0:
                    break
                if still_bad('\n'.join(cand) + '\n'):
                    lines = cand; changed = True
                    break
            if changed or budget <= 0:
                break
    return '\n'.join(lines) + '\n'

def judge_text(ctx, text):
    c = run_all(ctx, [text])[0]
    return c, tie_all(c), oracle_verdict(c)

# ------------------------------------------------------------------------------------------------ the check

def process(ctx, corr, tagged, stop_after=3):
    texts = [t for _, t in tagged]
    cases = run_all(ctx, texts)
    for (tag, _), c in zip(tagged, cases):
        corr.evaluations += 1
        corr.count(tag.split(':')[0])
        key = hashlib.sha1(c['text'].encode()).hexdigest()
        if is_nontrivial(c):
            corr.nontrivial.add(key)
        if c['M'][0] == 'err' and c['M'][1] == 'unsupportedDirective':
            corr.count('skipped_unsupported_directive')
        H = c.get('H', ('none',))
        if H[0] == 'ok' and c.get('MH', ('none',))[0] == 'ok':
            corr.count('hideset_cases_compared')
            nh = sum(1 for t in H[1] if t[1])
            if nh:
                corr.count('hideset_cases_with_nonempty_hide_sets')
                corr.count('hideset_tokens_with_nonempty_hide_set', nh)
        elif H[0] == 'crash':
            corr.count('harness_crash_or_sanitizer_report')
            corr.extra.setdefault('harness_crashes', [])
            if len(corr.extra['harness_crashes']) < 3:
                corr.extra['harness_crashes'].append({'input': c['text'], 'what': H[1]})
        if c['M'][0] == 'ok' and 'b' in c['M'][2] and not strz_ub(c):
            corr.count('stringize_backslash_outside_literal_compared')
        if c['M'][0] == 'ok' and 'p' in c['M'][2]:
            # some expansion had `p ## q ##` with both arguments empty (model ghost flag pmHit): the placemarker loop of subst ran
            corr.count('placemarker_chain_cases_compared')
        tp = tie_all(c)
        if tp and len(corr.disagreements) < stop_after:
            def bad(t):
                _, p, _ = judge_text(ctx, t)
                return p is not None
            small = shrink(ctx, c['text'], bad)
            c2, p2, _ = judge_text(ctx, small)
            corr.disagreements.append({'kind': 'model vs chibicc -E / in-process preprocess2', 'what': p2 or tp, 'input': small,
                                       'original_input': c['text'], 'chibicc': str(c2['C'])[:400], 'model': str(c2['M'])[:400],
                                       'harness': str(c2.get('H'))[:400], 'model_hide': str(c2.get('MH'))[:400], 'tag': tag})
        v = oracle_verdict(c)
        sg = spec_vs_gcc(c)
        if sg:
            corr.count('spec_vs_gcc_mismatch')
            corr.extra.setdefault('spec_vs_gcc_mismatches', [])
            if len(corr.extra['spec_vs_gcc_mismatches']) < 5:
                corr.extra['spec_vs_gcc_mismatches'].append({'input': c['text'], 'what': sg})
        if v == 'agree':
            corr.count('oracle_agree')
        elif v == 'both-reject':
            corr.count('oracle_both_reject')
        elif v[0] == 'skipped_ub':
            corr.count('skipped_ub')
            if v[1].startswith('the result of #'):
                corr.count('skipped_ub_stringize_result_not_a_literal')
        elif v[0] == 'skipped_latitude_va_opt':
            corr.count('skipped_latitude_va_opt')
        elif v[0] == 'inconclusive':
            corr.count('oracle_inconclusive')
            corr.extra.setdefault('inconclusive_samples', [])
            if len(corr.extra['inconclusive_samples']) < 4:
                corr.extra['inconclusive_samples'].append({'input': c['text'], 'why': v[1][:300]})
        elif v[0] == 'violation' and len(corr.violations) < stop_after:
            def bad(t):
                _, _, vv = judge_text(ctx, t)
                return isinstance(vv, tuple) and vv[0] == 'violation'
            small = shrink(ctx, c['text'], bad, budget=25 if c['C'][0] in ('hang', 'crash') else 120)
            c2, _, v2 = judge_text(ctx, small)
            if not (isinstance(v2, tuple) and v2[0] == 'violation'):
                small, c2, v2 = c['text'], c, v
            corr.violations.append({'what': 'chibicc -E differs from C11 6.10.3 (gcc -E -P and the Lean specification agree): ' + v2[1],
                                    'input': small, 'original_input': c['text'],
                                    'expected': ' '.join(c2['G'][1]) if c2['G'][0] == 'ok' else str(c2['G'][:2]),
                                    'got': ' '.join(flat(c2['C'])) if c2['C'][0] == 'ok' else str(c2['C'][:2]), 'tag': tag})
    return cases

def std_examples(ctx, corr):
    """C11 6.10.3.5 EXAMPLE 3, 4, 5, 7: chibicc -E (and the Lean model, and the Lean specification) against the result printed in
    the standard, token by token"""
    for name, src, want in STD_EXAMPLES:
        c = run_all(ctx, [src])[0]
        corr.evaluations += 1
        corr.count('std_example')
        corr.nontrivial.add(hashlib.sha1(src.encode()).hexdigest())
        exp = [t[1] for t in tokenize(want, ctx)]
        got = flat(c['C'])
        if got != exp:
            corr.violations.append({'what': f'C11 6.10.3.5 {name}: chibicc -E does not give the result printed in the standard',
                                    'input': src, 'expected': ' '.join(exp), 'got': ' '.join(got) if got is not None else str(c['C'][:2])})
        tp = tie_all(c)
        if tp:
            corr.disagreements.append({'kind': 'model vs chibicc -E / in-process preprocess2', 'what': tp, 'input': src, 'tag': 'std:' + name,
                                       'chibicc': str(c['C'])[:400], 'model': str(c['M'])[:400]})
        if flat(c['S']) != exp:
            corr.count('spec_vs_standard_mismatch')
            corr.extra.setdefault('spec_vs_standard_mismatches', []).append(
                {'example': name, 'spec': ' '.join(flat(c['S']) or [str(c['S'][:2])])[:300], 'standard': ' '.join(exp)[:300]})
        if c['G'][0] == 'ok' and c['G'][1] != exp:
            corr.count('gcc_vs_standard_mismatch')

def strz_direct(ctx, corr):
    """the `#` operator on single arguments through `drv_c09 strz`: Model `stringize` = Spec `stringizeSpec` (C09_stringize_spec,
    here as a test of the driver), the model's own lexer agrees with this file's `str_lit_closed` about which results are one
    string literal (the classification behind skipped_ub), literal-safe arguments always are (C09_stringize_wellformed), and for
    those chibicc -E prints exactly the model's text"""
    rng = ctx.rng
    args = [_strz_arg(rng, allow_comma=True) for _ in range(300 if not ctx.thorough else 5000)]
    args += ['\\', '\\\\', ': @\\n', '\\"a"', '\\ "a"', '\\x', '\\x1', "\\'a'", 'a\\', '"\\\\"\\', 'L"q\\"r" \\ u8"\\\\"']
    toks = [tokenize(a, ctx) for a in args]
    out = ctx.driver('strz', ''.join(enc(t) + '\n' for t in toks)).splitlines()
    texts = []
    for a, t, l in zip(args, toks, out):
        corr.evaluations += 1
        corr.count('strz_direct')
        w = l.split()
        if len(w) != 4:
            corr.disagreements.append({'kind': 'drv_c09 strz', 'what': 'driver could not process the argument: ' + l[:80], 'input': a})
            return
        m, sp = bytes.fromhex(w[0]).decode('latin-1'), bytes.fromhex(w[1]).decode('latin-1')
        one = w[2] == 'ones'
        if m != sp:
            corr.disagreements.append({'kind': 'drv_c09 strz', 'what': f'stringize {m} differs from stringizeSpec {sp} (C09_stringize_spec is a theorem: '
                                       'driver and library are out of step)', 'input': a})
            return
        if one != str_lit_closed(m) or (w[3] == '1' and not one):
            corr.disagreements.append({'kind': 'drv_c09 strz', 'what': f'is {m} one string literal? Lex.lexOne: {w[2]}, literal-safe: {w[3]}, '
                                       f'checklib: {str_lit_closed(m)}', 'input': a})
            return
        corr.count('strz_direct_literal_safe' if w[3] == '1' else ('strz_direct_unsafe_valid' if str_lit_valid(m) else 'strz_direct_unsafe_ub'))
        if ',' not in [x[1] for x in t]:
            texts.append((a, m))
    # chibicc on the literal-safe ones and on the unsafe-but-valid ones, in one file per 40 arguments
    good = [(a, m) for a, m in texts if str_lit_valid(m)]
    for i in range(0, len(good), 40):
        part = good[i:i + 40]
        src = '#define str(s) # s\n' + ''.join(f'str({a})\n' for a, _ in part)
        d = os.path.join(ctx.scratch, 'c09', 'strz%d' % i)
        os.makedirs(d, exist_ok=True)
        open(os.path.join(d, 't.c'), 'w').write(src)
        C = run_chibicc(ctx, d)
        shutil.rmtree(d, ignore_errors=True)
        got = flat(C)
        want = [m for _, m in part]
        if got != want:
            k = next((j for j in range(len(want)) if got is None or j >= len(got) or got[j] != want[j]), 0)
            corr.disagreements.append({'kind': 'model stringize vs chibicc -E', 'what': f'str({part[k][0]}): model {want[k]}, chibicc '
                                       + (got[k] if got is not None and k < len(got) else str(C[:2])), 'input': '#define str(s) # s\nstr(' + part[k][0] + ')\n'})
            return

# ---- subst() alone: the static function of preprocess.c called directly (pp_harness -subst) vs `drv_c09 subst`

def subst_cases(rng, thorough):
    """(definitions, invocation) pairs: the chain grid and the operand grid turned into single invocations, plus random
    replacement lists (parameters, #, ##, __VA_OPT__, GNU comma, other macros' names) x random argument lists"""
    out = []
    for t in gen_chain_grid(rng, thorough) + gen_operand_grid(thorough):
        lines = t.rstrip('\n').split('\n')
        m = re.fullmatch(r'\[ (.*) \]', lines[-1])
        if m:
            out.append(('\n'.join(lines[:-1]) + '\n', m.group(1) + '\n'))
    names = [('M', 'obj', 0, False), ('g', 'fn', 1, False), ('E', 'obj', 0, False)]
    pre = '#define M 9 8\n#define g(x) <x>\n#define E\n'
    for _ in range(6000 if thorough else 600):
        np = rng.choice([1, 2, 2, 3, 3, 4])
        va = rng.random() < 0.3
        params = ['x', 'y', 'z', 'w'][:np]
        allow_gnu = rng.random() < 0.15
        body = rand_body(rng, 'f', 'fn', params, va, names, not allow_gnu, allow_gnu)
        if rng.random() < 0.5:
            # a chain of ## over parameters, most of which will be empty
            ch = [rng.choice(params + (['__VA_ARGS__'] if va else []) + ['1', 'a']) for _ in range(rng.choice([2, 3, 4, 5]))]
            k = rng.randrange(len(body) + 1)
            if not (k > 0 and body[k - 1] in ('#', '##')) and not (k < len(body) and body[k] == '##'):
                body = body[:k] + ' ## '.join(ch).split(' ') + body[k:]
        head = '#define f(' + ','.join(params + (['...'] if va else [])) + ') '
        d = pre + head + render([[(t, True) for t in body]])
        args = []
        for i in range(np):
            args.append('' if rng.random() < 0.45 else ' '.join(rand_arg(rng, names, 1, False)))
        if va:
            for i in range(rng.choice([0, 0, 1, 2])):
                args.append('' if rng.random() < 0.4 else ' '.join(rand_arg(rng, names, 1, False)))
        out.append((d, 'f(' + ','.join(args) + ')\n'))
    return out

def parse_subst_res(r):
    w = r.split()
    if not w:
        return ('bad',)
    if w[0] == 'ok':
        return ('ok', dec(w[1:]))
    if w[0] == 'err':
        return ('err', w[1] if len(w) > 1 else '')
    return ('bad', r[:60])

def subst_direct(ctx, corr):
    """the real static subst() (in-process, before any rescanning) against Model `subst` on the same invocation: kind, spelling,
    at_bol and has_space of every token it returns; and, through the driver, the model against the specification on every C11
    replacement list (C09_subst_spec is a theorem: a mismatch here means driver and library are out of step) and the model
    BEFORE `fix:` 5a15c0f against the specification (how many of the cases tell the old code from the new)"""
    rng = ctx.rng
    cases = subst_cases(rng, ctx.thorough)
    live = []
    base = os.path.join(ctx.scratch, 'c09s')
    os.makedirs(base, exist_ok=True)
    for j, (d, u) in enumerate(cases):
        try:
            td, tu = tokenize(d, ctx), tokenize(u, ctx)
        except LexErr:
            continue
        dd = os.path.join(base, str(j))
        os.makedirs(dd, exist_ok=True)
        open(os.path.join(dd, 't.c'), 'w').write(d)
        open(os.path.join(dd, 'u.c'), 'w').write(u)
        live.append((d, u, td, tu, dd))
    exe = build_harness(ctx)
    env = dict(os.environ, ASAN_OPTIONS='detect_leaks=0:exitcode=99:allocator_may_return_null=1', UBSAN_OPTIONS='exitcode=99')
    def run_part(part):
        rc, o, e = sh([exe, '-subst'] + [x[4] for x in part], timeout=60 + 6 * len(part), env=env)
        lines = o.splitlines()
        return lines + ['crash harness-rc=%s' % rc] * (len(part) - len(lines))
    parts = [live[i:i + 40] for i in range(0, len(live), 40)]
    with ThreadPoolExecutor(max_workers=max(2, NPROC)) as ex:
        hl = [l for ls in ex.map(run_part, parts) for l in ls]
    ml = ctx.driver('subst', ''.join(f"{FUEL} {enc(td)} | {enc(tu)}\n" for _, _, td, tu, _ in live)).splitlines()
    shutil.rmtree(base, ignore_errors=True)
    for k, (d, u, td, tu, dd) in enumerate(live):
        corr.evaluations += 1
        corr.count('subst_direct')
        h = hl[k] if k < len(hl) else 'crash missing'
        mline = ml[k] if k < len(ml) else 'bad missing'
        src = d + u
        def disagree(what):
            if len(corr.disagreements) < 3:
                corr.disagreements.append({'kind': 'static subst() in-process vs Model subst (drv_c09 subst)', 'what': what,
                                           'input': src, 'definitions': d, 'invocation': u, 'harness': h[:300], 'model': mline[:400]})
        if h.startswith('crash') or h == 'hang':
            corr.count('subst_direct_harness_crash_or_hang')
            corr.extra.setdefault('harness_crashes', [])
            if len(corr.extra['harness_crashes']) < 3:
                corr.extra['harness_crashes'].append({'input': src, 'what': h})
            continue
        if mline.startswith('na') or h == 'na':
            if not (mline.startswith('na') and h == 'na'):
                disagree(f'not an invocation for one side only: harness {h[:40]}, model {mline[:40]}')
            continue
        if mline.startswith(('defs ', 'args ')):
            if h != 'err':
                disagree(f'model rejects definitions/arguments ({mline}), subst() harness: {h[:80]}')
            corr.count('subst_direct_both_reject')
            continue
        f = mline.split(' ; ')
        if len(f) != 4 or not f[0].startswith('ok '):
            disagree('driver could not process the case: ' + mline[:80])
            continue
        c11, pm = f[0][3] == '1', f[0][4] == '1'
        M, O, S = parse_subst_res(f[1]), parse_subst_res(f[2]), parse_subst_res(f[3])
        corr.nontrivial.add('subst:' + hashlib.sha1(src.encode()).hexdigest())
        if pm:
            corr.count('subst_direct_placemarker_chain')
        # tie: the real subst() against the model, token by token with flags
        if h == 'err':
            if M[0] != 'err':
                disagree('subst() reports an error, the model returns ' + ' '.join(t[1] for t in M[1])[:200])
            else:
                corr.count('subst_direct_both_reject')
        else:
            H = parse_subst_res(h)
            if H[0] != 'ok' or M[0] != 'ok':
                disagree(f'subst() returns tokens, model {M[:2]}' if H[0] == 'ok' else 'harness line not understood')
            elif H[1] != M[1]:
                i = next((i for i, (a, b) in enumerate(zip(H[1], M[1])) if a != b), min(len(H[1]), len(M[1])))
                disagree(f'token {i} of the list subst() returns (kind, spelling, at_bol, has_space): preprocess.c '
                         f'{H[1][i] if i < len(H[1]) else "<end>"}, model {M[1][i] if i < len(M[1]) else "<end>"}')
            else:
                corr.count('subst_direct_tokens_equal')
        # theorem through the driver: C11 list, specification defines the result => same spellings
        sp = lambda r: [(t[0], t[1]) for t in r[1]]
        if c11 and S[0] == 'ok':
            corr.count('subst_direct_c11_spec_defined')
            if M[0] != 'ok' or sp(M) != sp(S):
                disagree('C09_subst_spec through the driver: specification ' + ' '.join(t[1] for t in S[1])[:200] + ' | model ' +
                         (' '.join(t[1] for t in M[1])[:200] if M[0] == 'ok' else str(M)))
            if O[0] != 'ok' or sp(O) != sp(S):
                corr.count('subst_direct_old_subst_differs_from_spec')      # what `fix:` 5a15c0f repaired
        elif not c11:
            corr.count('subst_direct_not_c11')

def macro_c(ctx, corr):
    """/repo/test/macro.c through chibicc -E and gcc -E -P: compare the token streams line group by line group
    (the file uses #include/#if, which the Lean model does not cover: oracle leg only)"""
    src = os.path.join(ctx.snapshot, 'test', 'macro.c')
    if not os.path.exists(src):
        corr.count('macro_c_missing')
        return
    tdir = os.path.join(ctx.snapshot, 'test')
    # `#include MACRO` builds a header name from tokens in an implementation-defined way (6.10.2p4): those lines are dropped
    lines = [l for l in open(src, errors='replace').read().splitlines() if not re.match(r'\s*#\s*include\s+[A-Za-z_]', l)]
    wd = os.path.join(ctx.scratch, 'macro_c')
    os.makedirs(wd, exist_ok=True)
    src = os.path.join(wd, 'macro.c')
    open(src, 'w').write('\n'.join(lines) + '\n')
    rc1, o1, e1 = sh(([_PRLIMIT, '--as=3221225472'] if _PRLIMIT else []) + [ctx.cc, '-E', '-I' + tdir, src], cwd=tdir, timeout=20)
    rc2, o2, e2 = sh(['gcc', '-E', '-P', '-undef', '-D__chibicc__=1', '-I' + tdir, src], cwd=tdir, timeout=60)
    corr.evaluations += 1
    corr.count('macro.c')
    if rc1 == -9:
        corr.violations.append({'what': 'chibicc -E test/macro.c did not terminate', 'input': 'test/macro.c', 'expected': 'output', 'got': 'timeout'})
        return
    if rc1 != 0 or rc2 != 0:
        corr.extra['macro_c'] = f'not compared: chibicc rc={rc1} gcc rc={rc2} {e1[-200:]} {e2[-200:]}'
        return
    try:
        t1 = [t[1] for t in tokenize(o1, ctx)]
        t2 = [t[1] for t in tokenize(o2, ctx)]
    except LexErr as x:
        corr.extra['macro_c'] = f'not compared: {x}'
        return
    # only main()'s body is compared: the prologue comes from test.h and differs in predefined macros
    def body(ts):
        for i in range(len(ts) - 2):
            if ts[i] == 'main' and ts[i + 1] == '(':
                return ts[i:]
        return ts
    b1, b2 = body(t1), body(t2)
    # statements are separated by `;` : compare statement by statement, skipping the ones that mention volatile built-ins
    def stmts(ts):
        out, cur = [], []
        for t in ts:
            cur.append(t)
            if t == ';':
                out.append(cur); cur = []
        if cur:
            out.append(cur)
        return out
    s1, s2 = stmts(b1), stmts(b2)
    corr.extra['macro_c'] = f'{len(s1)} statements of main() compared with gcc -E -P'
    if len(s1) != len(s2):
        corr.extra['macro_c'] += f' (statement counts differ: {len(s1)} vs {len(s2)}; compared up to the shorter)'
    bad = []
    for a, b in zip(s1, s2):
        if a != b:
            txt = ' '.join(a)
            if re.search(r'__DATE__|__TIME__|__TIMESTAMP__|__BASE_FILE__|__FILE__|main_filename|include_next|"[A-Z][a-z][a-z] [ 0-9][0-9] [0-9]{4}"|[0-9][0-9]:[0-9][0-9]:[0-9][0-9]', txt + ' '.join(b)):
                corr.count('macro_c_volatile_skipped')
                continue
            bad.append((txt[:200], ' '.join(b)[:200]))
    corr.extra['macro_c_mismatches'] = bad[:5]
    corr.count('macro_c_statements', len(s1))
    if bad:
        corr.count('macro_c_mismatch', len(bad))

def correspond(ctx, corr):
    rng = ctx.rng
    corr.rule = ('each case is a C file of #define lines plus invocation text over the alphabet {a b c, macro names, 1 2 0x1f, + , ( ) - * [ ], '
                 'string and character literals}: (1) corpus of past failures; (2) a hand-written battery (C11 6.10.3.5 examples, '
                 'pre-expansion vs #/## operands, line-spanning invocations, diagnostics, built-ins); (3) the grid of every combination of '
                 'empty/one-token/multi-token/macro/number operands around # and ## for 24 replacement-list shapes, variadics with 0/1/n '
                 'variable arguments, __VA_OPT__, GNU `, ## __VA_ARGS__`; (3b) chains of 3 and 4 `##` operands (placemarkers, 6.10.3.3p2-3): every '
                 'combination of empty / non-empty arguments (2^3, 2^4 with two non-empty spellings each; thorough: empty / one token / two '
                 'tokens / macro name, 4^3 and 4^4) for 13 + 11 replacement-list shapes (chain alone, between other tokens, parameters used '
                 'again outside the chain, next to #, literal operands inside the chain, two chains), variadic operands, operands that '
                 'become empty through an outer macro, 5- and 6-operand chains with one non-empty operand, and `##` last after a run of '
                 'empty operands (constraint violation); (4) every mutual-recursion shape on <= 4 object-like macros '
                 '(exhaustive for <= 2 (<= 3 thorough), sampled above) and 25 function-like recursion shapes; (4b) two function-like '
                 'macros with every replacement list of <= 2 tokens over {x f g ( ) a} (unbalanced parentheses: arguments and `)` taken '
                 'from the text behind the expansion, i.e. the hide-set intersection rule) x 9 inputs that keep offering `(..)` groups '
                 '(sampled in the quick tier, exhaustive in the thorough tier), and ## forming macro names; (5) seeded random definition '
                 'sets x invocations; (6) the # operator: every string literal (prefixes none/u8/u/U/L x 9 bodies with `\\\\`, `\\"`, `\\n`, '
                 'quote characters) and character constant (prefixes none/u/U/L x 7 bodies) between {nothing, `\\`, `\\ `, a, `a `} and '
                 '{nothing, `\\`, ` \\`, n, ` n`, `\\n`, ` \\ n`} stringized directly (sampled in the quick tier, all 2,555 in the thorough '
                 'tier), runs of bare backslashes, and random arguments of 1-6 tokens mixing those literals, bare `\\`, pp-numbers, '
                 'punctuators, parentheses, comments and tabs as white space, through str / xstr (pre-expanded) / #__VA_ARGS__ with '
                 'commas / a two-parameter macro that stringizes and copies; (7) C11 6.10.3.5 EXAMPLE 3, 4, 5, 7 against the results '
                 'printed in the standard; (8) subst() alone (in-process, no rescanning) against the model\'s subst, token by token with flags, on '
                 'the chain grid and the operand grid as single invocations and on random replacement lists x argument lists (about half of '
                 'them with a chain of 2-5 `##` operands, arguments empty with probability 0.45).  Each case of (1)-(7) runs through chibicc -E, the real preprocess2 in-process (hide set of every output '
                 'token), the Lean model, gcc -E -P and the Lean specification.  '
                 'non-trivial = a macro is defined and the case involves #, ##, a variadic, an invocation spanning lines, or a macro name '
                 'left unexpanded in the output (self-reference / function-like name without parenthesis); distinct = by source text.')
    tagged = corpus_cases()
    tagged += [('battery', t) for t in BATTERY]
    tagged += [('grid', t) for t in gen_operand_grid(ctx.thorough)]
    tagged += [('chain', t) for t in gen_chain_grid(rng, ctx.thorough)]
    tagged += [('recursion', t) for t in gen_recursion_shapes(rng, ctx.thorough)]
    tagged += [('fnshape', t) for t in gen_fn_shapes(rng, ctx.thorough)]
    tagged += [('strzgrid', t) for t in gen_strz_grid(rng, ctx.thorough)]
    tagged += [('strz', t) for t in gen_strz_random(rng, 400 if not ctx.thorough else 8000)]
    nrand = 1500 if not ctx.thorough else 30000
    tagged += [('random', gen_random_case(rng)) for _ in range(nrand)]
    # termination smoke test first: when self-reference does not stop, everything below would only time out
    smoke = [('smoke', '#define z z\nz\n'), ('smoke', '#define T U\n#define U T\nT U\n'), ('smoke', '#define f(x) x f(x)\nf(1)\n')]
    process(ctx, corr, smoke)
    if corr.violations:
        return
    std_examples(ctx, corr)
    strz_direct(ctx, corr)
    if corr.disagreements:
        return
    subst_direct(ctx, corr)
    if corr.disagreements:
        return
    chunk = 250
    for i in range(0, len(tagged), chunk):
        cases = process(ctx, corr, tagged[i:i + chunk])
        for c in cases[:2]:
            corr.sample({'input': c['text'], 'chibicc': ' '.join(flat(c['C']) or [str(c['C'][:2])])[:160]}, limit=8)
        if corr.disagreements or corr.violations:
            break
    macro_c(ctx, corr)
    if corr.extra.get('macro_c_mismatches'):
        a, b = corr.extra['macro_c_mismatches'][0]
        corr.violations.append({'what': 'test/macro.c: a statement of main() preprocesses differently from gcc -E -P',
                                'input': 'test/macro.c', 'expected': b, 'got': a})

def search(ctx, broken, corr):
    """a proof, a translator pin or the tie broke and the standard run saw no violation: first the deterministic part of the
    standard run again (corpus, battery, the standard's examples, the operand grid, the # grid), then more random inputs;
    gcc + specification as oracle"""
    rng = ctx.rng
    first = corpus_cases() + [('search', t) for t in BATTERY] + [('search', src) for _, src, _ in STD_EXAMPLES]
    first += [('search', t) for t in gen_chain_grid(rng, False)]
    first += [('search', t) for t in gen_operand_grid(False)] + [('search', t) for t in gen_strz_grid(rng, False)]
    first += [('search', t) for t in gen_recursion_shapes(rng, False)] + [('search', t) for t in gen_fn_shapes(rng, False)]
    for rnd in range(7):
        if rnd == 0:
            tagged = first
        else:
            tagged = [('search', gen_random_case(rng)) for _ in range(2200)] + [('search', t) for t in gen_strz_random(rng, 300)]
        c2 = Corr()
        process(ctx, c2, tagged)
        real = list(c2.violations)
        if real:
            return real[0]
    return None

def replay(ctx, corr, path):
    payload = json.load(open(path))
    text = payload.get('input')
    if not text or not text.endswith('\n') or text == 'test/macro.c':
        corr.extra['replay'] = 'replay file carries no source text'
        return
    c, tp, v = judge_text(ctx, text)
    corr.evaluations = 1
    print('replay: chibicc', c['C'][:2] if c['C'][0] != 'ok' else ' '.join(flat(c['C'])), '| gcc', c['G'][:2] if c['G'][0] != 'ok' else ' '.join(c['G'][1]),
          '| verdict', v if isinstance(v, str) else v[0], '| tie', tp or 'model agrees with chibicc')
    if isinstance(v, tuple) and v[0] == 'violation':
        corr.violations.append({'what': v[1], 'input': text, 'expected': str(c['G'][:2]), 'got': str(c['C'][:2])})
    if tp:
        corr.disagreements.append({'kind': 'model vs chibicc -E', 'what': tp, 'input': text})

MANIFEST = {
    'level_text': 'Lean 4 theorems over a hand-written model of preprocess.c as it is now (hide sets, read_macro_args, subst, expand_macro, '
                  'preprocess2), for all inputs: hide-set union/intersection/contains are set algebra and add_hideset changes nothing else '
                  '(C09_hideset_algebra); read_macro_arg_one returns (a, r) exactly when the text is a balanced, top-level-comma-free prefix '
                  'followed by its terminator, and otherwise reports "premature end of input" (C09_args_one, C09_args_unbalanced); whatever '
                  'read_macro_args accepts is the arguments joined by commas, the variable argument taking the rest (C09_args); expand_macro '
                  'declines a token only if it is painted, names no macro, or is a function-like name not followed by `(` (C09_blue_step); every '
                  'token of an expansion carries the macro name in its hide set (C09_blue_paint); in the output of preprocess2 every identifier '
                  'naming a macro is painted or function-like (C09_blue); for EVERY macro table (object-like, function-like, variadic, built-in, '
                  'any hide sets on the tokens, any lexer behind ##) preprocess2 on text without directive lines finishes within the explicit '
                  'fuel bound `fuelBound defs input` = fuelE (longest replacement list) (number of entries) (input length) 0, and its output '
                  'has at most that many tokens (C09_terminates, C09_terminates_output, C09_terminates_bound_exists: lexicographic measure over '
                  'ghost levels of the pending list; the hide-set intersection of expand_macro never loses a name of the level its `)` comes '
                  'from; arguments handed to the nested preprocess2 inherit a smaller measure); a run that ends with anything but the fuel '
                  'error ends the same way with any larger fuel, directive lines included (C09_fuel_irrelevant), so expansion is a total '
                  'function of table and text (C09_expansion_total) and the fixed fuel of the correspondence runs computes the same answer '
                  'as `fuelBound` would; for object-like definition sets the sharper '
                  'singly-exponential bound `bound defs input` (C09_terminates_partial); __COUNTER__ yields c, c+1, ... (C09_counter); '
                  'subst produces exactly the spellings of the phase-structured C11 6.10.3.1-3 specification (with placemarkers) whenever '
                  'that specification defines them, for EVERY replacement list that is C11 - chains of ## over empty arguments included '
                  '(placemarker ## placemarker = placemarker: the loop of `fix:` 5a15c0f is simulated turn by turn against pasteAll of the '
                  'specification), arbitrary stringized arguments, arguments as read_macro_args returns them (C09_subst_spec; '
                  'C09_subst_spec_partial is the same for any argument list with an empty expansion cache); the decidable predicate isC11 '
                  'excludes only GNU `, ##` before the variable parameter, C2x `__VA_OPT__(`, and `## #` (order unspecified by 6.10.3.2p2); '
                  'the token `#` produces is the one C11 6.10.3.2p2 '
                  'prescribes for EVERY argument - `\\` and `"` inside and outside string literals and character constants '
                  '(C09_stringize_spec, after the repair of C09-stringize-backslash-outside-literal in /repo; the formula before the repair '
                  'is kept in Findings/C09.lean as a repaired witness); and the buffer that stringize() hands to tokenize() is exactly one '
                  'string literal whenever every token of the argument is literal-safe (C09_stringize_wellformed: where the model leaves '
                  'the re-tokenization out, nothing is lost; elsewhere the behaviour is undefined).  '
                  'Findings/C09.lean keeps the repaired defects as kernel-checked witnesses of the OLD subst (t(,,), `a x##y##z` with (,,3), '
                  'EXAMPLE 5) and shows why the all-constructs statement C09_subst_spec_Statement is not a theorem: outside C11 chibicc '
                  'pre-expands the argument of GNU `, ## __VA_ARGS__` and tests __VA_OPT__ on the unexpanded argument (latitude, not compared).  On every run the model is tied to the real chibicc -E (spellings, line structure, spacing, diagnostic '
                  'kind), to the real static subst() called in-process on ~2,300 single invocations (token list before rescanning, with flags) '
                  'and to the real preprocess2 run in-process (hide set of every output token), and chibicc is compared with gcc -E -P '
                  'and the Lean specification, on ~5,800 (quick) generated inputs, and with the results printed in C11 6.10.3.5 EXAMPLE 3, 4, 5, 7.',
    'level_note': 'Partial: C09_subst_spec covers C11 replacement lists only (no GNU `, ## __VA_ARGS__`, no `__VA_OPT__(`: specified in '
                  'Spec/PPSpec.lean and tied by the check, not proved; no `## #`), and only in the direction "specification defines it => '
                  'subst produces it"; no known finding is left (C09-placemarker and C09-stringize-backslash-outside-literal were repaired in /repo); '
                  'C09_terminates and C09_blue on text without directive lines (the table is fixed while the text is scanned; `fuelBound` is a '
                  'tower in the number of table entries, far from tight).  Trusted: Lean kernel '
                  '(axioms audited each run), the hand model (tied by differential testing of chibicc -E and of the in-process '
                  'preprocess2 with the hide sets of the output tokens), tools/extract/pp.py (pins the shape of subst/expand_macro/paste/... and regenerates punctuator and '
                  'init_macros tables), the python tokenizer, Spec/PPSpec.lean (validated against gcc 12 on every input of every run). '
                  '#include/#if are C10; where C11 6.10.3.4p4 leaves nesting unspecified and for GNU `, ##` chibicc and gcc are not compared.',
    'technique': 'Lean 4: structural induction over replacement lists with a simulation invariant between the one-pass C algorithm and the '
                 'phase-structured specification, invariant transfer through subst, a lexicographic level measure (hide-set rank measure '
                 'for the sharper object-like bound) turned into an explicit fuel function for termination; '
                 'translator-pinned source shapes; differential correspondence with chibicc -E and with preprocess2 in-process '
                 '(hide sets); gcc -E -P and an executable C11 6.10.3 specification as two independent oracles (a mismatch is a violation only when both agree against chibicc)',
    'design_ref': 'DESIGN.md section 6, C09',
}
