"""C03 x C01 - whole functions of the integer fragment (theorem C03_function_correct_partial, Model/C03Fun.lean).

Leg `fun` of ./check C03:
  (t) text      `compileFn` (gen_stmt's skeleton, every expression hole filled with C01's compileJ, cmp_zero + je/jne, ONE count()
                for statements and expressions, new_unique_name() for break/continue labels, hidden temporaries numbered through
                the function) printed by `drv_c03 fun`  ==  the lines `chibicc -S` prints between the prologue and `.L.return.f:`
                (instructions, label definitions, jump targets, exact label numbers), plus: the frame chibicc lays out satisfies
                `layoutOK`, the number of hidden temporaries, the counters after the function, freshness of all labels;
  (r) run       the abstract machine `execF` (Lean)  ==  the model machine `runF` on the model's code (the theorem's own statement,
                executed)  ==  the program compiled by chibicc  ==  the program compiled by gcc -O0, on generated arguments, for
                every generated function that is conflict-free and whose execution has no undefined behaviour.
Generated functions: `R f(T0 v0, ..) { ... }` over the nine integer types: expression statements, blocks, if/else, while,
for (init; c; inc), do-while, switch / case / default, break, continue, return - loops nested to depth 3, every loop bounded by a counter variable only the
loop's own condition / third clause changes; expressions from C01's generator (all operators, && || ?: , = op= ++ --) and from a
generator that avoids undefined behaviour (so that most functions are also run).
"""
import os, re, hashlib
from .framework import *
from . import C01 as E1

TYS = E1.TYS
CNAME = E1.CNAME

# ------------------------------------------------------------------ statements (tuples)

STMT_KINDS = ('SKIP', 'BRK', 'CONT', 'X', 'RET', 'S', 'IF', 'WHILE', 'FOR', 'DO', 'SW', 'CASE', 'DEF')
COMPOUND_KINDS = ('S', 'IF', 'WHILE', 'FOR', 'DO', 'SW', 'CASE', 'DEF')

def stmt_prefix(s):
    k = s[0]
    if k in ('SKIP', 'BRK', 'CONT'):
        return k
    if k == 'X':
        return 'X ' + E1.rp(s[1])
    if k == 'RET':
        return 'RET ' + E1.rp(s[1])
    if k == 'S':
        return f'S {stmt_prefix(s[1])} {stmt_prefix(s[2])}'
    if k == 'IF':
        return f'IF {E1.rp(s[1])} {stmt_prefix(s[2])} {stmt_prefix(s[3])}'
    if k == 'WHILE':
        return f'WHILE {E1.rp(s[1])} {stmt_prefix(s[2])}'
    if k == 'FOR':      # ('FOR', init|None, cond, inc|None, body)
        return f"FOR {E1.rp(s[1]) if s[1] else '-'} {E1.rp(s[2])} {E1.rp(s[3]) if s[3] else '-'} {stmt_prefix(s[4])}"
    if k == 'DO':
        return f'DO {stmt_prefix(s[1])} {E1.rp(s[2])}'
    if k == 'SW':
        return f'SW {E1.rp(s[1])} {stmt_prefix(s[2])}'
    if k == 'CASE':     # ('CASE', lo, hi, stmt); the constants as C longs
        aslong = lambda v: v - (1 << 64) if v >= 1 << 63 else v
        return f'CASE {aslong(s[1])} {aslong(s[2])} {stmt_prefix(s[3])}'
    if k == 'DEF':
        return f'DEF {stmt_prefix(s[1])}'
    raise ValueError(s)

def stmt_c(s, salt=0):
    k = s[0]
    if k == 'SKIP':
        return ';' if salt % 2 else '{}'
    if k == 'BRK':
        return 'break;'
    if k == 'CONT':
        return 'continue;'
    if k == 'X':
        return E1.tie_c(s[1]) + ';'
    if k == 'RET':
        return 'return ' + E1.tie_c(s[1]) + ';'
    if k == 'S':
        return '{ ' + stmt_c(s[1], salt + 1) + ' ' + stmt_c(s[2], salt + 2) + ' }'
    if k == 'IF':
        th = stmt_c(s[2], salt + 1)
        if s[2][0] in ('IF', 'WHILE', 'FOR', 'SW', 'CASE', 'DEF'):             # no dangling else
            th = '{ ' + th + ' }'
        t = f'if ({E1.tie_c(s[1])}) {th}'
        if s[3][0] == 'SKIP' and salt % 3 != 1:
            return t                                      # no else part: `node->els == NULL`, nothing is emitted for it
        return t + ' else ' + stmt_c(s[3], salt + 2)
    if k == 'WHILE':
        return f'while ({E1.tie_c(s[1])}) {stmt_c(s[2], salt + 1)}'
    if k == 'FOR':
        return (f"for ({E1.tie_c(s[1]) if s[1] else ''}; {E1.tie_c(s[2])}; {E1.tie_c(s[3]) if s[3] else ''}) "
                f"{stmt_c(s[4], salt + 1)}")
    if k == 'DO':
        return f'do {stmt_c(s[1], salt + 1)} while ({E1.tie_c(s[2])});'
    if k == 'SW':
        return f'switch ({E1.tie_c(s[1])}) {stmt_c(s[2], salt + 1)}'
    if k == 'CASE':
        if s[1] == s[2]:
            return f'case {E1.clit(s[1])}: {stmt_c(s[3], salt + 1)}'
        return f'case {E1.clit(s[1])} ... {E1.clit(s[2])}: {stmt_c(s[3], salt + 1)}'
    if k == 'DEF':
        return f'default: {stmt_c(s[1], salt + 1)}'
    raise ValueError(s)

def stmt_exprs(s):
    for x in s[1:]:
        if isinstance(x, tuple):
            if x[0] in STMT_KINDS:
                yield from stmt_exprs(x)
            else:
                yield x

def stmt_forms(s, acc=None):
    acc = set() if acc is None else acc
    acc.add(s[0])
    for x in s[1:]:
        if isinstance(x, tuple) and x[0] in STMT_KINDS:
            stmt_forms(x, acc)
    return acc

def count_labels(s):
    """count() draws of the function: one per if / loop, one per && || ?: (parse.c casts the operand of return: no draw)"""
    n = sum(E1.count_labels(e) for e in stmt_exprs(s))
    def go(t):
        k = 1 if t[0] in ('IF', 'WHILE', 'FOR', 'DO') else 0
        return k + sum(go(x) for x in t[1:] if isinstance(x, tuple) and x[0] in COMPOUND_KINDS)
    return n + go(s)

def count_uniq(s):
    """new_unique_name() draws: break + continue label of a loop, break label of a switch, the label of a case / default"""
    k = 2 if s[0] in ('WHILE', 'FOR', 'DO') else 1 if s[0] in ('SW', 'CASE', 'DEF') else 0
    return k + sum(count_uniq(x) for x in s[1:] if isinstance(x, tuple) and x[0] in COMPOUND_KINDS)

# ------------------------------------------------------------------ generators

SAFE_BIN = ['add', 'sub', 'mul', 'band', 'bor', 'bxor', 'eq', 'ne', 'lt', 'le', 'gt', 'ge']
SAFE_COMPOUND = ['add', 'sub', 'mul', 'band', 'bor', 'bxor']

def safe_lit(rng):
    t = rng.choice(['i32', 'i32', 'u32', 'i64', 'u64'])
    return ('L', t, rng.choice([0, 1, 2, 3, 5, 7, rng.randint(0, 40)]))

def gen_safe(rng, depth, tys, readable, writable):
    """an expression that avoids undefined behaviour in most runs: no / % << >>, small literals; a variable is modified at most
    once and then not otherwise used (`writable` is consumed; the caller removes modified variables from `readable`)"""
    if depth == 0 or rng.random() < 0.15:
        if writable and rng.random() < 0.25:
            i = writable.pop(rng.randrange(len(writable)))
            if i in readable:
                readable.remove(i)
            k = rng.choice(['PREINC', 'PREDEC', 'POSTINC', 'POSTDEC'])
            if tys[i] == 'bool' and k.startswith('POST'):
                k = 'PREINC'
            return (k, i)
        if readable and rng.random() < 0.7:
            return ('V', rng.choice(readable))
        return safe_lit(rng)
    sub = lambda: gen_safe(rng, depth - 1, tys, readable, writable)
    x = rng.random()
    if x < 0.22:
        y = rng.random()
        if y < 0.35:
            return ('AND', sub(), sub())
        if y < 0.7:
            return ('OR', sub(), sub())
        return ('C', sub(), sub(), sub())
    if x < 0.40 and writable:
        i = writable.pop(rng.randrange(len(writable)))
        if i in readable:
            readable.remove(i)
        if rng.random() < 0.5:
            return ('SET', i, sub())
        return ('OPSET', rng.choice(SAFE_COMPOUND), i, sub())
    if x < 0.46:
        return ('SEQ', sub(), sub())
    if x < 0.80:
        return ('B', rng.choice(SAFE_BIN), sub(), sub())
    if x < 0.90:
        return ('U', rng.choice(['lognot', 'bitnot', 'plus', 'neg']), sub())
    return ('CAST', rng.choice(['u8', 'u16', 'u32', 'u64', 'i32', 'i64', 'bool']), sub())

class FunGen:
    def __init__(self, rng, wild):
        self.rng = rng
        self.wild = wild
        nv = rng.randrange(1, 4)
        self.nc = 3                                         # loop counters: one per nesting level
        self.tys = [rng.choice(TYS if wild or rng.random() < 0.3 else ['u8', 'u16', 'u32', 'u64', 'u32', 'i64', 'bool'])
                    for _ in range(nv)] + [rng.choice(['i32', 'i32', 'i64', 'i16', 'i8']) for _ in range(self.nc)]
        self.nv = nv
        self.ret = rng.choice(TYS)

    def expr(self, depth, cond=False):
        rng = self.rng
        if self.wild:
            # C01's generator over the non-counter variables (conflicts and undefined behaviour possible: text tie only then)
            return E1.gen_tie(rng, depth, self.tys[:self.nv], effects=rng.random() < 0.6, jumps=rng.random() < 0.6)
        readable = list(range(self.nv + self.nc))
        writable = list(range(self.nv)) if rng.random() < (0.4 if cond else 0.8) else []
        rng.shuffle(writable)
        writable = writable[:2]
        return gen_safe(rng, depth, self.tys, readable, writable)

    def case_value(self, P, used):
        """a case constant or GNU range in the range of the promoted controlling type `P` (None: type unknown, small constants
        only), disjoint from the ones used; `used` is a list of (lo, hi)"""
        rng = self.rng
        if P is None:
            cands = [0, 1, 2, 3, 4, 5, 6, 7]
        else:
            lo, hi = E1.tmin(P), E1.tmax(P)
            cands = [v for v in [0, 1, 2, 3, 4, 5, 7, -1, -2, -128, 255, 256, 65535, 65536, 2147483647, -2147483648, 2147483648,
                                 4294967295, 4294967296, 4294967297, -4294967296, -4294967295, 9223372036854775807,
                                 -9223372036854775807, 9223372036854775808, 18446744073709551615] if lo <= v <= hi]
        for _ in range(20):
            a = rng.choice(cands)
            b = a
            if rng.random() < 0.3:
                b = rng.choice(cands) if rng.random() < 0.5 else a + rng.choice([1, 2, 5, 100, 70000, 5000000000])
                if P is not None and not (E1.tmin(P) <= b <= E1.tmax(P)):
                    b = a
                if P == 'u64' and (a < (1 << 63)) != (b < (1 << 63)):
                    b = a        # recorded latitude of C03: an unsigned long range crossing 2^63
                if b < a:
                    a, b = b, a
            if all(b < x or y < a for x, y in used):
                used.append((a, b))
                return a, b
        return None

    def switch(self, depth, level, inloop):
        rng = self.rng
        y = rng.random()
        if y < 0.4:
            i = rng.randrange(self.nv + self.nc)
            e, T = ('V', i), self.tys[i]
        elif y < 0.85 or not self.wild:
            T = rng.choice(TYS)
            e = ('CAST', T, self.expr(rng.randrange(0, 3), cond=True))
        else:
            e, T = self.expr(rng.randrange(0, 3), cond=True), None
        P = None if T is None else ('u32' if T == 'u32' else T if T in ('i64', 'u64') else 'i32')
        used, items, have_default = [], [], False
        for _ in range(rng.randrange(1, 6)):
            st = self.stmt(max(depth - 1, 0), level, inloop, True)
            y = rng.random()
            if y < 0.55:
                v = self.case_value(P, used)
                if v is not None:
                    st = ('CASE', v[0], v[1], st)
            elif y < 0.7 and not have_default:
                have_default = True
                st = ('DEF', st)
            elif y < 0.76 and self.wild:
                # outside the abstract machine's shape (two labels on one statement / a label inside a nested statement):
                # text tie only
                v = self.case_value(P, used)
                if v is not None:
                    if not have_default and rng.random() < 0.5:
                        st, have_default = ('CASE', v[0], v[1], ('DEF', st)), True
                    else:
                        st = ('IF', ('V', 0), ('CASE', v[0], v[1], st), ('SKIP',))
            items.append(st)
        body = ('SKIP',)
        for it in reversed(items):
            body = ('S', it, body)
        return ('SW', e, body)

    def stmt(self, depth, level, inloop, insw=False):
        rng = self.rng
        x = rng.random()
        if depth == 0 or x < 0.22:
            y = rng.random()
            if (inloop or insw) and y < 0.12:
                return ('BRK',)
            if inloop and y < 0.24:
                return ('CONT',)
            if y < 0.30:
                return ('RET', self.expr(rng.randrange(0, 3)))
            if y < 0.36:
                return ('SKIP',)
            return ('X', self.expr(rng.randrange(1, 4)))
        sub = lambda: self.stmt(depth - 1, level, inloop, insw)
        if x < 0.30:
            return self.switch(depth, level, inloop)
        if x < 0.42:
            n = rng.randrange(2, 5)
            items = [sub() for _ in range(n)]
            s = ('SKIP',) if rng.random() < 0.5 else items.pop()
            for it in reversed(items):
                s = ('S', it, s)
            return s
        if x < 0.62 or level >= self.nc:
            return ('IF', self.expr(rng.randrange(0, 3), cond=True), sub(), sub() if rng.random() < 0.6 else ('SKIP',))
        k = self.nv + level                                  # this loop's counter
        n = rng.randrange(0, 4)
        body = self.stmt(depth - 1, level + 1, True, False)
        lim = ('L', 'i32', n)
        y = rng.random()
        if y < 0.35:
            cond = rng.choice([('B', 'gt', ('POSTDEC', k), ('L', 'i32', 0)), ('B', 'gt', ('PREDEC', k), ('L', 'i32', 0)),
                               ('AND', ('B', 'gt', ('POSTDEC', k), ('L', 'i32', 0)), self.expr(1, cond=True))
                               if not self.wild else ('B', 'gt', ('POSTDEC', k), ('L', 'i32', 0))])
            return ('S', ('X', ('SET', k, lim)), ('S', ('WHILE', cond, body), ('SKIP',)))
        if y < 0.75:
            cond = ('B', 'lt', ('V', k), lim)
            inc = rng.choice([('POSTINC', k), ('PREINC', k), ('OPSET', 'add', k, ('L', 'i32', 1)),
                              ('SEQ', ('PREINC', k), self.expr(1)) if not self.wild else ('POSTINC', k)])
            z = rng.random()
            if z < 0.5:         # the counter is set in the first clause (possibly together with another effect)
                init = ('SET', k, ('L', 'i32', 0)) if self.wild or z < 0.3 else ('SEQ', ('SET', k, ('L', 'i32', 0)), self.expr(1))
                return ('FOR', init, cond, inc, body)
            if z < 0.6:         # third clause empty: the body counts
                return ('S', ('X', ('SET', k, ('L', 'i32', 0))),
                        ('S', ('FOR', None, ('B', 'lt', ('POSTINC', k), lim), None, body), ('SKIP',)))
            return ('S', ('X', ('SET', k, ('L', 'i32', 0))), ('S', ('FOR', None, cond, inc, body), ('SKIP',)))
        cond = rng.choice([('B', 'gt', ('PREDEC', k), ('L', 'i32', 0)), ('B', 'lt', ('L', 'i32', 0), ('PREDEC', k))])
        return ('S', ('X', ('SET', k, lim)), ('S', ('DO', body, cond), ('SKIP',)))

    def function(self):
        rng = self.rng
        body = self.stmt(rng.randrange(2, 6), 0, False)
        final = ('RET', self.expr(2) if self.wild else
                 gen_safe(rng, 2, self.tys, list(range(self.nv + self.nc)), []))
        return ('S', body, ('S', final, ('SKIP',)))


def fixed_functions():
    """every statement form once in a directed shape (labels of statements and of expressions interleaved, temporaries of
    the third clause of a `for` before those of its body, break/continue through nested ifs, a loop in a loop)"""
    V, L = (lambda i: ('V', i)), (lambda v: ('L', 'i32', v))
    out = []
    # the function of the Lean non-vacuity example
    out.append((['i8', 'u32'], 'i64', [-3, 7],
        ('S', ('WHILE', V(0), ('S', ('X', ('OPSET', 'add', 1, V(0))),
               ('S', ('IF', ('B', 'eq', V(1), ('L', 'u32', 2)), ('S', ('X', ('POSTINC', 0)), ('S', ('CONT',), ('SKIP',))), ('SKIP',)),
                ('S', ('X', ('POSTINC', 0)), ('SKIP',))))),
         ('S', ('DO', ('X', ('SET', 1, ('B', 'mul', V(1), ('L', 'u32', 3)))), L(0)),
          ('S', ('FOR', ('SET', 0, L(0)), ('B', 'lt', V(1), ('L', 'u32', 10)), ('POSTINC', 1), ('IF', ('B', 'eq', V(1), ('L', 'u32', 5)), ('BRK',), ('SKIP',))),
           ('S', ('RET', ('C', ('OR', V(1), V(0)), ('L', 'i64', 7), V(1))), ('SKIP',)))))))
    # labels: if(&&) { while(||) { if (?:) ... } } ; temporaries: for (; ; v1 += ..) { v0 *= .. }
    out.append((['u32', 'u64', 'i32'], 'u64', [3, 5, 2],
        ('S', ('IF', ('AND', V(0), V(1)),
               ('S', ('X', ('SET', 2, L(3))),
                ('S', ('WHILE', ('OR', ('B', 'gt', ('POSTDEC', 2), L(0)), ('B', 'eq', V(0), ('L', 'u32', 99))),
                       ('IF', ('C', V(1), ('B', 'lt', V(0), ('L', 'u32', 6)), L(0)), ('X', ('OPSET', 'add', 0, ('L', 'u32', 2))), ('CONT',))),
                 ('SKIP',))),
               ('X', ('SET', 1, ('L', 'u64', 1)))),
         ('S', ('X', ('SET', 2, L(0))),
          ('S', ('FOR', ('C', V(1), ('OPSET', 'add', 0, ('L', 'u32', 0)), ('L', 'u32', 1)), ('B', 'lt', V(2), L(3)), ('OPSET', 'add', 2, ('C', V(0), L(1), L(1))),
                 ('S', ('X', ('OPSET', 'mul', 1, ('L', 'u64', 3))), ('S', ('IF', ('B', 'gt', V(1), ('L', 'u64', 100)), ('BRK',), ('SKIP',)), ('SKIP',)))),
           ('S', ('RET', ('B', 'add', V(1), V(0))), ('SKIP',)))))))
    # do-while with continue (jumps to the condition), nested loops with break of the inner one only, return inside a loop
    out.append((['u16', 'u8', 'i32', 'i64'], 'i32', [0, 0, 0, 0],
        ('S', ('X', ('SET', 2, L(3))),
         ('S', ('DO', ('S', ('X', ('PREINC', 0)),
                       ('S', ('IF', ('B', 'eq', V(0), ('L', 'i32', 2)), ('CONT',), ('SKIP',)),
                        ('S', ('X', ('SET', 3, ('L', 'i64', 4))),
                         ('S', ('WHILE', ('B', 'gt', ('PREDEC', 3), ('L', 'i64', 0)),
                                ('S', ('X', ('POSTINC', 1)), ('S', ('IF', ('B', 'ge', V(1), L(5)), ('BRK',), ('SKIP',)), ('SKIP',)))),
                          ('S', ('IF', ('B', 'gt', V(1), L(6)), ('RET', ('B', 'add', V(0), V(1))), ('SKIP',)), ('SKIP',)))))),
                ('B', 'gt', ('PREDEC', 2), L(0))),
          ('S', ('RET', ('B', 'sub', V(1), V(0))), ('SKIP',))))))
    # switch: char controlling expression compared in 32 bits, negative constants, constants above 32 bits through %rdi,
    # fall-through, default in the middle, break, continue out of a switch in a loop, a switch entered at no label
    def chain(*items):
        s = ('SKIP',)
        for it in reversed(items):
            s = ('S', it, s)
        return s
    out.append((['i8', 'i64', 'u32', 'i32'], 'i64', [-2, 4294967297, 3, 0],
        chain(('X', ('SET', 3, L(3))),
              ('WHILE', ('B', 'gt', ('POSTDEC', 3), L(0)),
               chain(('SW', V(0), chain(('CASE', 1, 1, ('X', ('SET', 1, L(5)))), ('CASE', -2, -2, ('X', ('POSTINC', 1))), ('BRK',),
                                        ('DEF', ('X', ('SET', 1, L(9)))), ('CASE', 100, 2147483647, ('X', ('SET', 2, ('L', 'u32', 1)))),
                                        ('CASE', -2147483648, -100, ('X', ('SET', 2, ('L', 'u32', 4)))))),
                     ('SW', V(1), chain(('CASE', 4294967298, 4294967298, ('X', ('OPSET', 'add', 2, ('L', 'u32', 2)))), ('CONT',),
                                        ('CASE', 7, 4294967296, ('X', ('SET', 2, ('L', 'u32', 2)))),
                                        ('CASE', -9223372036854775807, -5000000000, ('SKIP',)),
                                        ('CASE', 4294967299, 9223372036854775807, ('SKIP',)))),
                     ('X', ('POSTINC', 0)))),
              ('SW', V(2), chain(('CASE', 3000000000, 4294967295, ('X', ('SET', 1, L(3)))), ('DEF', ('SKIP',)))),
              ('SW', ('CAST', 'u64', V(0)), chain(('CASE', 18446744073709551615, 18446744073709551615, ('X', ('PREINC', 1))),
                                                 ('CASE', 9223372036854775808, 18446744073709551613, ('X', ('PREDEC', 1))))),
              ('RET', ('B', 'add', V(1), V(2))))))
    return out

# ------------------------------------------------------------------ the leg

def fn_lines(asm, name):
    """lines of function `name` from its label to `.L.return.name:` (inclusive), without .loc, blanks normalised"""
    out, on = [], False
    for l in asm.splitlines():
        if l == f'{name}:':
            on = True
            continue
        if on:
            t = ' '.join(l.split())
            if t.startswith('.loc'):
                continue
            out.append(t)
            if t == f'.L.return.{name}:':
                return out
    return None

def pick_args(rng, tys):
    vals = []
    for t in tys:
        if t == 'bool':
            vals.append(rng.randrange(2))
        elif rng.random() < 0.8:
            vals.append(rng.randrange(0, 9) if t not in E1.SIGNED else rng.randrange(-4, 9))
        else:
            vals.append(rng.choice(E1.boundary(t)))
    return vals

def c_function(name, tys, ret, body):
    params = ', '.join(f'{CNAME[t]} v{i}' for i, t in enumerate(tys))
    return f'{CNAME[ret]} {name}({params}) {stmt_c(body)}\n'

def represents(ret, rax, v):
    if ret in ('i64', 'u64', 'bool'):
        return rax == v % (1 << 64)
    return rax % (1 << 32) == v % (1 << 32)

def as_long(ret, v):
    """what `printf("%ld", (long)f(..))` prints for the value `v` of type `ret`"""
    v %= 1 << 64
    return v - (1 << 64) if v >= 1 << 63 else v

def fun_leg(ctx, corr, N, tag='fun', search=False):
    rng = ctx.rng
    funs = []
    fixed = fixed_functions() if not search else []
    for k in range(max(N, len(fixed))):
        if k < len(fixed):
            tys, ret, vals, body = fixed[k]
        else:
            g = FunGen(rng, wild=(k % 3 == 2 and not search))
            tys, ret, body = g.tys, g.ret, g.function()
            vals = pick_args(rng, tys)
        funs.append((f'{tag}_{k}', tys, ret, vals, body))
    src = ''.join(c_function(name, tys, ret, body) for name, tys, ret, vals, body in funs)
    d = os.path.join(ctx.scratch, tag)
    os.makedirs(d, exist_ok=True)
    path = os.path.join(d, 'text.c')
    open(path, 'w').write(src)
    rc_, asm, err = sh([ctx.cc, '-S', '-o', '-', path], timeout=300)
    if rc_ != 0:
        corr.violations.append({'what': 'chibicc -S fails on functions of the integer fragment (if/while/for/do/break/continue/return '
                                        'over integer expressions)', 'input': src[:3000], 'expected': 'compiles', 'got': err[-400:]})
        return False
    # count(): one counter per translation unit, in the order of emission (read from the text); new_unique_name(): in the order
    # of parsing = source order, two names per function for __func__ / __FUNCTION__, then break + continue label per loop
    byname = {f[0]: f for f in funs}
    c0, ctr = {}, 1
    for nm in re.findall(r'^(\w+):$', asm, re.M):
        if nm in byname and nm not in c0:
            c0[nm] = ctr
            ctr += count_labels(byname[nm][4])
    u0, u = {}, 0
    for name, tys, ret, vals, body in funs:
        u += 2
        u0[name] = u
        u += count_uniq(body)
    req, live = '', []
    for name, tys, ret, vals, body in funs:
        lines = fn_lines(asm, name)
        if search and (lines is None or len(lines) < 5 + len(tys)):
            lines = ['push %rbp', 'mov %rsp, %rbp', 'sub $0, %rsp', ''] + [f'mov %rax, {-8 * (i + 1)}(%rbp)' for i in range(len(tys))] + ['']
        c0.setdefault(name, 1)
        if lines is None or len(lines) < 5 + len(tys):
            corr.disagreements.append({'kind': 'fun-text', 'function': name, 'note': 'function not found in chibicc -S output'})
            return False
        offs = []
        for i, l in enumerate(lines[4:4 + len(tys)]):
            mm = re.fullmatch(r'mov %\w+, (-?\d+)\(%rbp\)', l)
            if not mm and search:
                offs.append(str(-8 * (i + 1)))
                continue
            if not mm:
                corr.disagreements.append({'kind': 'fun-text', 'function': name, 'note': 'prologue of unknown shape: ' + l})
                return False
            offs.append(mm.group(1))
        mm = re.fullmatch(r'sub \$(\d+), %rsp', lines[2]) or (re.fullmatch(r'sub \$(\d+), %rsp', 'sub $0, %rsp') if search else None)
        if not mm:
            corr.disagreements.append({'kind': 'fun-text', 'function': name, 'note': 'prologue of unknown shape: ' + lines[2]})
            return False
        body_lines = E1.body_instrs(lines[4 + len(tys):])
        temps = sorted({int(x) for i in body_lines for x in re.findall(r'(-?\d+)\(%rbp\)', i)} - {int(o) for o in offs})
        req += (f"{','.join(tys)} {','.join(offs)} {','.join(str(x) for x in temps) or '-'} {mm.group(1)} {ret} {c0[name]} "
                f"{u0[name]} {name} {','.join(str(v) for v in vals)} 20000 | {stmt_prefix(body)}\n")
        live.append((name, tys, ret, vals, body, body_lines, len(temps)))
    model = ctx.driver('fun', req).splitlines()
    if len(model) != len(live):
        corr.disagreements.append({'kind': 'driver', 'note': f'drv_c03 fun answered {len(model)} lines for {len(live)} functions'})
        return False
    runnable = []
    for (name, tys, ret, vals, body, got, ntemps), m in zip(live, model):
        corr.evaluations += 1
        ctext = c_function(name, tys, ret, body)
        parts = [p.strip() for p in m.split(' | ')]
        w = parts[0].split()
        if search:
            # looking for a failing input: the abstract machine is the oracle, the model's code is not needed
            spec = parts[2].split() if len(parts) == 4 else ['bad']
            if w and w[0] in ('ok', 'none') and spec[0] == 'ret' and (w[4] if w[0] == 'ok' else w[1]) == '1':
                runnable.append((name, tys, ret, vals, body, int(spec[1])))
            continue
        if w[0] != 'ok' or len(parts) != 4 or len(w) != 8:
            corr.disagreements.append({'kind': 'fun-text', 'c': ctext, 'note': 'compileFn does not handle the function: ' + m[:120]})
            return False
        K, c1, u1, nc, lay, fresh, depth = int(w[1]), int(w[2]), int(w[3]), w[4], w[5], w[6], int(w[7])
        want = parts[1].split(';;') if parts[1] else []
        forms = stmt_forms(body)
        corr.count('fun-text:functions')
        for f in sorted(forms & {'IF', 'WHILE', 'FOR', 'DO', 'BRK', 'CONT', 'SW', 'CASE', 'DEF'}):
            corr.count('fun-form:' + f)
        if len(got) > 60 and forms & {'WHILE', 'FOR', 'DO'}:
            corr.nontrivial.add('fun:' + hashlib.sha1(ctext.encode()).hexdigest())
        bad = None
        if got != want:
            j = next((i for i in range(min(len(got), len(want))) if got[i] != want[i]), min(len(got), len(want)))
            bad = {'first_difference_at': j, 'chibicc': got[max(0, j - 2):j + 4], 'model': want[max(0, j - 2):j + 4],
                   'first_label_number': c0[name], 'first_unique_name': u0[name],
                   'note': 'Model/C03Fun compileFn (the object of C03_function_correct_partial: gen_stmt with compileJ in every '
                           'expression hole) does not print what chibicc -S prints (instructions, labels, jump targets)'}
        elif c1 != c0[name] + count_labels(body):
            bad = {'note': f'label counter: the model leaves count() at {c1}, the function draws {count_labels(body)} numbers from {c0[name]}'}
        elif u1 != u0[name] + count_uniq(body):
            bad = {'note': f'unique names: the model leaves new_unique_name() at {u1}, the function draws {count_uniq(body)} names from {u0[name]}'}
        elif E1.push_depth(got) != depth:
            bad = {'note': f'stack slots: chibicc nests push {E1.push_depth(got)} deep, depthF = {depth}'}
        elif ntemps != K:
            bad = {'note': f'hidden temporaries: chibicc uses {ntemps} frame slots besides the parameters, the model {K}'}
        elif lay != '1':
            bad = {'note': 'frame layout: variables and hidden temporaries do not lie pairwise disjoint inside the frame (layoutOK, '
                           'hypothesis FrameX of C03_function_correct_partial)'}
        elif fresh != '1':
            bad = {'note': 'a label is defined twice in the model code (contradicts C03_function_labels_fresh)'}
        if bad:
            bad.update({'kind': 'fun-text', 'c': ctext})
            corr.disagreements.append(bad)
            return False
        spec, mach = parts[2].split(), parts[3].split()
        if nc != '1':
            corr.count('fun-run:skipped_conflict')
            continue
        if spec[0] in ('ub', 'timeout', 'stray', 'normal', 'unsupported'):
            corr.count('skipped_ub' if spec[0] == 'ub' else 'fun-run:skipped_' + spec[0])
            continue
        v = int(spec[1])
        # the theorem's statement, executed: the model machine on the model code ends with %rax representing v and the frame
        # holding the abstract machine's store
        if mach[0] != 'ok' or not represents(ret, int(mach[1]), v) or mach[2] != spec[2]:
            corr.disagreements.append({'kind': 'fun-run', 'c': ctext, 'args': vals, 'abstract_machine': parts[2], 'model_machine': parts[3],
                                       'note': 'runF on compileFn\'s code disagrees with execF although the function is inside the '
                                               'hypotheses of C03_function_correct_partial'})
            return False
        runnable.append((name, tys, ret, vals, body, v))
    corr.extra['functions_compared_with_chibicc_S'] = corr.extra.get('functions_compared_with_chibicc_S', 0) + len(live)
    if not runnable:
        return True
    # (r) the compiled program and gcc
    main = '#include <stdio.h>\nint main(void) {\n' + ''.join(
        f'  printf("%ld\\n", (long){name}({", ".join(E1.clit(v) for v in vals)})); fflush(stdout);\n' for name, tys, ret, vals, body, v in runnable) + '  return 0;\n}\n'
    rsrc = ''.join(c_function(name, tys, ret, body) for name, tys, ret, vals, body, v in runnable) + main
    rp = os.path.join(d, 'run.c')
    open(rp, 'w').write(rsrc)
    r1 = sh([ctx.cc, '-c', '-o', rp + '.o', rp], timeout=300)
    r2 = sh(['gcc', '-no-pie', '-o', rp + '.cc', rp + '.o'], timeout=300) if r1[0] == 0 else r1
    r3 = sh(['gcc', '-O0', '-w', '-fwrapv', '-o', rp + '.gcc', rp], timeout=300)
    if r2[0] != 0:
        corr.violations.append({'what': 'chibicc fails to build a program of integer-fragment functions', 'input': rsrc[:3000],
                                'expected': 'compiles and links', 'got': (r2[2] or '')[-400:]})
        return False
    oc = sh([rp + '.cc'], timeout=30)
    og = sh([rp + '.gcc'], timeout=30) if r3[0] == 0 else (1, '', '')
    txt = lambda o: o.decode(errors='replace') if isinstance(o, bytes) else (o or '')
    lc, lg = txt(oc[1]).split(), txt(og[1]).split()
    for i, (name, tys, ret, vals, body, v) in enumerate(runnable):
        corr.evaluations += 1
        exp = str(as_long(ret, v))
        c = lc[i] if i < len(lc) else f'(no output: ' + ('does not terminate within 30 s' if oc[0] == -9 else f'exit {oc[0]}') + ')'
        gv = lg[i] if i < len(lg) else None
        corr.count('fun-run:compared')
        if gv is not None and gv != exp:
            corr.disagreements.append({'kind': 'fun-spec-vs-gcc', 'c': c_function(name, tys, ret, body), 'args': vals, 'execF': exp, 'gcc': gv,
                                       'note': 'the abstract machine execF / evalE disagrees with gcc -O0 on a function without undefined behaviour'})
            return False
        if c != exp:
            one = (c_function(name, tys, ret, body) + '#include <stdio.h>\nint main(void) { printf("%ld\\n", (long)' +
                   f'{name}({", ".join(E1.clit(x) for x in vals)})); return 0; }}\n')
            corr.violations.append({'what': 'a function of the integer fragment (statements of C03 over expressions of C01) returns a '
                                            'value different from the C11 abstract machine', 'input': one, 'args': vals,
                                    'expected': [exp], 'got': [c], 'gcc': gv, 'kind': 'fun'})
            return False
    return True
