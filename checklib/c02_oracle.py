"""Program generators and comparison for the end-to-end oracle of C02 (used by checklib/C02.py).

Every generated program prints one line per case: `<key> <hex bytes of the result object> ...`.  The same text is
compiled by the snapshot chibicc and by gcc (-std=c11 -O0), both binaries are run, and the lines are compared.
Operands are bit patterns copied into volatile objects (so that no compiler folds anything and so that NaN
payloads, denormals and signed zeros reach the operation unchanged); results are dumped as raw object bytes
(long double: the 10 value bytes).  Cases whose behaviour C11 leaves undefined (floating -> integer with the
integral part out of range, 6.3.1.4) are not generated; they are counted as `skipped_ub`.
"""
import os, hashlib
from fractions import Fraction
from .c02_fp import *

ITYS = ['bool', 'i8', 'i16', 'i32', 'i64', 'u8', 'u16', 'u32', 'u64']
FTYS = ['f32', 'f64', 'f80']
ATYS = ITYS + FTYS
IBITS = {'bool': 1, 'i8': 8, 'i16': 16, 'i32': 32, 'i64': 64, 'u8': 8, 'u16': 16, 'u32': 32, 'u64': 64}
ISIGNED = {'i8', 'i16', 'i32', 'i64'}
CNAME = {'bool': '_Bool', 'i8': 'signed char', 'i16': 'short', 'i32': 'int', 'i64': 'long', 'u8': 'unsigned char',
         'u16': 'unsigned short', 'u32': 'unsigned int', 'u64': 'unsigned long', 'f32': 'float', 'f64': 'double',
         'f80': 'long double'}
# (the three former known findings of C02 -- unsigned long -> float at >= 2^63, floating -> unsigned long at >= 2^63, literals
#  rounded twice through strtold -- were repaired in /repo: there is no known region any more, every mismatch is a VIOLATION)


def tsize(t):
    return FMT[t]['size'] if t in FMT else max(1, IBITS[t] // 8)


def nbytes(t):
    """bytes of the object that carry the value"""
    return FMT[t]['nbytes'] if t in FMT else tsize(t)


def irange(t):
    if t == 'bool':
        return 0, 1
    b = IBITS[t]
    return (-(1 << (b - 1)), (1 << (b - 1)) - 1) if t in ISIGNED else (0, (1 << b) - 1)


# ---------------------------------------------------------------------------------------------- value batteries

def int_candidates():
    P = lambda k: 1 << k
    c = [0, 1, 2, 3, -1, -2, 127, 128, 129, 255, 256, -128, -129, 32767, 32768, 65535, 65536, -32768, -32769,
         P(24) - 1, P(24), P(24) + 1, P(24) + 2, P(24) + 3, P(25) + 2, P(25) + 6, -(P(24) + 1), -(P(24) + 3),
         P(31) - 1, P(31), P(31) + 1, P(31) - 64, P(31) - 65, -P(31), -P(31) - 1, -P(31) + 1, P(32) - 1, P(32), P(32) + 1,
         P(32) - 128, P(32) - 129, P(53) - 1, P(53), P(53) + 1, P(53) + 2, P(53) + 3, P(54) + 2, P(54) + 6, -(P(53) + 1),
         -(P(53) + 3), P(62), P(63) - 1, P(63) - 512, P(63) - 513, P(63) - P(39), P(63) - P(39) - 1, P(63), P(63) + 1,
         P(63) + P(10), P(63) + P(10) + 1, P(63) + P(11) + P(10), P(63) + P(39), P(63) + P(39) + 1, P(63) + P(40) + P(39),
         0x8000008000000001, P(64) - 1, P(64) - 256, P(64) - P(10), P(64) - P(10) - 1, P(64) - P(11), P(64) - P(39),
         P(64) - P(39) - 1, P(64) - P(40), 0xfffffffffffff400, 0xfffffffffffffbff, 0xffffff7fffffffff, 0xffffff8000000000,
         -P(63), -P(63) + 1, -(P(63) - P(39)), -(P(62) + P(38)), -(P(62) + P(38) + 1), 1000000007, -1000000007,
         123456789012345678, -123456789012345678]
    # unsigned long at >= 2^63 (the halve-with-sticky-bit sequences): for float (ulp 2^40 in [2^63, 2^64)) and double (ulp 2^11)
    # every combination of even/odd last kept bit x {just below, exactly, just above the half-way point, half-way + lowest bit}
    for ulp in (40, 11):
        h = P(ulp - 1)
        for base in (P(63), P(63) + P(ulp), P(63) + 5 * P(ulp), P(64) - 2 * P(ulp), P(64) - P(ulp), 0xc000000000000000 >> ulp << ulp,
                     (0xdeadbeefcafef00d >> ulp << ulp) | P(63)):
            for low in (0, 1, 2, h - 1, h, h + 1, h + 2, h | 1, 2 * h - 1, h + (h >> 1), 3):
                v = base + low
                if v < P(64):
                    c.append(v)
    return c


def u64_top_values(rng, n):
    """random unsigned long values with bit 63 set whose discarded bits (for float and for double) sit at / next to the
    half-way point, with and without a lone sticky bit 0"""
    out = []
    for _ in range(n):
        ulp = rng.choice([40, 11])
        kept = (rng.getrandbits(64 - ulp) | (1 << (63 - ulp))) << ulp
        h = 1 << (ulp - 1)
        low = rng.choice([0, 1, h - 1, h, h + 1, h | 1, rng.getrandbits(ulp), (rng.getrandbits(ulp) & ~1) | 1, h + rng.getrandbits(3)])
        out.append((kept | low) & ((1 << 64) - 1))
    return out


def int_values(t, rng, nrand):
    lo, hi = irange(t)
    vals = []
    for v in int_candidates():
        if lo <= v <= hi and v not in vals:
            vals.append(v)
    if t == 'u64':
        for v in u64_top_values(rng, max(8, nrand)):
            if v not in vals:
                vals.append(v)
    for _ in range(nrand):
        if t == 'bool':
            break
        k = rng.randrange(1, IBITS[t] + 1)
        v = rng.getrandbits(k) | (1 << (k - 1))
        if rng.random() < 0.3:
            v |= rng.getrandbits(3)           # sticky bits far below
        if t in ISIGNED and rng.random() < 0.4:
            v = -v
        if lo <= v <= hi and v not in vals:
            vals.append(v)
    return vals


def exact_candidates():
    P = pow2
    F = Fraction
    c = [F(1, 2), F(3, 4), 1 - P(-24), 1 - P(-53), 1 - P(-64), F(1), F(3, 2), F(5, 2), F(7, 2), F(127), F(255, 2), F(128) - P(-16),
         F(128), F(257, 2), F(255), F(511, 2), F(256), F(129), F(32767), F(65535, 2), F(32768), F(65535), F(131071, 2),
         F(65536), F(32769), P(24) - 1, P(24), P(24) + 1, P(24) + 2, P(31) - 128, P(31) - 1, P(31) - F(1, 2), P(31),
         P(31) + F(1, 2), P(31) + 1, P(31) + 256, P(32) - 256, P(32) - 1, P(32) - F(1, 2), P(32), P(32) + 1, P(32) + 512,
         P(53) - 1, P(53), P(53) + 1, P(53) + 2, P(63) - P(39), P(63) - 1024, P(63) - 1, P(63) - F(1, 2), P(63), P(63) + 1,
         P(63) + 2048, P(63) + P(40), P(64) - P(40), P(64) - 2048, P(64) - 1, P(64) - F(1, 2), P(64), P(64) + P(41), P(64) + 4096,
         P(100), 1 + P(-23), 1 + P(-24), 1 + P(-24) + P(-52), 1 + P(-24) + P(-63), 1 + P(-23) + P(-24), 1 + 3 * P(-24),
         1 + P(-52), 1 + P(-53), 1 + P(-53) + P(-63), 1 + 3 * P(-53), 1 + P(-63), 1 + P(-52) + P(-53),
         P(127) * (2 - P(-23)), P(128), P(127) * (2 - P(-24)), P(127) * (2 - P(-24)) - P(70), P(127) * (2 - P(-25)), P(-126), P(-127),
         P(-126) - P(-149), P(-149), P(-150), P(-150) * 3, P(-150) + P(-200), P(-151), P(-1022), P(-1023), P(-1074),
         P(-1075), P(-1075) * 3, P(-1076), P(1023) * (2 - P(-52)), P(1024), P(1023) * (2 - P(-53)), P(1023) * (2 - P(-54)),
         P(-16382), P(-16445), P(16383) * (2 - P(-63)), F(10) ** 10, F(10) ** 20, F(10) ** 30, F(3), F(7), F(10), F(100)]
    return c


def fp_values(fmt, rng, nrand):
    """list of bit patterns (distinct), boundary classes first"""
    vals = []

    def add(b):
        if b is not None and b not in vals:
            vals.append(b)
    for s in (0, 1):
        add(pack(fmt, s, 0, 0))
    for x in exact_candidates():
        for s in (0, 1):
            add(encode_exact(fmt, s, x))
    for x in (Fraction(1, 3), Fraction(1, 10), Fraction(2, 3) * pow2(70), Fraction(22, 7)):
        for s in (0, 1):
            add(round_bits(fmt, s, x))
    p, w = FMT[fmt]['p'], FMT[fmt]['w']
    top = (1 << w) - 1
    # floating -> unsigned long around 2^63 and 2^64: the neighbours of 2^63 and of 2^64 in the format, values in between,
    # the last value below 2^64, fractions just below 2^63 (long double / double), and their negatives (undefined: dropped)
    u = pow2(64 - p)            # ulp in [2^63, 2^64)
    for x in (pow2(63) - u / 2, pow2(63), pow2(63) + u, pow2(63) + 3 * u, pow2(63) * Fraction(3, 2), pow2(63) * Fraction(3, 2) + u,
              pow2(64) - 2 * u, pow2(64) - u, pow2(64), pow2(64) + 2 * u, pow2(63) - u, pow2(62) + u / 4, pow2(65), Fraction(1, 2), Fraction(999, 1000)):
        for s in (0, 1):
            add(encode_exact(fmt, s, x))
    for _ in range(max(6, nrand // 8)):
        m = rng.getrandbits(p - 1) | (1 << (p - 1))
        add(encode_exact(fmt, 0, m * u))                       # uniformly in [2^63, 2^64)
        add(encode_exact(fmt, 0, m * u / 2))                   # in [2^62, 2^63), possibly with a fraction 1/2
    for s in (0, 1):
        add(inf_bits(fmt, s))
        add(qnan_bits(fmt, s))
        add(qnan_bits(fmt, s, 0x1234))
        add(snan_bits(fmt, s, 1))
        add(snan_bits(fmt, s, 0x2bcd))
    for _ in range(nrand):
        s = rng.getrandbits(1)
        r = rng.random()
        if r < 0.45:       # magnitudes around the integer boundaries
            e = bias(fmt) + rng.choice([-2, -1, 0, 1, 5, 7, 8, 15, 16, 23, 24, 30, 31, 32, 33, 52, 53, 62, 63, 64, 65])
        elif r < 0.55:
            e = 0
        elif r < 0.65:
            e = rng.choice([1, 2, top - 1, top - 2])
        elif r < 0.85:
            e = bias(fmt) + rng.randrange(-160, 160)
        else:
            e = rng.randrange(1, top)
        e = max(0, min(top - 1, e))
        frac = rng.getrandbits(p - 1)
        if rng.random() < 0.3:
            frac &= ~((1 << rng.randrange(0, p - 1)) - 1)
        if fmt == 'f80':
            m = frac | ((1 << 63) if e != 0 else 0)
        else:
            m = frac
        add(pack(fmt, s, e, m))
    return vals


def range63_values(fmt, rng, n):
    """bit patterns of values in [2^63, 2^64) (the hypothesis of the `x - 2^63 is exact` contracts) and their neighbours"""
    p = FMT[fmt]['p']
    u = pow2(64 - p)
    vals = []
    for x in (pow2(63), pow2(63) + u, pow2(63) + 2 * u, pow2(63) * Fraction(3, 2), pow2(64) - u, pow2(64) - 2 * u, pow2(63) - u / 2, pow2(64),
              pow2(63) + u * ((1 << (p - 1)) - 1), pow2(63) + u * (1 << (p - 2))):
        b = encode_exact(fmt, 0, x)
        if b is not None and b not in vals:
            vals.append(b)
    for _ in range(n):
        b = encode_exact(fmt, 0, (rng.getrandbits(p - 1) | (1 << (p - 1))) * u)
        if b not in vals:
            vals.append(b)
    return vals


def signed_value(fmt, bits):
    """('fin', Fraction signed, sign) etc."""
    d = decode(fmt, bits)
    if d[0] == 'fin':
        return ('fin', -d[2] if d[1] else d[2], d[1])
    return d


# ---------------------------------------------------------------------------------------------- the specification (python)

def spec_convert(frm, to, src):
    """src: int value (integer source) or bit pattern (floating source).
    -> ('ub',) | ('int', v) | ('bits', b) | ('hw',)   (hw: NaN conversions: result fixed by the hardware, not by C11)"""
    if frm in ITYS:
        v = src
        if to == 'bool':
            return ('int', 0 if v == 0 else 1)
        if to in ITYS:
            b = IBITS[to]
            r = v & ((1 << b) - 1)
            if to in ISIGNED and r >> (b - 1):
                r -= 1 << b
            return ('int', r)
        return ('bits', round_bits(to, 1 if v < 0 else 0, Fraction(abs(v))))
    d = decode(frm, src)
    if to == 'bool':
        if d[0] == 'fin':
            return ('int', 0 if d[2] == 0 else 1)
        return ('int', 1)
    if to in ITYS:
        if d[0] != 'fin':
            return ('ub',)
        t = trunc(-d[2] if d[1] else d[2])
        lo, hi = irange(to)
        if lo <= t <= hi:
            return ('int', t)
        return ('ub',)
    if d[0] == 'nan':
        return ('hw',)
    if d[0] == 'inf':
        return ('bits', inf_bits(to, d[1]))
    if frm == to:
        return ('bits', src)
    return ('bits', round_bits(to, d[1], d[2]))


def int_bits(t, v):
    return v & ((1 << (8 * tsize(t))) - 1)


# ---------------------------------------------------------------------------------------------- C text

PRELUDE = r'''#include <stdio.h>
#include <string.h>
typedef _Bool T_bool; typedef signed char T_i8; typedef short T_i16; typedef int T_i32; typedef long T_i64;
typedef unsigned char T_u8; typedef unsigned short T_u16; typedef unsigned int T_u32; typedef unsigned long T_u64;
typedef float T_f32; typedef double T_f64; typedef long double T_f80;
static void hx(const void *p, int n) { const unsigned char *b = p; for (int i = 0; i < n; i++) printf("%02x", b[i]); }
static void dump(const char *tag, int i, int j, const void *p, int n) { printf("%s %d %d ", tag, i, j); hx(p, n); printf("\n"); }
'''


def carray(name, rows, width=16):
    out = [f'static unsigned char {name}[][{width}] = {{']
    for r in rows:
        out.append('  {' + ','.join(str(x) for x in r) + '},')
    out.append('};')
    return '\n'.join(out)


def src_rows(t, vals):
    if t in FMT:
        return [to_bytes(16, b) for b in vals]
    return [to_bytes(16, int_bits(t, v)) for v in vals]


def conv_program(values, pairs):
    """values: {type: [source values]}; pairs: [(from, to)] -> (text, cases) with cases[key] = (from, to, index)"""
    out = [PRELUDE]
    cases = {}
    skipped = 0
    for t in ATYS:
        if any(f == t for f, _ in pairs):
            out.append(carray(f'S_{t}', src_rows(t, values[t])))
    calls = []
    for f, t in pairs:
        ok = []
        for i, v in enumerate(values[f]):
            sp = spec_convert(f, t, v)
            if sp[0] == 'ub':
                ok.append(0)
                skipped += 1
            else:
                ok.append(1)
                cases[f'{f}>{t} {i} 0'] = (f, t, i)
        n = len(values[f])
        out.append(f'static void cv_{f}_{t}(void) {{\n  static unsigned char ok[] = {{{",".join(map(str, ok))}}};\n'
                   f'  for (int i = 0; i < {n}; i++) {{\n    if (!ok[i]) continue;\n'
                   f'    T_{f} t; memcpy(&t, S_{f}[i], sizeof t); volatile T_{f} x = t;\n'
                   f'    T_{t} r = (T_{t})x; dump("{f}>{t}", i, 0, &r, {nbytes(t)});\n  }}\n}}')
        calls.append(f'  cv_{f}_{t}();')
    out.append('int main(void) {\n' + '\n'.join(calls) + '\n  return 0;\n}')
    return '\n'.join(out) + '\n', cases, skipped


def conv_minimal(f, t, v):
    b = v if f in FMT else int_bits(f, v)
    return (f'#include <stdio.h>\n#include <string.h>\nint main(void) {{\n'
            f'  unsigned char s[16] = {{{",".join(map(str, to_bytes(16, b)))}}};\n'
            f'  {CNAME[f]} t; memcpy(&t, s, sizeof t); volatile {CNAME[f]} x = t;\n'
            f'  {CNAME[t]} r = ({CNAME[t]})x;\n'
            f'  unsigned char o[16]; memcpy(o, &r, sizeof r);\n'
            f'  for (int i = 0; i < {nbytes(t)}; i++) printf("%02x", o[i]);\n  printf("\\n");\n  return 0;\n}}\n')


ARITH = [('add', '+'), ('sub', '-'), ('mul', '*'), ('div', '/')]
RELS = [('eq', '=='), ('ne', '!='), ('lt', '<'), ('le', '<='), ('gt', '>'), ('ge', '>=')]


def binop_program(values):
    """values: {fmt: [bit patterns]}: every operator on every ordered pair -> (text, cases)"""
    out = [PRELUDE]
    cases = {}
    calls = []
    for t in FTYS:
        vs = values[t]
        out.append(carray(f'B_{t}', src_rows(t, vs)))
        n = len(vs)
        body = [f'static void bin_{t}(void) {{', f'  for (int i = 0; i < {n}; i++) for (int j = 0; j < {n}; j++) {{',
                f'    T_{t} ta, tb; memcpy(&ta, B_{t}[i], sizeof ta); memcpy(&tb, B_{t}[j], sizeof tb);',
                f'    volatile T_{t} a = ta; volatile T_{t} b = tb;']
        for name, op in ARITH:
            body.append(f'    {{ T_{t} r = a {op} b; dump("{t}.{name}", i, j, &r, {nbytes(t)}); }}')
        for name, op in RELS:
            body.append(f'    {{ int r = a {op} b; dump("{t}.{name}", i, j, &r, 4); }}')
        body.append('  }\n}')
        out.append('\n'.join(body))
        calls.append(f'  bin_{t}();')
        for i in range(n):
            for j in range(n):
                for name, _ in ARITH + RELS:
                    cases[f'{t}.{name} {i} {j}'] = (t, name, i, j)
    out.append('int main(void) {\n' + '\n'.join(calls) + '\n  return 0;\n}')
    return '\n'.join(out) + '\n', cases


def binop_minimal(t, name, a, b):
    op = dict(ARITH + RELS)[name]
    rt, n = (CNAME[t], nbytes(t)) if name in dict(ARITH) else ('int', 4)
    return (f'#include <stdio.h>\n#include <string.h>\nint main(void) {{\n'
            f'  unsigned char sa[16] = {{{",".join(map(str, to_bytes(16, a)))}}};\n'
            f'  unsigned char sb[16] = {{{",".join(map(str, to_bytes(16, b)))}}};\n'
            f'  {CNAME[t]} ta, tb; memcpy(&ta, sa, sizeof ta); memcpy(&tb, sb, sizeof tb);\n'
            f'  volatile {CNAME[t]} a = ta; volatile {CNAME[t]} b = tb;\n'
            f'  {rt} r = a {op} b;\n'
            f'  unsigned char o[16]; memcpy(o, &r, sizeof r);\n'
            f'  for (int i = 0; i < {n}; i++) printf("%02x", o[i]);\n  printf("\\n");\n  return 0;\n}}\n')


# truth-test contexts: each is a statement that sets `r` from the volatile floating object x
CONTEXTS = [
    ('neg', None),
    ('not', 'r = !x;'),
    ('bool', 'r = (_Bool)x;'),
    ('boolinit', '{ _Bool q = x; r = q; }'),
    ('cond', 'r = x ? 1 : 2;'),
    ('if', 'if (x) r = 1; else r = 2;'),
    ('ifnot', 'if (!x) r = 1; else r = 2;'),
    ('while', 'r = 2; while (x) { r = 1; break; }'),
    ('for', 'r = 2; for (; x; ) { r = 1; break; }'),
    ('dowhile', 'r = 0; do { r++; if (r > 1) break; } while (x);'),
    ('and1', 'r = x && 1;'),
    ('and2', 'r = one && x;'),
    ('or1', 'r = x || 0;'),
    ('or2', 'r = zero || x;'),
    ('andand', 'r = x && x;'),
    ('eq0', 'r = (x == 0);'),
    ('ne0', 'r = (x != 0);'),
    ('selfeq', 'r = (x == x);'),
    ('selfne', 'r = (x != x);'),
    ('plus', None),
]


def unary_program(values):
    out = [PRELUDE, 'static volatile int one = 1, zero = 0;']
    cases = {}
    calls = []
    for t in FTYS:
        vs = values[t]
        out.append(carray(f'U_{t}', src_rows(t, vs)))
        body = [f'static void un_{t}(void) {{', f'  for (int i = 0; i < {len(vs)}; i++) {{',
                f'    T_{t} tx; memcpy(&tx, U_{t}[i], sizeof tx); volatile T_{t} x = tx; int r;']
        for name, stmt in CONTEXTS:
            if name == 'neg':
                body.append(f'    {{ T_{t} n = -x; dump("{t}.neg", i, 0, &n, {nbytes(t)}); }}')
            elif name == 'plus':
                body.append(f'    {{ T_{t} n = +x; dump("{t}.plus", i, 0, &n, {nbytes(t)}); }}')
            else:
                body.append(f'    {stmt} dump("{t}.{name}", i, 0, &r, 4);')
        body.append('  }\n}')
        out.append('\n'.join(body))
        calls.append(f'  un_{t}();')
        for i in range(len(vs)):
            for name, _ in CONTEXTS:
                cases[f'{t}.{name} {i} 0'] = (t, name, i)
    out.append('int main(void) {\n' + '\n'.join(calls) + '\n  return 0;\n}')
    return '\n'.join(out) + '\n', cases


def unary_minimal(t, name, a):
    stmt = dict(CONTEXTS)[name]
    if name in ('neg', 'plus'):
        body = f'  {CNAME[t]} r = {"-" if name == "neg" else "+"}x;\n'
        n = nbytes(t)
    else:
        body = f'  int r; {stmt}\n'
        n = 4
    return (f'#include <stdio.h>\n#include <string.h>\nstatic volatile int one = 1, zero = 0;\nint main(void) {{\n'
            f'  unsigned char s[16] = {{{",".join(map(str, to_bytes(16, a)))}}};\n'
            f'  {CNAME[t]} tx; memcpy(&tx, s, sizeof tx); volatile {CNAME[t]} x = tx;\n' + body +
            f'  unsigned char o[16]; memcpy(o, &r, sizeof r);\n'
            f'  for (int i = 0; i < {n}; i++) printf("%02x", o[i]);\n  printf("\\n");\n  return 0;\n}}\n')


MIXOPS = [('add', 'a + b'), ('mul', 'a * b'), ('sub', 'a - b'), ('div', 'a / b'), ('sel', 'one ? a : b'), ('sel2', 'zero ? a : b')]
MIXRELS = [('lt', 'a < b'), ('ge', 'a >= b'), ('eq', 'a == b'), ('ne', 'a != b')]
# compound assignment to a FLOATING object (6.5.16.2p3: `r op= b` is `r = r op b` with r evaluated once - the operation is done in
# the common type of the two operands, and only its result is converted to the type of r): statement form, result read from r
MIXASG = [('asg_add', 'r += b'), ('asg_sub', 'r -= b'), ('asg_mul', 'r *= b'), ('asg_div', 'r /= b')]


def mixed_program(values, pairs):
    """usual arithmetic conversions end to end: a OP b with operands of two different arithmetic types, at least one
    floating; prints sizeof(a OP b) and the bytes of the result stored into an object of the C11 common type"""
    out = [PRELUDE, 'static volatile int one = 1, zero = 0;']
    cases = {}
    calls = []
    for t in ATYS:
        out.append(carray(f'M_{t}', src_rows(t, values[t])))
    rank = {'f32': 1, 'f64': 2, 'f80': 3}
    for t1, t2 in pairs:
        ct = max((t for t in (t1, t2) if t in FMT), key=lambda t: rank[t])
        n1, n2 = len(values[t1]), len(values[t2])
        body = [f'static void mx_{t1}_{t2}(void) {{', f'  for (int i = 0; i < {n1}; i++) for (int j = 0; j < {n2}; j++) {{',
                f'    T_{t1} ta; T_{t2} tb; memcpy(&ta, M_{t1}[i], sizeof ta); memcpy(&tb, M_{t2}[j], sizeof tb);',
                f'    volatile T_{t1} a = ta; volatile T_{t2} b = tb;']
        for name, ex in MIXOPS:
            body.append(f'    {{ T_{ct} r = {ex}; int sz = sizeof({ex}); printf("%d ", sz); dump("{t1}.{t2}.{name}", i, j, &r, {nbytes(ct)}); }}')
        for name, ex in MIXRELS:
            body.append(f'    {{ int r = {ex}; int sz = sizeof({ex}); printf("%d ", sz); dump("{t1}.{t2}.{name}", i, j, &r, 4); }}')
        if t1 in FMT:
            for name, ex in MIXASG:
                body.append(f'    {{ T_{t1} r = a; {ex}; int sz = sizeof r; printf("%d ", sz); dump("{t1}.{t2}.{name}", i, j, &r, {nbytes(t1)}); }}')
        body.append('  }\n}')
        out.append('\n'.join(body))
        calls.append(f'  mx_{t1}_{t2}();')
        for i in range(n1):
            for j in range(n2):
                for name, _ in MIXOPS + MIXRELS:
                    cases[f'{t1}.{t2}.{name} {i} {j}'] = (t1, t2, name, i, j, ct)
                if t1 in FMT:
                    for name, _ in MIXASG:
                        cases[f'{t1}.{t2}.{name} {i} {j}'] = (t1, t2, name, i, j, t1)
    out.append('int main(void) {\n' + '\n'.join(calls) + '\n  return 0;\n}')
    return '\n'.join(out) + '\n', cases


def mixed_minimal(t1, t2, name, a, b, ct):
    if name in dict(MIXASG):
        ba = a if t1 in FMT else int_bits(t1, a)
        bb = b if t2 in FMT else int_bits(t2, b)
        return (f'#include <stdio.h>\n#include <string.h>\nint main(void) {{\n'
                f'  unsigned char sa[16] = {{{",".join(map(str, to_bytes(16, ba)))}}};\n'
                f'  unsigned char sb[16] = {{{",".join(map(str, to_bytes(16, bb)))}}};\n'
                f'  {CNAME[t1]} ta; {CNAME[t2]} tb; memcpy(&ta, sa, sizeof ta); memcpy(&tb, sb, sizeof tb);\n'
                f'  volatile {CNAME[t1]} a = ta; volatile {CNAME[t2]} b = tb;\n'
                f'  {CNAME[t1]} r = a; {dict(MIXASG)[name]}; printf("%d ", (int)sizeof r);\n'
                f'  unsigned char o[16]; memcpy(o, &r, sizeof r);\n'
                f'  for (int i = 0; i < {nbytes(t1)}; i++) printf("%02x", o[i]);\n  printf("\\n");\n  return 0;\n}}\n')
    ex = dict(MIXOPS + MIXRELS)[name]
    ba = a if t1 in FMT else int_bits(t1, a)
    bb = b if t2 in FMT else int_bits(t2, b)
    rt, n = (CNAME[ct], nbytes(ct)) if name in dict(MIXOPS) else ('int', 4)
    return (f'#include <stdio.h>\n#include <string.h>\nstatic volatile int one = 1, zero = 0;\nint main(void) {{\n'
            f'  unsigned char sa[16] = {{{",".join(map(str, to_bytes(16, ba)))}}};\n'
            f'  unsigned char sb[16] = {{{",".join(map(str, to_bytes(16, bb)))}}};\n'
            f'  {CNAME[t1]} ta; {CNAME[t2]} tb; memcpy(&ta, sa, sizeof ta); memcpy(&tb, sb, sizeof tb);\n'
            f'  volatile {CNAME[t1]} a = ta; volatile {CNAME[t2]} b = tb;\n'
            f'  {rt} r = {ex}; printf("%d ", (int)sizeof({ex}));\n'
            f'  unsigned char o[16]; memcpy(o, &r, sizeof r);\n'
            f'  for (int i = 0; i < {n}; i++) printf("%02x", o[i]);\n  printf("\\n");\n  return 0;\n}}\n')


# ---------------------------------------------------------------------------------------------- floating constants

FIXED_LITERALS = [
    '0.0', '1.0', '0.1', '0.5', '.5', '5.', '1.e2', '1e0', '1e+2', '1E2', '1e10', '1e-10', '1e22', '1e23', '3.14159265358979323846',
    '2.718281828459045235360287', '1.7976931348623157e308', '1.7976931348623158e308', '1.7976931348623159e308', '1e309',
    '2.2250738585072014e-308', '2.2250738585072011e-308', '4.9406564584124654e-324', '2.4703282292062328e-324',
    '2.4703282292062327e-324', '1e-400', '1e400', '3.4028235e38', '3.4028234663852886e38', '3.4028235677973366e38',
    '3.4028235677973367e38', '3.4028236e38', '1e39', '1.17549435e-38', '1.4e-45', '1e-45', '7.0064923216240853e-46',
    '7.0064923216240854e-46', '7e-46', '16777217.0', '16777216.0', '16777219.0', '9007199254740993.0', '9007199254740995.0',
    '9223372036854775807.0', '9223372036854775808.0', '18446744073709551615.0', '18446744073709551616.0', '0.3', '0.7', '1e-5',
    '123456789.123456789', '4.35', '2.675', '1.1', '100.0', '0.000001', '6.02214076e23', '1.602176634e-19',
    '1.000000059604644775390625', '1.0000000596046447753906251', '1.00000005960464477539062499999999999',
    '1.00000017881393432617187500', '1.000000178813934326171875000000000001',
    '1.00000000000000011102230246251565404236316680908203125', '1.000000000000000111022302462515654042363166809082031251',
    '1.00000000000000011102230246251565404236316680908203124999', '1.00000000000000033306690738754696212708950042724609375',
    '0x1p0', '0x1.8p1', '0x.8p1', '0x1P+2', '0x1p-1', '0x10p0', '0xap0', '0xA.8p0', '0x1.fffffep127', '0x1.ffffffp127', '0x1.fffffefp127',
    '0x1p-149', '0x1p-150', '0x1.8p-150', '0x1.000001p0', '0x1.000003p0', '0x1.0000010000000001p0', '0x1.000001000000000001p0',
    '0x1.00000000000008p0', '0x1.00000000000018p0', '0x1.00000000000008000001p0', '0x1.000000000000080000000001p0',
    '0x1.fffffffffffffp1023', '0x1.fffffffffffff8p1023', '0x1.fffffffffffff7ffp1023', '0x1p-1074', '0x1p-1075', '0x1.8p-1075',
    '0x1.0000000000000001p-1075', '0x1p1024', '0x1.ffffffffffffffffp0', '0x1.fffffffffffffffe8p0', '0x1.ffffffffffffffffp16383',
    '0x1p-16445', '0x1.2345678p+10', '0x1.23456789abcdefp+100',
]


def gen_literals(rng, n):
    """literal spellings (no suffix): halfway cases of float and double and their neighbours, random decimal and hex"""
    out = list(FIXED_LITERALS)
    for _ in range(n):
        r = rng.random()
        if r < 0.35:
            # a value exactly halfway between two neighbours of precision p, optionally nudged
            p = rng.choice([24, 53])
            m = rng.getrandbits(p) | (1 << (p - 1))
            e = rng.randrange(-40, 40) if rng.random() < 0.8 else rng.choice([-140, -1060, 100, 900])
            mid = (2 * m + 1) * pow2(e - p)
            nudge = rng.choice([0, 0, 1, -1])
            if rng.random() < 0.5:
                # hexadecimal spelling (exact): mantissa as hex digits
                num = (2 * m + 1) << 8
                num += nudge
                ex = e - p - 8
                out.append(f'0x{num:x}p{ex}')
            else:
                x = mid
                # exact decimal expansion exists for dyadic rationals
                d = x.denominator
                k = d.bit_length() - 1
                digits = x.numerator * 5 ** k
                s = str(digits)
                if k >= len(s):
                    s = '0' * (k - len(s) + 1) + s
                dec = s[:len(s) - k] + '.' + s[len(s) - k:] if k else s + '.0'
                if nudge > 0:
                    dec += '0' * rng.randrange(0, 12) + '1'
                elif nudge < 0:
                    # slightly below: decrement the last digit and append 9s
                    dec = dec.rstrip('0')
                    if dec[-1] == '.':
                        dec += '0'
                    else:
                        dec = dec[:-1] + str(int(dec[-1]) - 1) + '9' * rng.randrange(8, 30)
                if len(dec) < 900:
                    out.append(dec)
        elif r < 0.7:
            nd = rng.randrange(1, 40)
            digits = str(rng.randrange(1, 10)) + ''.join(str(rng.randrange(10)) for _ in range(nd - 1))
            pt = rng.randrange(0, len(digits) + 1)
            mant = (digits[:pt] or '0') + '.' + digits[pt:]
            ex = rng.choice(['', '', f'e{rng.randrange(-30, 30)}', f'e{rng.randrange(-330, 310)}', f'E+{rng.randrange(0, 38)}'])
            out.append(mant + ex)
        else:
            nd = rng.randrange(1, 24)
            digits = ''.join(rng.choice('0123456789abcdef') for _ in range(nd))
            pt = rng.randrange(0, len(digits) + 1)
            mant = (digits[:pt] or '0') + '.' + digits[pt:]
            out.append(f'0x{mant}p{rng.randrange(-160, 130) if rng.random() < 0.8 else rng.randrange(-1080, 1020)}')
    seen = set()
    res = []
    for l in out:
        if l not in seen:
            seen.add(l)
            res.append(l)
    return res


SUFFIX = [('', 'f64'), ('f', 'f32'), ('F', 'f32'), ('l', 'f80'), ('L', 'f80')]


def literal_spec(text, fmt):
    """-> (correctly rounded bits, bits along the path strtold -> narrowing)"""
    x = parse_literal(text)
    good = round_bits(fmt, 0, x)
    r80 = round_mag('f80', x)
    if r80[0] == 'inf':
        via = inf_bits(fmt, 0)
    else:
        via = round_bits(fmt, 0, r80[1])
    return good, via


def const_program(lits):
    """lits: [(text, suffix, fmt)] -> (text, cases): each literal initialises an automatic object, a static object
    (constant-expression path) and is negated"""
    out = [PRELUDE]
    cases = {}
    stat = []
    body = []
    for k, (text, suf, fmt) in enumerate(lits):
        lit = text + suf
        stat.append(f'static T_{fmt} g{k} = {lit};')
        body.append(f'  {{ T_{fmt} v = {lit}; int sz = sizeof({lit}); printf("%d ", sz); dump("L", {k}, 0, &v, {nbytes(fmt)}); }}')
        body.append(f'  {{ printf("0 "); dump("G", {k}, 0, &g{k}, {nbytes(fmt)}); }}')
        body.append(f'  {{ T_{fmt} v = -{lit}; printf("0 "); dump("N", {k}, 0, &v, {nbytes(fmt)}); }}')
        for tag in 'LGN':
            cases[f'{tag} {k} 0'] = (tag, k)
    # split main into chunks so that no function is huge
    chunks = [body[i:i + 300] for i in range(0, len(body), 300)]
    out.append('\n'.join(stat))
    for ci, ch in enumerate(chunks):
        out.append(f'static void part{ci}(void) {{\n' + '\n'.join(ch) + '\n}')
    out.append('int main(void) {\n' + '\n'.join(f'  part{ci}();' for ci in range(len(chunks))) + '\n  return 0;\n}')
    return '\n'.join(out) + '\n', cases


def const_minimal(text, suf, fmt, tag):
    lit = text + suf
    decl = {'L': f'  {CNAME[fmt]} v = {lit};\n', 'N': f'  {CNAME[fmt]} v = -{lit};\n', 'G': f'  static {CNAME[fmt]} v = {lit};\n'}[tag]
    return (f'#include <stdio.h>\n#include <string.h>\nint main(void) {{\n' + decl +
            f'  printf("%d ", (int)sizeof({lit}));\n'
            f'  unsigned char o[16]; memcpy(o, &v, sizeof v);\n'
            f'  for (int i = 0; i < {nbytes(fmt)}; i++) printf("%02x", o[i]);\n  printf("\\n");\n  return 0;\n}}\n')


# ---------------------------------------------------------------------------------------------- running

def parse_output(text):
    """lines `[sz ]tag i j hex` -> {key: (sz or None, hex)}"""
    res = {}
    for line in text.splitlines():
        w = line.split()
        if len(w) == 5:
            res[f'{w[1]} {w[2]} {w[3]}'] = (w[0], w[4])
        elif len(w) == 4:
            res[f'{w[0]} {w[1]} {w[2]}'] = (None, w[3])
    return res


def hex_to_int(h):
    return int.from_bytes(bytes.fromhex(h), 'little')


def int_to_hex(v, n):
    return (v & ((1 << (8 * n)) - 1)).to_bytes(n, 'little').hex()


# ---------------------------------------------------------------------------------------------- FpuSpec contracts on the CPU

CONTRACT_C = r"""#include <stdio.h>
#include <string.h>
typedef unsigned long u64; typedef unsigned int u32; typedef unsigned short u16;
typedef struct { u64 lo; u64 hi; } b80;     /* 10 value bytes of a long double + padding */
static void p80(b80 v) { unsigned __int128 x = ((unsigned __int128)(v.hi & 0xffff) << 64) | v.lo;
  char buf[64]; int n = 0; if (x == 0) buf[n++] = '0'; while (x) { buf[n++] = '0' + (int)(x % 10); x /= 10; }
  while (n) putchar(buf[--n]); }
static b80 ld2b(long double l) { b80 r; r.lo = 0; r.hi = 0; memcpy(&r, &l, 10); return r; }
static long double b2ld(b80 b) { long double l = 0; memcpy(&l, &b, 10); return l; }
#define FLAGS(f) (int)((f >> 6) & 1), (int)((f >> 2) & 1), (int)(f & 1)
"""

CONTRACT_MAIN = r"""
int main(void) {
  for (int i = 0; i < N_F32; i++) { float f; memcpy(&f, &F32[i], 4); u32 r; u64 q; double d; long double l; u64 db;
    __asm__ volatile("cvttss2sil %1, %0" : "=r"(r) : "x"(f)); printf("cvttss2si32 %u %u\n", F32[i], r);
    __asm__ volatile("cvttss2siq %1, %0" : "=r"(q) : "x"(f)); printf("cvttss2si64 %u %lu\n", F32[i], q);
    __asm__ volatile("cvtss2sd %1, %0" : "=x"(d) : "x"(f)); memcpy(&db, &d, 8); printf("cvtss2sd %u %lu\n", F32[i], db);
    __asm__ volatile("flds %1; fstpt %0" : "=m"(l) : "m"(f)); printf("fld32 %u ", F32[i]); p80(ld2b(l)); printf("\n"); }
  for (int i = 0; i < N_F64; i++) { double f; memcpy(&f, &F64[i], 8); u32 r; u64 q; long double l;
    __asm__ volatile("cvttsd2sil %1, %0" : "=r"(r) : "x"(f)); printf("cvttsd2si32 %lu %u\n", F64[i], r);
    __asm__ volatile("cvttsd2siq %1, %0" : "=r"(q) : "x"(f)); printf("cvttsd2si64 %lu %lu\n", F64[i], q);
    __asm__ volatile("fldl %1; fstpt %0" : "=m"(l) : "m"(f)); printf("fld64 %lu ", F64[i]); p80(ld2b(l)); printf("\n"); }
  for (int i = 0; i < N_F80; i++) { long double l = b2ld(F80[i]); u16 cw, cw2; u16 r16; u32 r32; u64 r64; long double m;
    __asm__ volatile("fnstcw %0" : "=m"(cw)); cw2 = cw | 0x0c00;
    __asm__ volatile("fldcw %2; fldt %1; fistps %0; fldcw %3" : "=m"(r16) : "m"(l), "m"(cw2), "m"(cw));
    printf("fistp16 "); p80(F80[i]); printf(" %u\n", (unsigned)r16);
    __asm__ volatile("fldcw %2; fldt %1; fistpl %0; fldcw %3" : "=m"(r32) : "m"(l), "m"(cw2), "m"(cw));
    printf("fistp32 "); p80(F80[i]); printf(" %u\n", r32);
    __asm__ volatile("fldcw %2; fldt %1; fistpq %0; fldcw %3" : "=m"(r64) : "m"(l), "m"(cw2), "m"(cw));
    printf("fistp64 "); p80(F80[i]); printf(" %lu\n", r64);
    __asm__ volatile("fldt %1; fchs; fstpt %0" : "=m"(m) : "m"(l));
    printf("fchs "); p80(F80[i]); printf(" "); p80(ld2b(m)); printf("\n"); }
  for (int i = 0; i < N_I16; i++) { long double l; __asm__ volatile("filds %1; fstpt %0" : "=m"(l) : "m"(I16[i]));
    printf("fild16 %u ", (unsigned)I16[i]); p80(ld2b(l)); printf("\n"); }
  for (int i = 0; i < N_I32; i++) { long double l; float f; double d; u32 fb; u64 db;
    __asm__ volatile("fildl %1; fstpt %0" : "=m"(l) : "m"(I32[i])); printf("fild32 %u ", I32[i]); p80(ld2b(l)); printf("\n");
    __asm__ volatile("cvtsi2ssl %1, %0" : "=x"(f) : "r"(I32[i]), "0"(0.0f)); memcpy(&fb, &f, 4); printf("cvtsi2ss32 %u %u\n", I32[i], fb);
    __asm__ volatile("cvtsi2sdl %1, %0" : "=x"(d) : "r"(I32[i]), "0"(0.0)); memcpy(&db, &d, 8); printf("cvtsi2sd32 %u %lu\n", I32[i], db); }
  for (int i = 0; i < N_I64; i++) { long double l; float f; double d; u32 fb; u64 db;
    __asm__ volatile("fildq %1; fstpt %0" : "=m"(l) : "m"(I64[i])); printf("fild64 %lu ", I64[i]); p80(ld2b(l)); printf("\n");
    __asm__ volatile("cvtsi2ssq %1, %0" : "=x"(f) : "r"(I64[i]), "0"(0.0f)); memcpy(&fb, &f, 4); printf("cvtsi2ss64 %lu %u\n", I64[i], fb);
    __asm__ volatile("cvtsi2sdq %1, %0" : "=x"(d) : "r"(I64[i]), "0"(0.0)); memcpy(&db, &d, 8); printf("cvtsi2sd64 %lu %lu\n", I64[i], db); }
  for (int i = 0; i < N_P32; i++) { float a, b; memcpy(&a, &PA32[i], 4); memcpy(&b, &PB32[i], 4); u64 fl;
    __asm__ volatile("ucomiss %2, %1; pushfq; pop %0" : "=r"(fl) : "x"(a), "x"(b) : "cc"); printf("ucomiss %u %u %d %d %d\n", PA32[i], PB32[i], FLAGS(fl)); }
  for (int i = 0; i < N_P64; i++) { double a, b; memcpy(&a, &PA64[i], 8); memcpy(&b, &PB64[i], 8); u64 fl;
    __asm__ volatile("ucomisd %2, %1; pushfq; pop %0" : "=r"(fl) : "x"(a), "x"(b) : "cc"); printf("ucomisd %lu %lu %d %d %d\n", PA64[i], PB64[i], FLAGS(fl)); }
  for (int i = 0; i < N_P80; i++) { long double a = b2ld(PA80[i]), b = b2ld(PB80[i]); u64 fl;
    __asm__ volatile("fldt %2; fldt %1; fcomip; fstp %%st(0); pushfq; pop %0" : "=r"(fl) : "m"(a), "m"(b) : "cc");
    printf("fcomi "); p80(PA80[i]); printf(" "); p80(PB80[i]); printf(" %d %d %d\n", FLAGS(fl)); }
  /* ---- the contracts behind the cells for unsigned long at >= 2^63 ---- */
  for (int i = 0; i < N_P32; i++) { float a, b; memcpy(&a, &PA32[i], 4); memcpy(&b, &PB32[i], 4); u64 fl;
    __asm__ volatile("comiss %2, %1; pushfq; pop %0" : "=r"(fl) : "x"(a), "x"(b) : "cc"); printf("comiss %u %u %d %d %d\n", PA32[i], PB32[i], FLAGS(fl)); }
  for (int i = 0; i < N_P64; i++) { double a, b; memcpy(&a, &PA64[i], 8); memcpy(&b, &PB64[i], 8); u64 fl;
    __asm__ volatile("comisd %2, %1; pushfq; pop %0" : "=r"(fl) : "x"(a), "x"(b) : "cc"); printf("comisd %lu %lu %d %d %d\n", PA64[i], PB64[i], FLAGS(fl)); }
  { u32 c = 0x5f000000u; long double l; __asm__ volatile("flds %1; fstpt %0" : "=m"(l) : "m"(c)); printf("two63 80 "); p80(ld2b(l)); printf("\n"); }
  for (int i = 0; i < N_R32; i++) { float a, c; u32 cb = 0x5f000000u, rb; memcpy(&a, &R32[i], 4); memcpy(&c, &cb, 4);
    __asm__ volatile("subss %1, %0" : "+x"(a) : "x"(c)); memcpy(&rb, &a, 4); printf("subss63 %u %u\n", R32[i], rb);
    u64 fl; float a2; memcpy(&a2, &R32[i], 4);
    __asm__ volatile("comiss %2, %1; pushfq; pop %0" : "=r"(fl) : "x"(a2), "x"(c) : "cc"); printf("comiss %u %u %d %d %d\n", R32[i], cb, FLAGS(fl)); }
  for (int i = 0; i < N_R64; i++) { double a, c; u64 cb = 0x43e0000000000000ul, rb; memcpy(&a, &R64[i], 8); memcpy(&c, &cb, 8);
    __asm__ volatile("subsd %1, %0" : "+x"(a) : "x"(c)); memcpy(&rb, &a, 8); printf("subsd63 %lu %lu\n", R64[i], rb);
    u64 fl; double a2; memcpy(&a2, &R64[i], 8);
    __asm__ volatile("comisd %2, %1; pushfq; pop %0" : "=r"(fl) : "x"(a2), "x"(c) : "cc"); printf("comisd %lu %lu %d %d %d\n", R64[i], cb, FLAGS(fl)); }
  for (int i = 0; i < N_R80; i++) { long double a = b2ld(R80[i]), r, k; u32 cb = 0x5f000000u; u64 fl;
    __asm__ volatile("flds %2; fldt %1; fsub %%st(1), %%st; fstpt %0; fstp %%st(0)" : "=m"(r) : "m"(a), "m"(cb));
    printf("fsub63 "); p80(R80[i]); printf(" "); p80(ld2b(r)); printf("\n");
    __asm__ volatile("flds %1; fstpt %0" : "=m"(k) : "m"(cb));
    __asm__ volatile("flds %2; fldt %1; fcomi %%st(1), %%st; pushfq; pop %0; fstp %%st(0); fstp %%st(0)" : "=r"(fl) : "m"(a), "m"(cb) : "cc");
    printf("fcomi "); p80(R80[i]); printf(" "); p80(ld2b(k)); printf(" %d %d %d\n", FLAGS(fl)); }
  for (int i = 0; i < N_I64; i++) { u32 cb = 0x5f800000u; long double l; float f; double d; u32 fb; u64 db;
    if (I64[i] >> 63) { __asm__ volatile("fildq %1; fadds %2; fstpt %0" : "=m"(l) : "m"(I64[i]), "m"(cb)); printf("fadd64 %lu ", I64[i]); p80(ld2b(l)); printf("\n"); }
    __asm__ volatile("cvtsi2ssq %1, %0; addss %0, %0" : "=x"(f) : "r"(I64[i]), "0"(0.0f)); memcpy(&fb, &f, 4); printf("addss2 %lu %u\n", I64[i], fb);
    __asm__ volatile("cvtsi2sdq %1, %0; addsd %0, %0" : "=x"(d) : "r"(I64[i]), "0"(0.0)); memcpy(&db, &d, 8); printf("addsd2 %lu %lu\n", I64[i], db); }
  { static const u16 cws[] = {0x037f, 0x077f, 0x0b7f, 0x0f7f, 0x027f, 0x007f}; u16 save; __asm__ volatile("fnstcw %0" : "=m"(save));
    for (int c = 0; c < 6; c++) {
      for (int i = 0; i < N_F32; i++) { u32 o; __asm__ volatile("fldcw %2; flds %1; fstps %0; fldcw %3" : "=m"(o) : "m"(F32[i]), "m"(cws[c]), "m"(save)); printf("fstfld32 %u %u\n", F32[i], o); }
      for (int i = 0; i < N_F64; i++) { u64 o; __asm__ volatile("fldcw %2; fldl %1; fstpl %0; fldcw %3" : "=m"(o) : "m"(F64[i]), "m"(cws[c]), "m"(save)); printf("fstfld64 %lu %lu\n", F64[i], o); } } }
  return 0;
}
"""


def contract_program(values):
    """values: {'i16','i32','i64': [unsigned patterns], 'f32','f64','f80': [patterns], 'pairs32/64/80': [(a,b)],
    'r32','r64','r80': [patterns whose value lies in or next to [2^63, 2^64)]}
    Each contract's instruction is executed through gcc inline assembly; one line `name inputs outputs` per execution."""
    out = [CONTRACT_C]

    def arr(name, ty, vals):
        out.append(f'static {ty} {name}[] = {{' + ','.join(f'{v}u' + ('l' if ty == 'u64' else '') for v in vals) + '};')

    def arr80(name, vals):
        out.append(f'static b80 {name}[] = {{' + ','.join(f'{{{v & ((1 << 64) - 1)}ul,{v >> 64}ul}}' for v in vals) + '};')
    arr('I16', 'u16', values['i16'])
    arr('I32', 'u32', values['i32'])
    arr('I64', 'u64', values['i64'])
    arr('F32', 'u32', values['f32'])
    arr('F64', 'u64', values['f64'])
    arr80('F80', values['f80'])
    arr('PA32', 'u32', [a for a, _ in values['pairs32']])
    arr('PB32', 'u32', [b for _, b in values['pairs32']])
    arr('PA64', 'u64', [a for a, _ in values['pairs64']])
    arr('PB64', 'u64', [b for _, b in values['pairs64']])
    arr80('PA80', [a for a, _ in values['pairs80']])
    arr80('PB80', [b for _, b in values['pairs80']])
    arr('R32', 'u32', values['r32'])
    arr('R64', 'u64', values['r64'])
    arr80('R80', values['r80'])
    for macro, key in (('N_I16', 'i16'), ('N_I32', 'i32'), ('N_I64', 'i64'), ('N_F32', 'f32'), ('N_F64', 'f64'), ('N_F80', 'f80'),
                       ('N_P32', 'pairs32'), ('N_P64', 'pairs64'), ('N_P80', 'pairs80'), ('N_R32', 'r32'), ('N_R64', 'r64'), ('N_R80', 'r80')):
        out.append(f'#define {macro} {len(values[key])}')
    out.append(CONTRACT_MAIN)
    return '\n'.join(out) + '\n'


# ---------------------------------------------------------------------------------------------- further contexts

def incdec_program(values):
    """postfix / prefix ++ and -- on floating objects: value of the expression and the stored value"""
    out = [PRELUDE]
    cases = {}
    calls = []
    forms = [('postinc', 'x++'), ('postdec', 'x--'), ('preinc', '++x'), ('predec', '--x')]
    for t in FTYS:
        vs = values[t]
        out.append(carray(f'D_{t}', src_rows(t, vs)))
        body = [f'static void id_{t}(void) {{', f'  for (int i = 0; i < {len(vs)}; i++) {{',
                f'    T_{t} tx; memcpy(&tx, D_{t}[i], sizeof tx);']
        for name, ex in forms:
            body.append(f'    {{ T_{t} x = tx; T_{t} r = {ex}; dump("{t}.{name}.val", i, 0, &r, {nbytes(t)}); dump("{t}.{name}.obj", i, 0, &x, {nbytes(t)}); }}')
        body.append('  }\n}')
        out.append('\n'.join(body))
        calls.append(f'  id_{t}();')
        for i in range(len(vs)):
            for name, _ in forms:
                cases[f'{t}.{name}.val {i} 0'] = (t, name, 'val', i)
                cases[f'{t}.{name}.obj {i} 0'] = (t, name, 'obj', i)
    out.append('int main(void) {\n' + '\n'.join(calls) + '\n  return 0;\n}')
    return '\n'.join(out) + '\n', cases


def incdec_minimal(t, name, which, a):
    ex = {'postinc': 'x++', 'postdec': 'x--', 'preinc': '++x', 'predec': '--x'}[name]
    return (f'#include <stdio.h>\n#include <string.h>\nint main(void) {{\n'
            f'  unsigned char s[16] = {{{",".join(map(str, to_bytes(16, a)))}}};\n'
            f'  {CNAME[t]} x; memcpy(&x, s, sizeof x);\n  {CNAME[t]} r = {ex};\n'
            f'  unsigned char o[16]; memcpy(o, &{"r" if which == "val" else "x"}, sizeof r);\n'
            f'  for (int i = 0; i < {nbytes(t)}; i++) printf("%02x", o[i]);\n  printf("\\n");\n  return 0;\n}}\n')


EXTRAS_C = PRELUDE + r'''
#include <stdarg.h>
static void pb(const char *n, const void *p, int k) { printf("%s 0 0 ", n); hx(p, k); printf("\n"); }
static double vsum(int n, ...) { va_list ap; va_start(ap, n); double s = 0; for (int i = 0; i < n; i++) s += va_arg(ap, double); va_end(ap); return s; }
static long double vsuml(int n, ...) { va_list ap; va_start(ap, n); long double s = 0; for (int i = 0; i < n; i++) s += va_arg(ap, long double); va_end(ap); return s; }
static float tof(double d) { return d; }
static long tol(float f) { return f; }
static double fromi(int i) { return i; }
static long double told(unsigned long u) { return u; }
static unsigned char touc(long double l) { return l; }
static float gf1 = 0.1; static double gd1 = 16777217; static float gf2 = 16777217; static int gi = 2.9; static int gi2 = -2.9;
static long double gl = 0.1; static long double gl2 = 0.1f; static float gf3 = 1.0000000596046448;
static double gdd = 1.0f / 3.0f; static float gsum = 0.1f + 0.2f; static double gsum2 = 0.1 + 0.2; static float gmix = 0.1f + 0.2;
static _Bool gb = 0.5; static _Bool gb2 = -0.0; static long double gdiv = 1.0L / 3; static double gneg = -(0.1 * 3);
static unsigned long gu1 = 9223372036854775807.0L; static long gl3 = -9223372036854775808.0; static unsigned gu32 = 4294967295.0;
static float gcast = (float)0.1 + (float)0.2; static double gcond = 1 ? 0.1f : 0.2; static long double gfromu = 18446744073709551615UL;
static double gfroml = -9223372036854775807L; static float gfromu32 = 4294967295u;
struct S { unsigned b : 3; int c : 5; };
int main(void) {
  volatile float f; volatile double d; volatile long double l; float g; double e; long double m; int ii; unsigned u; long tl;
  volatile int i = 7; i += 0.5; ii = i; pb("i+=0.5", &ii, 4);
  i = 7; i *= 1.5f; ii = i; pb("i*=1.5f", &ii, 4);
  i = 7; i /= 0.3L; ii = i; pb("i/=0.3L", &ii, 4);
  i = 7; i -= 7.9; ii = i; pb("i-=7.9", &ii, 4);
  volatile unsigned long ul = 1UL << 62; ul += 1.0f; unsigned long ull = ul; pb("ul+=1.0f", &ull, 8);
  ul = 12345678901234567UL; ul /= 3.0L; ull = ul; pb("ul/=3.0L", &ull, 8);
  f = 0.1f; f += 0.2; g = f; pb("f+=0.2", &g, 4);
  f = 0.1f; f += 0.2L; g = f; pb("f+=0.2L", &g, 4);
  f = 16777216.0f; f += 1; g = f; pb("f+=1", &g, 4);
  d = 0.1; d *= 3; e = d; pb("d*=3", &e, 8);
  d = 1e308; d *= 10.0f; e = d; pb("d*=10f", &e, 8);
  l = 0.1L; l -= 0.1; m = l; pb("l-=0.1", &m, 10);
  volatile signed char c = 100; c += 27.9; signed char cc = c; pb("c+=27.9", &cc, 1);
  volatile unsigned short us = 65535; us *= 0.5f; unsigned short uss = us; pb("us*=0.5f", &uss, 2);
  f = 1.5f; e = vsum(3, f, 2.25f, (float)0.1); pb("vsum", &e, 8);
  f = 0.1f; d = 0.2; e = vsum(4, f, d, 1, 0.3f); pb("vsum-int-mixed", &e, 8);
  l = 0.1L; m = vsuml(2, l, 2.5L); pb("vsuml", &m, 10);
  d = 0.1; g = tof(d); pb("tof", &g, 4);
  f = -3.99f; tl = tol(f); pb("tol", &tl, 8);
  e = fromi(-5); pb("fromi", &e, 8);
  g = tof(16777217); pb("tof(int)", &g, 4);
  g = tof(16777217L); pb("tof(long)", &g, 4);
  g = tof(0.1L); pb("tof(ld)", &g, 4);
  m = told(18446744073709551615UL); pb("told", &m, 10);
  l = 255.9L; cc = touc(l); pb("touc", &cc, 1);
  pb("gf1", &gf1, 4); pb("gd1", &gd1, 8); pb("gf2", &gf2, 4); pb("gi", &gi, 4); pb("gi2", &gi2, 4); pb("gl", &gl, 10);
  pb("gl2", &gl2, 10); pb("gf3", &gf3, 4); pb("gdd", &gdd, 8); pb("gsum", &gsum, 4); pb("gsum2", &gsum2, 8); pb("gmix", &gmix, 4);
  pb("gb", &gb, 1); pb("gb2", &gb2, 1); pb("gdiv", &gdiv, 10); pb("gneg", &gneg, 8); pb("gu1", &gu1, 8); pb("gl3", &gl3, 8);
  pb("gu32", &gu32, 4); pb("gcast", &gcast, 4); pb("gcond", &gcond, 8); pb("gfromu", &gfromu, 10); pb("gfroml", &gfroml, 8);
  pb("gfromu32", &gfromu32, 4);
  i = 1; e = i ? 1 : 2.5f; pb("?:", &e, 8); ii = sizeof(i ? 1 : 2.5f); pb("sz?:", &ii, 4);
  ii = sizeof(1 ? 1.0f : 2.0L); pb("sz?:2", &ii, 4); ii = sizeof(1.0f + 1); pb("szf+i", &ii, 4); ii = sizeof(1.0f + 1.0); pb("szf+d", &ii, 4);
  ii = sizeof(1UL + 1.0f); pb("szul+f", &ii, 4); ii = sizeof(-1.0f); pb("sz-f", &ii, 4); ii = sizeof(!1.0L); pb("sz!l", &ii, 4);
  ii = sizeof(1.0L < 2); pb("szcmp", &ii, 4); ii = sizeof((char)1 + 1.0f); pb("szc+f", &ii, 4);
  struct S st; d = 5.7; st.b = d; st.c = -d; ii = st.b; pb("bf", &ii, 4); ii = st.c; pb("bf2", &ii, 4);
  f = 2.5f; _Bool bb = f; pb("bb", &bb, 1); f = -0.0f; bb = f; pb("bb0", &bb, 1);
  f = 0.0f; f = f / f; ii = !!f; pb("!!nan", &ii, 4); ii = f ? 3 : 4; pb("nan?", &ii, 4); ii = (f == f); pb("nan==", &ii, 4);
  ii = (f != f) + 2 * (f < f) + 4 * (f <= f) + 8 * (f > f) + 16 * (f >= f); pb("nanrel", &ii, 4);
  d = 3.0; ii = (int)d % 2; pb("mod", &ii, 4);
  float arr[3] = {1, 2.5, 3L}; pb("arr1", &arr[1], 4); pb("arr2", &arr[2], 4);
  double darr[2] = {0.1f, 1e40L}; pb("darr0", &darr[0], 8); pb("darr1", &darr[1], 8);
  f = 3.7f; ii = (char)f; pb("(char)f", &ii, 4);
  d = -1e-320; e = -d; pb("negdenorm", &e, 8);
  u = 3000000000u; f = u; g = f; pb("u32f32", &g, 4); d = u; e = d; pb("u32f64", &e, 8);
  f = 3e9f; u = f; pb("f32u32", &u, 4);
  ii = (1.0 + 1e-19L) > 1.0L; pb("ldcmp", &ii, 4);
  ii = (0.1f == 0.1); pb("0.1f==0.1", &ii, 4); ii = (0.5f == 0.5); pb("0.5f==0.5", &ii, 4);
  ii = (16777217 == 16777217.0f); pb("int==float", &ii, 4); ii = (9007199254740993L < 9007199254740992.0); pb("long<double", &ii, 4);
  f = 1e-45f; d = f; e = d * 0.5; g = e; pb("denorm-half", &g, 4);
  d = 1.7976931348623157e308; e = d + d; pb("ovf", &e, 8); e = -d - d; pb("-ovf", &e, 8);
  d = 4.9406564584124654e-324; e = d / 2; pb("unf", &e, 8);
  l = 1.0L; m = l / 3; e = m; pb("ld/3->d", &e, 8); g = m; pb("ld/3->f", &g, 4);
  f = 1.0f; g = f / 3; e = g; pb("f/3->d", &e, 8);
  d = 0.1; e = (d + 0.2) - 0.3; pb("0.1+0.2-0.3", &e, 8);
  f = 0.1f; g = (f + 0.2f) - 0.3f; pb("0.1f+0.2f-0.3f", &g, 4);
  f = 0.1f; g = f * f * f; pb("fff", &g, 4); d = 0.1; e = d * d * d; pb("ddd", &e, 8);
  return 0;
}
'''
