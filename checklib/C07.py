"""C07 - translation-time constant evaluation equals run-time evaluation (parse.c eval/eval2/eval3/is_const_expr)."""
import os, json, hashlib
from .framework import *

PROPERTY = 'C07'
GEN_MODULES = ['consteval']
LEAN_TARGETS = ['ChibiVerif.Props.C07', 'ChibiVerif.Props.C07Float', 'ChibiVerif.Findings.C07']
PROPS_FILES = ['ChibiVerif/Props/C07.lean', 'ChibiVerif/Props/C07Float.lean']
NEEDS_HOOKS = False
TRUSTED_BASE = [
    'Lean 4.33.0 kernel; axioms admitted: propext, Classical.choice, Quot.sound (audited per theorem on every run)',
    'translator tools/extract/consteval.py + clang-14 typed AST: Gen/ConstEvalGen.lean is regenerated from parse.c '
    '(eval, eval2, eval3, eval_truth, eval_double, eval_double2, is_const_expr, const_expr, write_buf, write_gvar_data\'s scalar '
    'stores, every consumer of a folded constant incl. the _Alignas/aligned validation), type.c (is_integer, is_flonum) and chibicc.h on '
    'every run; eval3/eval_truth/eval_double/eval_double2 are inlined into two mutually recursive definitions eval2 / evalDouble so that '
    'recursion is structural (a same-node call chain that re-enters a function becomes Fail.crash); the translator refuses an operator both '
    'of whose operands call the folder (unspecified order of evaluation in C)',
    'Model/HostInt.lean: semantics of the host C operators the folder executes (int64_t/uint64_t arithmetic). The theorems about '
    'values are stated for HostMode.wrapping (signed overflow of the host wraps: gcc -O0 / x86-64, what the shipped binary does); '
    'in HostMode.strict (C11 abstract machine for the host) the folder is shown to reach host-undefined signed overflow on '
    'C11-defined unsigned long expressions (Findings/C07.lean)',
    'Model/HostFp.lean + Model/HostFpX86.lean: the host floating operations of the folder are the fields of HostFp; HostFp.ofOps is the '
    'assumption that the compiler was compiled for x86-64 with FLT_EVAL_METHOD 0 (SSE for float/double, x87 for long double, one '
    'instruction per C operation, conversions to int64_t/uint64_t deliver the integral part when C11 defines it)',
    'C07_fold_float is relative to C07Float.Sound (Lemmas/C07FloatLemmas.lean): FpuSpec\'s contracts (widening exact, fild of a 64-bit '
    'integer exact, fchs = sign bit) plus the narrowing contracts FpuSpec leaves open (fst rounds once and consistently with '
    'cvtsi2ss/sd, cvtsd2ss, cvtss2sd; no instruction manufactures a datum that does not survive widening and narrowing); satisfiable '
    '(toy FPU, Lemmas/C07FloatToy.lean).  The real FPU is not proved to meet them: Model/SoftFp.lean (software binary32/binary64/x87 '
    'arithmetic, round to nearest even) is what the driver runs, and it is compared bit for bit with the snapshot binary, the compiled '
    'program and gcc on every run',
    'Spec/ConstSpec.lean and Spec/ConstFSpec.lean (my reading of C11 6.3.1, 6.4.4.2, 6.5, 6.6, F.3; gcc/psABI choices for '
    'implementation-defined points; FLT_EVAL_METHOD 0), validated against gcc 12 on every generated program',
    'Model/ConstElab.lean, Model/ConstElabF.lean: hand models of the tree parse.c + add_type build for a constant expression; tied '
    'differentially: the value / the bits the real compiler folds for each generated expression are compared with Gen.eval2 / '
    'Gen.evalDouble over (elabE e / elabA e)',
    'address constants (&x, labels, members) are outside the model (Fail.unmodelled); their arms are pinned by source text; the '
    'bit-field path of write_gvar_data is covered by the consumer table only',
]
ASSUMPTIONS = ['nodes handed to the folder are typed (add_type is idempotent on typed nodes)',
               'gcc 12 -O0 evaluates C11-defined arithmetic expressions as C11 says (oracle for the Spec), with FLT_EVAL_METHOD 0',
               'the host compiler that builds chibicc wraps on signed overflow and computes float/double in SSE, long double in x87 '
               '(checked by running the snapshot binary against the model on every run)',
               'the compiler and the compiled program run under the same x87 control word (the default 0x37f)']

M64 = (1 << 64)

# --------------------------------------------------------------------------------------------------------------
# C11 integer semantics (python mirror of Spec/ConstSpec.lean; used to steer generation.  The authority is the Lean
# Spec through drv_c07: every value used as an expectation is the one the driver printed, and the mirror must agree.)

BITS = {'bool': 1, 'i8': 8, 'u8': 8, 'i16': 16, 'u16': 16, 'i32': 32, 'u32': 32, 'i64': 64, 'u64': 64}
SIGNED = {'i8', 'i16', 'i32', 'i64'}
CNAME = {'bool': '_Bool', 'i8': 'signed char', 'u8': 'unsigned char', 'i16': 'short', 'u16': 'unsigned short',
         'i32': 'int', 'u32': 'unsigned int', 'i64': 'long', 'u64': 'unsigned long'}
ALT_CNAME = {'i8': ['char', 'signed char'], 'i64': ['long', 'long long', 'long int'], 'u64': ['unsigned long', 'unsigned long long'],
             'u32': ['unsigned', 'unsigned int'], 'i16': ['short', 'short int']}
ITYS = list(BITS)
SIZE = {t: max(1, BITS[t] // 8) for t in ITYS}


def tmin(t): return -(1 << (BITS[t] - 1)) if t in SIGNED else 0
def tmax(t): return (1 << (BITS[t] - 1)) - 1 if t in SIGNED else (1 << BITS[t]) - 1
def inrange(t, v): return tmin(t) <= v <= tmax(t)
def promote(t): return 'i32' if BITS[t] < 32 else t


def common(a, b):
    a, b = promote(a), promote(b)
    for t in ('u64', 'i64', 'u32'):
        if a == t or b == t:
            return t
    return 'i32'


def convert(t, v):
    if t == 'bool':
        return 0 if v == 0 else 1
    n = BITS[t]
    if t in SIGNED:
        return (v + (1 << (n - 1))) % (1 << n) - (1 << (n - 1))
    return v % (1 << n)


def tdiv(a, b):
    q = abs(a) // abs(b)
    return q if (a >= 0) == (b >= 0) else -q


def arith(t, r):
    if t in SIGNED:
        return r if inrange(t, r) else None
    return r % (1 << BITS[t])


def binop(op, t, x, y):
    if op == 'add': return arith(t, x + y)
    if op == 'sub': return arith(t, x - y)
    if op == 'mul': return arith(t, x * y)
    if op == 'div': return None if y == 0 else arith(t, tdiv(x, y))
    if op == 'mod':
        if y == 0: return None
        if t in SIGNED and not inrange(t, tdiv(x, y)): return None
        return x - y * tdiv(x, y)
    if op in ('band', 'bor', 'bxor'):
        a, b = x % M64, y % M64
        r = {'band': a & b, 'bor': a | b, 'bxor': a ^ b}[op]
        return convert(t, r)
    if op == 'shl':
        if y < 0 or y >= BITS[t]: return None
        if t in SIGNED:
            if x < 0: return None
            return x << y if inrange(t, x << y) else None
        return (x << y) % (1 << BITS[t])
    if op == 'shr':
        if y < 0 or y >= BITS[t]: return None
        return x >> y
    return int({'eq': x == y, 'ne': x != y, 'lt': x < y, 'le': x <= y, 'gt': x > y, 'ge': x >= y}[op])


def type_of(e):
    k = e[0]
    if k == 'lit': return e[1]
    if k == 'un': return 'i32' if e[1] == 'lognot' else promote(type_of(e[2]))
    if k == 'bin':
        if e[1] in ('shl', 'shr'): return promote(type_of(e[2]))
        if e[1] in ('eq', 'ne', 'lt', 'le', 'gt', 'ge'): return 'i32'
        return common(type_of(e[2]), type_of(e[3]))
    if k in ('land', 'lor'): return 'i32'
    if k == 'cond': return common(type_of(e[2]), type_of(e[3]))
    if k == 'cast': return e[1]
    raise ValueError(k)


def ev(e):
    k = e[0]
    if k == 'lit':
        return e[2] if inrange(e[1], e[2]) else None
    if k == 'un':
        x = ev(e[2])
        if x is None: return None
        t = promote(type_of(e[2]))
        if e[1] == 'neg': return arith(t, -x)
        if e[1] == 'bitnot': return convert(t, ~x)
        if e[1] == 'lognot': return int(x == 0)
        return x
    if k == 'bin':
        x, y = ev(e[2]), ev(e[3])
        if x is None or y is None: return None
        if e[1] in ('shl', 'shr'):
            return binop(e[1], promote(type_of(e[2])), x, y)
        t = common(type_of(e[2]), type_of(e[3]))
        return binop(e[1], t, convert(t, x), convert(t, y))
    if k == 'land':
        x = ev(e[1])
        if x is None: return None
        if x == 0: return 0
        y = ev(e[2])
        return None if y is None else int(y != 0)
    if k == 'lor':
        x = ev(e[1])
        if x is None: return None
        if x != 0: return 1
        y = ev(e[2])
        return None if y is None else int(y != 0)
    if k == 'cond':
        c = ev(e[1])
        if c is None: return None
        t = common(type_of(e[2]), type_of(e[3]))
        r = ev(e[2]) if c != 0 else ev(e[3])
        return None if r is None else convert(t, r)
    if k == 'cast':
        x = ev(e[2])
        return None if x is None else convert(e[1], x)
    raise ValueError(k)


def all_defined(e):
    """every subexpression has a value (gcc may reject constants whose unevaluated parts are undefined only in some contexts)"""
    if ev(e) is None: return False
    return all(all_defined(c) for c in e[1:] if isinstance(c, tuple))


def sexpr(e):
    k = e[0]
    if k == 'lit': return f'(lit {e[1]} {e[2]})'
    if k == 'un': return f'(un {e[1]} {sexpr(e[2])})'
    if k == 'bin': return f'(bin {e[1]} {sexpr(e[2])} {sexpr(e[3])})'
    if k in ('land', 'lor'): return f'({k} {sexpr(e[1])} {sexpr(e[2])})'
    if k == 'cond': return f'(cond {sexpr(e[1])} {sexpr(e[2])} {sexpr(e[3])})'
    if k == 'cast': return f'(cast {e[1]} {sexpr(e[2])})'
    raise ValueError(k)


def depth(e):
    return 1 + max([depth(c) for c in e[1:] if isinstance(c, tuple)] or [0])


COPS = {'add': '+', 'sub': '-', 'mul': '*', 'div': '/', 'mod': '%', 'band': '&', 'bor': '|', 'bxor': '^', 'shl': '<<',
        'shr': '>>', 'eq': '==', 'ne': '!=', 'lt': '<', 'le': '<=', 'gt': '>', 'ge': '>='}
CUN = {'neg': '-', 'bitnot': '~', 'lognot': '!', 'plus': '+'}


def lits_of(e, out):
    if e[0] == 'lit':
        out.append(e)
    for c in e[1:]:
        if isinstance(c, tuple):
            lits_of(c, out)
    return out


def render(e, mode, names=None):
    """mode 'const': literal spellings; 'rt': every literal replaced by a volatile variable; 'pp': as const (for #if)"""
    k = e[0]
    if k == 'lit':
        if mode == 'rt':
            return names[id(e)]
        return e[3]
    if k == 'un':
        return f'({CUN[e[1]]} {render(e[2], mode, names)})'
    if k == 'bin':
        return f'({render(e[2], mode, names)} {COPS[e[1]]} {render(e[3], mode, names)})'
    if k == 'land':
        return f'({render(e[1], mode, names)} && {render(e[2], mode, names)})'
    if k == 'lor':
        return f'({render(e[1], mode, names)} || {render(e[2], mode, names)})'
    if k == 'cond':
        return f'({render(e[1], mode, names)} ? {render(e[2], mode, names)} : {render(e[3], mode, names)})'
    if k == 'cast':
        cn = e[3] if len(e) > 3 else CNAME[e[1]]
        return f'(({cn}){render(e[2], mode, names)})'
    raise ValueError(k)


# ------------------------------------------------------------------------------------------------------ literals

def c11_literal_type(v, base, suffix):
    """C11 6.4.4.1p5 on LP64; None if the constant has no type"""
    s = suffix.lower()
    u = 'u' in s
    l = 'l' in s
    if base == 10:
        cands = (['u64'] if l else ['u32', 'u64']) if u else (['i64'] if l else ['i32', 'i64'])
    else:
        if u: cands = ['u64'] if l else ['u32', 'u64']
        else: cands = ['i64', 'u64'] if l else ['i32', 'u32', 'i64', 'u64']
    for t in cands:
        if inrange(t, v):
            return t
    return None


BOUNDARY = [0, 1, 2, 3, 4, 5, 7, 8, 9, 10, 15, 16, 31, 32, 33, 63, 64, 65, 100, 127, 128, 129, 255, 256, 257, 1000, 32767, 32768,
            65535, 65536, 65537, (1 << 31) - 2, (1 << 31) - 1, 1 << 31, (1 << 31) + 1, (1 << 32) - 1, 1 << 32, (1 << 32) + 1,
            (1 << 63) - 1, 1 << 63, (1 << 63) + 1, (1 << 64) - 1, (1 << 64) - 2]


def gen_lit(rng, small=False):
    while True:
        r = rng.random()
        if small or r < 0.45:
            v = rng.choice(BOUNDARY[:22])
        elif r < 0.85:
            v = rng.choice(BOUNDARY)
        else:
            v = rng.getrandbits(rng.choice([8, 16, 31, 32, 33, 63, 64]))
        kind = rng.random()
        if kind < 0.06 and v < 256:
            # character constant: int; chibicc and gcc (x86-64): plain char is signed
            if 32 <= v < 127 and chr(v) not in "'\\":
                return ('lit', 'i32', v, f"'{chr(v)}'")
            sv = v - 256 if v >= 128 else v
            return ('lit', 'i32', sv, f"'\\x{v:x}'")
        if kind < 0.10:
            t = rng.choice(['char', 'short', 'int', 'long', 'long long', 'unsigned', 'char[3]', 'int[5]', 'long[2]', '_Bool', 'void*'])
            n = {'char': 1, 'short': 2, 'int': 4, 'long': 8, 'long long': 8, 'unsigned': 4, 'char[3]': 3, 'int[5]': 20, 'long[2]': 16,
                 '_Bool': 1, 'void*': 8}[t]
            return ('lit', 'u64', n, f'sizeof({t})')
        if kind < 0.14 and v < (1 << 31):
            return ('lit', 'i32', v, f'EC_{v}')         # enumeration constant (declared in the prelude)
        base = rng.choice([10, 10, 16, 16, 8])
        suffix = rng.choice(['', '', '', 'u', 'U', 'l', 'L', 'ul', 'UL', 'lu', 'll', 'LL', 'ull', 'ULL', 'llu', 'uLL', 'Ul'])
        t = c11_literal_type(v, base, suffix)
        if t is None:
            continue
        sp = {10: str(v), 16: rng.choice([hex(v), '0X' + format(v, 'X')]), 8: '0' + format(v, 'o') if v else '0'}[base] + suffix
        return ('lit', t, v, sp)


ARITH = ['add', 'sub', 'mul', 'div', 'mod', 'band', 'bor', 'bxor']
CMP = ['eq', 'ne', 'lt', 'le', 'gt', 'ge']


def gen_expr(rng, d, need_all_defined=True):
    """a random integer constant expression of depth <= d that has a C11 value"""
    if d <= 1 or rng.random() < 0.12:
        return gen_lit(rng)
    for _ in range(12):
        r = rng.random()
        if r < 0.40:
            op = rng.choice(ARITH + ARITH + ['shl', 'shr'] * 3)
            a = gen_expr(rng, d - 1)
            if op in ('shl', 'shr'):
                b = gen_lit(rng, small=True) if rng.random() < 0.7 else gen_expr(rng, d - 1)
            else:
                b = gen_expr(rng, d - 1)
            e = ('bin', op, a, b)
        elif r < 0.52:
            e = ('bin', rng.choice(CMP), gen_expr(rng, d - 1), gen_expr(rng, d - 1))
        elif r < 0.66:
            e = ('un', rng.choice(['neg', 'neg', 'bitnot', 'bitnot', 'lognot', 'plus']), gen_expr(rng, d - 1))
        elif r < 0.84:
            t = rng.choice(ITYS)
            cn = rng.choice(ALT_CNAME.get(t, [CNAME[t]]))
            e = ('cast', t, gen_expr(rng, d - 1), cn)
        elif r < 0.90:
            e = (rng.choice(['land', 'lor']), gen_expr(rng, d - 1), gen_expr(rng, d - 1))
        else:
            e = ('cond', gen_expr(rng, d - 1), gen_expr(rng, d - 1), gen_expr(rng, d - 1))
        if ev(e) is not None:
            return e
    return gen_lit(rng)


def boundary_battery():
    """operator x type pair x boundary operands at depth 1-2 (deterministic)"""
    out = []
    vals = {'i32': [0, 1, -1, 2, 7, -7, (1 << 31) - 1, -(1 << 31)], 'u32': [0, 1, 5, (1 << 31), (1 << 32) - 1],
            'i64': [0, 1, -1, 1 << 32, (1 << 63) - 1, -(1 << 63)], 'u64': [0, 1, 3, 1 << 63, (1 << 64) - 1],
            'i8': [-128, -1, 127], 'u8': [0, 200, 255], 'i16': [-32768, 32767], 'u16': [65535, 1], 'bool': [0, 1]}

    def mk(t, v):
        # a constant of type t and value v, spelled as C
        if t in ('i32', 'i64', 'u32', 'u64') and v >= 0:
            sfx = {'i32': '', 'u32': 'u', 'i64': 'L', 'u64': 'UL'}[t]
            return ('lit', t, v, f'{v}{sfx}')
        if t in ('i32', 'i64'):
            if v == tmin(t):
                lit = ('lit', t, -(v + 1), f'{-(v + 1)}{"L" if t == "i64" else ""}')
                return ('bin', 'sub', ('un', 'neg', lit), ('lit', 'i32', 1, '1'))
            return ('un', 'neg', ('lit', t, -v, f'{-v}{"L" if t == "i64" else ""}'))
        base = ('lit', 'i32', abs(v), str(abs(v)))
        return ('cast', t, base if v >= 0 else ('un', 'neg', base))

    for ta in vals:
        for tb in vals:
            for op in ARITH + ['shl', 'shr'] + CMP:
                for va in vals[ta]:
                    for vb in vals[tb]:
                        e = ('bin', op, mk(ta, va), mk(tb, vb))
                        if ev(e) is not None:
                            out.append(e)
    for ta in vals:
        for va in vals[ta]:
            for op in ('neg', 'bitnot', 'lognot', 'plus'):
                e = ('un', op, mk(ta, va))
                if ev(e) is not None:
                    out.append(e)
            for tb in ITYS:
                out.append(('cast', tb, mk(ta, va)))
    return out


# ------------------------------------------------------------------------------------------------------ contexts

def L(v, t='i32'):
    sfx = {'i32': '', 'u32': 'u', 'i64': 'L', 'u64': 'UL'}[t]
    return ('lit', t, v, f'{v}{sfx}')


def pp_ok(e):
    """usable in #if: no casts, no sizeof / enumeration constants"""
    if e[0] == 'cast':
        return False
    if e[0] == 'lit':
        return not (e[3].startswith('sizeof') or e[3].startswith('EC_'))
    return all(pp_ok(c) for c in e[1:] if isinstance(c, tuple))


def pp_retype(e):
    """C11 6.10.1p4: in #if all signed types act as intmax_t, all unsigned types as uintmax_t"""
    if e[0] == 'lit':
        return ('lit', 'i64' if e[1] in SIGNED else 'u64', e[2], e[3])
    return tuple(pp_retype(c) if isinstance(c, tuple) else c for c in e)


def contexts(e, rng):
    """derived expressions, one per constant context: list of (ctx, expr)"""
    v = ev(e)
    out = [('init_long', e)]
    t = rng.choice(ITYS)
    out.append(('init_' + t, e))
    out.append(('bound', ('bin', 'add', ('bin', 'band', e, L(255)), L(1))))
    out.append(('case', e))
    out.append(('enum', e if inrange('i32', v) else ('cast', 'i32', e)))
    out.append(('bitw', ('bin', 'add', ('bin', 'band', e, L(15)), L(1))))
    out.append(('alignas', ('bin', 'shl', L(1), ('bin', 'band', e, L(3)))))
    out.append(('desig', ('bin', 'band', e, L(63))))
    if pp_ok(e):
        r = pp_retype(e)
        if all_defined(r):
            out.append(('ppif', r))
    return out


PRELUDE = '''int printf(const char *, ...);
enum { %s };
'''


def build_program(cases):
    """cases: list of (k, e, ctxs).  Returns C text printing `k ctx value` lines (and `k rt value`)."""
    ecs = set()
    for k, e, ctxs in cases:
        for lit in lits_of(e, []):
            if lit[3].startswith('EC_'):
                ecs.add(lit[2])
    ecs.add(0)
    top = [PRELUDE % ', '.join(f'EC_{v} = {v}' for v in sorted(ecs))]
    body = []
    for k, e, ctxs in cases:
        lits = lits_of(e, [])
        names = {}
        decls = []
        for j, lit in enumerate(lits):
            names[id(lit)] = f'v{j}'
            decls.append(f'  volatile {CNAME[lit[1]]} v{j} = {lit[3]};')
        top.append(f'static long rt_{k}(void) {{\n' + '\n'.join(decls) + f'\n  return (long){render(e, "rt", names)};\n}}')
        body.append(f'  printf("{k} rt %ld\\n", rt_{k}());')
        for ctx, x in ctxs:
            c = render(x, 'const')
            if ctx == 'init_long':
                top.append(f'static long gl_{k} = {c};')
                body.append(f'  printf("{k} {ctx} %ld\\n", gl_{k});')
            elif ctx.startswith('init_'):
                t = ctx[5:]
                top.append(f'static {CNAME[t]} gt_{k} = {c};')
                if t == 'bool':
                    body.append(f'  printf("{k} {ctx} %ld\\n", (long)*(unsigned char *)&gt_{k});')
                else:
                    body.append(f'  printf("{k} {ctx} %ld\\n", (long)gt_{k});')
            elif ctx == 'bound':
                top.append(f'char ab_{k}[{c}];')
                body.append(f'  printf("{k} {ctx} %ld\\n", (long)sizeof(ab_{k}));')
            elif ctx == 'case':
                top.append(f'static long cs_{k}(long x) {{ switch (x) {{ case {c}: return 1; default: return 0; }} }}')
                body.append(f'  printf("{k} {ctx} %ld\\n", cs_{k}(rt_{k}()));')
            elif ctx == 'enum':
                top.append(f'enum {{ EN_{k} = {c} }};')
                body.append(f'  printf("{k} {ctx} %ld\\n", (long)EN_{k});')
            elif ctx == 'bitw':
                top.append(f'struct BF_{k} {{ unsigned x : {c}; }};')
                body.append(f'  {{ struct BF_{k} s; s.x = -1; printf("{k} {ctx} %ld\\n", (long)s.x); }}')
            elif ctx == 'alignas':
                top.append(f'struct AL_{k} {{ char a; _Alignas({c}) char b; }};')
                body.append(f'  printf("{k} {ctx} %ld\\n", (long)&((struct AL_{k} *)0)->b * 1000 + (long)sizeof(struct AL_{k}));')
            elif ctx == 'desig':
                top.append(f'static int dg_{k}[64] = {{ [{c}] = 7 }};')
                body.append(f'  {{ long at = -1; for (int i = 0; i < 64; i++) if (dg_{k}[i] == 7) at = i; printf("{k} {ctx} %ld\\n", at); }}')
            elif ctx == 'ppif':
                want = ev(x)
                wl = (f'{want}UL' if type_of(x) == 'u64' else (f'(-{-want - 1}L - 1)' if want < 0 else f'{want}L'))
                top.append(f'#if ({render(x, "pp")}) == {wl}\n#define PP_{k} 1\n#else\n#define PP_{k} 0\n#endif')
                body.append(f'  printf("{k} {ctx} %ld\\n", (long)PP_{k});')
    return '\n'.join(top) + '\nint main(void) {\n' + '\n'.join(body) + '\n  return 0;\n}\n'


def expected(ctx, x):
    """the value the program must print for context ctx, from the C11 value of the derived expression x"""
    v = ev(x)
    if ctx == 'init_long' or ctx == 'case' and False:
        return convert('i64', v)
    if ctx.startswith('init_'):
        return convert('i64', convert(ctx[5:], v))          # printed through (long)
    if ctx == 'case':
        return 1
    if ctx == 'bitw':
        return (1 << v) - 1
    if ctx == 'alignas':
        return v * 1000 + 2 * v
    if ctx == 'ppif':
        return 1
    return v


def model_expected(ctx, x, wrap, gvar=None):
    """what the *model* predicts the program prints: wrap = int64 image printed by drv_c07 for x,
    gvar = object bits from Gen.storeGvar"""
    if ctx == 'init_long':
        return wrap
    if ctx.startswith('init_'):
        t = ctx[5:]
        bits = gvar
        if t == 'bool':
            return bits
        return convert('i64', bits - (1 << BITS[t]) if t in SIGNED and bits >= (1 << (BITS[t] - 1)) else bits)
    if ctx == 'case':
        return None          # the label is compared at run time with the run-time value: checked through 'rt'
    if ctx == 'bitw':
        return (1 << convert('i32', wrap)) - 1 if 0 < convert('i32', wrap) <= 32 else None
    if ctx == 'alignas':
        a = convert('i32', wrap)
        return a * 1000 + 2 * a
    if ctx == 'ppif':
        return None
    if ctx in ('bound', 'enum', 'desig'):
        return convert('i32', wrap)
    return wrap


# ------------------------------------------------------------------------------------------------------ running

def compile_run(ctx, cc, src_path, exe, timeout=120):
    rc, o, e = sh([cc, '-w', '-o', exe, src_path] if 'gcc' in os.path.basename(cc) else [cc, '-o', exe, src_path], timeout=timeout)
    if rc != 0:
        return None, (e or o)[-600:]
    rc, o, e = sh([exe], timeout=60)
    if rc != 0:
        return None, f'program exited with {rc}: {e[-300:]}'
    vals = {}
    for line in o.splitlines():
        w = line.split()
        if len(w) == 3:
            vals[(int(w[0]), w[1])] = int(w[2])
    return vals, ''


def run_model(ctx, corr, text):
    """the Lean model and Spec on `text`.  The driver is run by Lean's IR interpreter (`lean --run`): the toolchain's clang
    miscompiles the natively compiled driver at -O3 (observed: ITy.promote dropped), the interpreter and the kernel agree.
    The native executable is still built (framework convention) and compared once; a difference is recorded, not trusted."""
    exe, err = ctx.build_driver()
    if exe is None:
        raise ModelBuildFailure(err)
    rc, o, e = sh(['lake', 'env', 'lean', '--run', 'ChibiVerif/Driver/C07Main.lean', 'eval'], cwd=ctx.lean_dir, input=text, timeout=3000)
    if rc != 0:
        raise RuntimeError(f'drv_c07 (interpreted) failed rc={rc}: {e[-500:]}')
    if not getattr(ctx, '_c07_native_checked', False):
        ctx._c07_native_checked = True
        rc2, o2, e2 = sh([exe, 'eval'], input=text, timeout=600)
        if o2 != o:
            n = sum(1 for a, b in zip(o.splitlines(), o2.splitlines()) if a != b)
            corr.extra['native_driver_differs_from_interpreter'] = f'{n} of {len(o.splitlines())} lines (clang -O3 miscompilation of the emitted C; interpreter output used)'
    return o


def run_batch(ctx, corr, cases, tag):
    """cases: list of (k, e, ctxs); returns False as soon as something was reported"""
    # 1. model + spec through the driver
    lines = []
    index = []
    for k, e, ctxs in cases:
        for c, x in [('rt', e)] + ctxs:
            lines.append('eval ' + sexpr(x))
            index.append((k, c, x))
            if c.startswith('init_') and c != 'init_long':
                lines.append(f'gvar {c[5:]} ' + sexpr(x))
                index.append((k, 'gvar', x))
    out = run_model(ctx, corr, '\n'.join(lines) + '\n').splitlines()
    if len(out) != len(lines):
        raise RuntimeError(f'drv_c07 answered {len(out)} lines for {len(lines)} expressions')
    drv = {}
    for (k, c, x), line in zip(index, out):
        if c == 'gvar':
            if not line.isdigit():
                corr.disagreements.append({'kind': 'storeGvar (model) fails on a defined initializer', 'input': sexpr(x), 'model': line})
                return False
            drv[(k, c)] = int(line)
            continue
        f = dict(w.split('=', 1) for w in line.split())
        drv[(k, c)] = f
        spec = None if f['spec'] == 'none' else int(f['spec'])
        if spec != ev(x) or f['ty'] != type_of(x):
            raise RuntimeError(f'python mirror of the Spec disagrees with Spec/ConstSpec.lean on {sexpr(x)}: {ev(x)} {type_of(x)} vs {line}')
        if f['const'] != 'true':
            corr.disagreements.append({'kind': 'is_const_expr (model) rejects an integer constant expression', 'input': sexpr(x), 'model': line})
            return False
        if not f['wrap'].startswith('ok:'):
            corr.disagreements.append({'kind': 'Gen.eval2 gives no value where C11 defines one', 'input': sexpr(x), 'c': render(x, 'const'), 'model': line})
            return False
        if f['strict'] == 'hostUB':
            corr.count('host-signed-overflow-reached')
    # 2. programs
    src = build_program(cases)
    path = os.path.join(ctx.scratch, f'c07_{tag}.c')
    open(path, 'w').write(src)
    got, err = compile_run(ctx, ctx.cc, path, os.path.join(ctx.scratch, f'c07_{tag}.chibicc'))
    ref, gerr = compile_run(ctx, 'gcc', path, os.path.join(ctx.scratch, f'c07_{tag}.gcc'))
    if ref is None:
        if len(cases) == 1:
            corr.count('gcc-rejects')           # outside what gcc accepts: cannot be validated, dropped
            return True
        ok = True
        for i, cs in enumerate(cases):
            ok = run_batch(ctx, corr, [cs], f'{tag}_{i}') and ok
            if not ok:
                break
        return ok
    if got is None:
        if len(cases) > 1:
            h = len(cases) // 2
            return run_batch(ctx, corr, cases[:h], tag + 'a') and run_batch(ctx, corr, cases[h:], tag + 'b')
        k, e, ctxs = cases[0]
        corr.violations.append({'what': 'chibicc rejects (or miscompiles to a crashing program) a program of valid constant expressions that gcc accepts',
                                'input': render(e, 'const'), 'sexpr': sexpr(e), 'expected': 'compiles and runs', 'got': err, 'program': src})
        return False
    for k, e, ctxs in cases:
        corr.evaluations += 1
        key = sexpr(e)
        if depth(e) >= 2:
            corr.nontrivial.add(hashlib.sha1(key.encode()).hexdigest())
        corr.count(f'depth{min(depth(e), 7)}')
        corr.count('type-' + type_of(e))
        for c, x in [('rt', e)] + ctxs:
            want = convert('i64', ev(x)) if c == 'rt' else expected(c, x)
            g = ref.get((k, c))
            r = got.get((k, c))
            corr.count('ctx-' + (c if not c.startswith('init_') else 'init_T' if c != 'init_long' else c))
            if g != want:
                corr.disagreements.append({'kind': 'Spec disagrees with gcc (spec or harness bug)', 'input': render(x, 'const'), 'ctx': c,
                                           'spec': want, 'gcc': g, 'sexpr': sexpr(x)})
                return False
            wrap = int(drv[(k, c)]['wrap'][3:])
            m = wrap if c == 'rt' else model_expected(c, x, wrap, drv.get((k, 'gvar')))
            if c != 'rt' and m is not None and m != r:
                corr.disagreements.append({'kind': 'model (Gen.eval2 . elabE, consumer conversion) differs from what chibicc folded',
                                           'input': render(x, 'const'), 'ctx': c, 'model': m, 'impl': r, 'sexpr': sexpr(x)})
                if r != want:
                    corr.violations.append(violation(c, e, x, want, r, g))
                return False
            if r != want:
                v = violation(c, e, x, want, r, g)
                corr.violations.append(v)
                return False
    return True


def violation(c, e, x, want, got, gcc):
    what = ('run-time evaluation by chibicc-compiled code differs from the C11 value' if c == 'rt' else
            f'constant context `{c}`: the value chibicc folds differs from the C11 value (= run-time value = gcc)')
    return {'what': what, 'input': render(x, 'const'), 'context': c, 'expected': want, 'got': got, 'gcc': gcc,
            'expression': render(e, 'const'), 'sexpr': sexpr(x), 'replay_sexpr': sexpr_full(e)}


def sexpr_full(e):
    """sexpr with spellings, for replay"""
    return json.dumps(e)


def from_json(j):
    return tuple(from_json(c) if isinstance(c, list) else c for c in j)


# ------------------------------------------------------------------------------------------------------ malformed

DIV0 = ['1/0', '1%0', '5L/(2-2)', '7u%(1>>1)', '(3,1)/0' if False else '1/(0*5)', '-1/0', '1/0u', '0/0', '1%(1-1)']


def div0_programs():
    out = []
    for z in DIV0:
        out.append(('init', f'static int x = {z};\n'))
        out.append(('bound', f'int a[{z}];\n'))
        out.append(('case', f'int f(int x) {{ switch (x) {{ case {z}: return 1; }} return 0; }}\n'))
        out.append(('enum', f'enum {{ A = {z} }};\n'))
        out.append(('bitw', f'struct S {{ int x : {z}; }};\n'))
        out.append(('alignas', f'_Alignas({z}) int x;\n'))
        out.append(('desig', f'int a[4] = {{ [{z}] = 1 }};\n'))
        out.append(('ppif', f'#if {z}\n#endif\n'))
        out.append(('local-static', f'int f(void) {{ static long x = 4 + {z}; return x; }}\n'))
    # INT64_MIN / -1 and % -1 must not trap (any diagnostic or any value is acceptable, a signal is not)
    for z in ['(-9223372036854775807L-1)/-1', '(-9223372036854775807L-1)%-1', '(-2147483647-1)/-1']:
        out.append(('minus-one', f'static long x = {z};\n'))
    return out


def malformed(ctx, corr):
    for i, (c, src) in enumerate(div0_programs()):
        path = os.path.join(ctx.scratch, f'div0_{i}.c')
        text = '\n\n' + src            # the expression is on line 3
        open(path, 'w').write(text)
        rc, o, e = sh([ctx.cc, '-cc1', '-cc1-input', path, '-cc1-output', '/dev/null', path], timeout=20)
        corr.evaluations += 1
        corr.count('malformed-' + c)
        corr.nontrivial.add('div0:' + src)
        if c == 'minus-one':
            if rc < 0 or rc > 1:
                corr.violations.append({'what': 'constant expression MIN / -1 kills the front end', 'input': src, 'replay_kind': 'div0', 'context': c, 'expected': 'exit 0 or 1', 'got': f'rc={rc} {e[-200:]}'})
                return False
            continue
        located = re.search(re.escape(os.path.basename(path)) + r':3: ', e) is not None
        if rc != 1 or not located or 'division by zero' not in e:
            corr.violations.append({'what': 'division by zero in a constant expression is not answered with a located diagnostic and exit status 1',
                                    'input': src, 'context': c, 'replay_kind': 'div0', 'expected': 'file:3: ... division by zero ..., exit 1',
                                    'got': f'rc={rc} stderr={e[-300:]!r}'})
            return False
    return True


# ------------------------------------------------------------------------------------------------------ floating

FLITS = ['0.1', '0.5', '0.7', '1.5', '2.5', '2.9', '3.0', '0.1f', '0.2f', '0.5f', '1.5f', '3.0f', '16777217.0f', '16777217.0', '1e40',
         '1e-46', '0.1L', '3.0L', '1.0L', '1e300', '0x1p-149f', '0x1.fffffep127f', '1e10', '123456789.0', '0.0', '1.0', '2.0f', '7', '3', '1u', '10L']
FTYPES = ['float', 'double', 'long double']


def gen_fexpr(rng, d):
    """floating / mixed arithmetic constant expression as C text with its run-time twin; magnitudes stay moderate"""
    if d <= 1 or rng.random() < 0.2:
        s = rng.choice(FLITS)
        return s
    r = rng.random()
    if r < 0.5:
        return f'({gen_fexpr(rng, d - 1)} {rng.choice("+-*/")} {gen_fexpr(rng, d - 1)})'
    if r < 0.6:
        return f'(-{gen_fexpr(rng, d - 1)})'
    if r < 0.85:
        return f'(({rng.choice(FTYPES)}){gen_fexpr(rng, d - 1)})'
    return f'({gen_fexpr(rng, d - 1)} ? {gen_fexpr(rng, d - 1)} : {gen_fexpr(rng, d - 1)})'


def gen_fint(rng, d):
    """integer-valued expression with floating operands"""
    a, b = gen_fexpr(rng, d - 1), gen_fexpr(rng, d - 1)
    r = rng.random()
    if r < 0.4:
        return f'({a} {rng.choice(["==", "!=", "<", "<=", ">", ">="])} {b})'
    if r < 0.55:
        return f'({a} {rng.choice(["&&", "||"])} {b})'
    if r < 0.65:
        return f'(!{a})'
    if r < 0.8:
        return f'((_Bool){a})'
    if r < 0.9:
        return f'({a} ? 11 : 22)'
    return f'((int)({rng.choice(["0.5", "2.9", "-2.9", "1e9", "2.5f", "7.99L", "-0.1"])} {rng.choice("+-*")} {rng.choice(["1.5", "2", "0.25f", "3.0L"])}))'


FCORPUS = ['1.0f/3.0f', '(float)0.1', '16777217.0f', '0.1f + 0.2f', '(float)1e40', '3 / 2 * 1.0', '3 / 2.0f', '1 ? 0.5 : 2',
           '(double)(float)0.1 * 3', '1.0L/3', '0.1L', '(float)0.1L', '(double)0.1L', '1e-46f' if False else '1e-46', '0.1 + 0.2', '(0.1f + 0.2f) * 3.0',
           '18446744073709551615UL * 1.0', '(long double)18446744073709551615UL', '9223372036854775807L + 0.0f', '-0.0', '1 - 1.0']
ICORPUS = ['0.5 ? 1 : 2', '!0.5', '0.5 && 1', '0.5 || 0', '0.5 == 0.7', '0.5 < 0.7', '1.5 > 1.2', '-0.5 != 0', '(_Bool)0.5', '(int)2.9', '(int)-2.9',
           '2.5 + 2.6', '0.0 ? 1 : 2', '-0.0 ? 1 : 2', '!0.0', '0.1f == 0.1', '(float)0.1 == 0.1f', '0.5f >= 0.5', '1e-320 != 0', '(long)1e18',
           '(unsigned char)200.7', '0.3L > 0.3', '(1 ? 0.5 : 2) > 0', '!(0.25f * 4 - 1)', '(_Bool)1e-46', '(_Bool)(float)1e-46']


def launder(src):
    """run-time twin: every numeric literal goes through a volatile of its own type"""
    decls = []

    def sub(m):
        tok = m.group(0)
        low = tok.lower()
        if low.startswith('0x') and 'p' in low or (not low.startswith('0x') and re.search(r'[.e]', low)):
            t = 'float' if low.endswith('f') else 'long double' if low.endswith('l') else 'double'
        else:
            u = 'u' in low[-3:]
            l = 'l' in low[-3:]
            t = ('unsigned long' if l else 'unsigned') if u else ('long' if l else 'int')
        decls.append(f'volatile {t} w{len(decls)} = {tok};')
        return f'w{len(decls) - 1}'
    body = re.sub(r'(?<![\w.])(0[xX][0-9a-fA-F.]+[pP][-+]?\d+[fFlL]?|\d+\.?\d*(?:[eE][-+]?\d+)?[fFlLuU]*|\.\d+(?:[eE][-+]?\d+)?[fFlL]?)', sub, src)
    return decls, body


def floating(ctx, corr):
    rng = ctx.rng
    n = 60 if not ctx.thorough else 600
    fl = list(FCORPUS) + [gen_fexpr(rng, rng.choice([2, 3, 3, 4])) for _ in range(n)]
    it = list(ICORPUS) + [gen_fint(rng, rng.choice([2, 3, 3])) for _ in range(n)]
    top = ['int printf(const char *, ...);', 'void *memcpy(void *, const void *, unsigned long);',
           'static void pb(int k, const char *c, const void *p, int n) { unsigned char b[16] = {0}; memcpy(b, p, n); '
           'printf("%d %s ", k, c); for (int i = n - 1; i >= 0; i--) printf("%02x", b[i]); printf("\\n"); }']
    body = []
    k = 0
    meta = {}
    for s in fl:
        for T, nb in (('float', 4), ('double', 8), ('long double', 10)):
            tag = T.replace(' ', '')
            decls, twin = launder(s)
            top.append(f'static {T} fc_{k}_{tag} = {s};')
            top.append(f'static {T} fr_{k}_{tag}(void) {{ {" ".join(decls)} return {twin}; }}')
            body.append(f'  pb({k}, "c_{tag}", &fc_{k}_{tag}, {nb}); {{ {T} r = fr_{k}_{tag}(); pb({k}, "r_{tag}", &r, {nb}); }}')
        meta[k] = s
        k += 1
    for s in it:
        decls, twin = launder(s)
        top.append(f'static long ic_{k} = {s};')
        top.append(f'enum {{ IE_{k} = (int)({s}) }};' if False else '')
        top.append(f'static long ir_{k}(void) {{ {" ".join(decls)} return {twin}; }}')
        body.append(f'  printf("{k} c_long %lx\\n", ic_{k}); printf("{k} r_long %lx\\n", ir_{k}());')
        meta[k] = s
        k += 1
    src = '\n'.join(top) + '\nint main(void) {\n' + '\n'.join(body) + '\n  return 0;\n}\n'
    path = os.path.join(ctx.scratch, 'c07_float.c')
    open(path, 'w').write(src)

    def run(cc, exe):
        rc, o, e = sh([cc, '-w', '-o', exe, path] if cc == 'gcc' else [cc, '-o', exe, path], timeout=300)
        if rc != 0:
            return None, (e or o)[-800:]
        rc, o, e = sh([exe], timeout=60)
        if rc != 0:
            return None, f'exit {rc}'
        d = {}
        for line in o.splitlines():
            w = line.split()
            if len(w) == 3:
                d[(int(w[0]), w[1])] = w[2]
        return d, ''
    got, err = run(ctx.cc, os.path.join(ctx.scratch, 'c07_float.chibicc'))
    ref, gerr = run('gcc', os.path.join(ctx.scratch, 'c07_float.gcc'))
    if ref is None:
        raise RuntimeError('gcc rejects the floating probe program: ' + gerr)
    if got is None:
        corr.violations.append({'what': 'chibicc rejects a program of floating constant expressions that gcc accepts', 'input': '(floating batch)',
                                'expected': 'compiles', 'got': err})
        return False
    for kk, s in meta.items():
        tags = sorted({c[2:] for (q, c) in ref if q == kk})
        for tag in tags:
            gc, gr = ref.get((kk, 'c_' + tag)), ref.get((kk, 'r_' + tag))
            cc_, cr = got.get((kk, 'c_' + tag)), got.get((kk, 'r_' + tag))
            corr.evaluations += 1
            corr.count('float-' + tag)
            if gc != gr:
                corr.count('skipped_ub')           # gcc itself folds differently from its run time (excess precision / UB): not a valid probe
                continue
            corr.nontrivial.add('f:' + s + ':' + tag)
            if cc_ != cr:
                corr.violations.append({'what': f'floating/arithmetic constant expression: folded value differs from run-time evaluation (as {tag})',
                                        'input': s, 'replay_kind': 'float', 'expected': f'run time {cr} (gcc {gc})', 'got': cc_})
                return False
            if cc_ != gc:
                corr.count('float-const-equals-runtime-but-not-gcc')     # a C02/C11 matter (conversion or literal), not constant folding
    corr.sample({'floating': {'expr': fl[len(FCORPUS)] if len(fl) > len(FCORPUS) else fl[0]}})
    return True


# ------------------------------------------------------------------------------------------------------ floating, structured
# Arithmetic constant expressions with floating operands as trees (the syntax of `drv_c07 feval`), so that the translated
# folder (Gen.eval2 / Gen.evalDouble over elabA, run on the software FPU) and the floating Spec can be compared with the real
# compiler bit for bit.  Literal leaves carry their spelling and the 80-bit long double the tokenizer holds for it.

from . import c07_fpbits as fpb
from fractions import Fraction

FTYS = ['f32', 'f64', 'f80']
FCNAME = {'f32': 'float', 'f64': 'double', 'f80': 'long double'}
FSUFFIX = {'f32': 'f', 'f64': '', 'f80': 'L'}
FDEC = ['0.1', '0.5', '0.7', '1.5', '2.5', '2.9', '3.0', '0.3', '0.0', '1.0', '2.0', '1e10', '123456789.0', '16777217.0', '1e-46', '1e300',
        '1e40', '4294967296.0', '9223372036854775808.0', '1.8e19', '18446744073709551615.0', '1e-320', '3.4028235e38', '0.999999999', '7.99',
        '255.5', '65535.9', '2147483647.5', '4294967295.5', '9007199254740993.0', '1e19', '1e-5']


def is_f(t): return t in FTYS


def acname(t): return FCNAME[t] if is_f(t) else CNAME[t]


def gen_flit(rng):
    t = rng.choice(['f32', 'f64', 'f64', 'f80'])
    if rng.random() < 0.6:
        body = rng.choice(FDEC)
    else:
        p = {'f32': 24, 'f64': 53, 'f80': 64}[t]
        nb = rng.choice([1, 4, p - 1, p, p + 3])
        frac = rng.getrandbits(4 * ((nb + 3) // 4))
        ex = rng.choice([0, 0, 1, -1, 3, 10, 23, 24, 31, 32, 52, 53, 62, 63, 64, -10, -30, rng.randint(-60, 70)])
        if rng.random() < 0.06:
            ex = rng.choice({'f32': [127, -126, -140, -149], 'f64': [1023, -1022, -1060, 127, -149], 'f80': [16383, -16382, 1023, -1074]}[t])
        body = f'0x1.{frac:x}p{ex}' if nb > 1 else f'0x1p{ex}'
    x = fpb.frac_of(body)
    return ('flit', t, fpb.literal_fval(x, t), body + FSUFFIX[t])


def atype(e):
    k = e[0]
    if k == 'lit': return e[1]
    if k == 'flit': return e[1]
    if k == 'un':
        if e[1] == 'lognot': return 'i32'
        t = atype(e[2])
        return t if is_f(t) else promote(t)
    if k == 'bin':
        ta, tb = atype(e[2]), atype(e[3])
        if e[1] in ('shl', 'shr'): return ta if is_f(ta) else promote(ta)
        if e[1] in CMP: return 'i32'
        return ausual(ta, tb)
    if k in ('land', 'lor'): return 'i32'
    if k == 'cond': return ausual(atype(e[2]), atype(e[3]))
    if k == 'cast': return e[1]
    raise ValueError(k)


def ausual(a, b):
    for t in ('f80', 'f64', 'f32'):
        if a == t or b == t:
            return t
    return common(a, b)


def asexpr(e):
    k = e[0]
    if k == 'lit': return f'(lit {e[1]} {e[2]})'
    if k == 'flit': return f'(flit {e[1]} {e[2]:020x})'
    if k == 'un': return f'(un {e[1]} {asexpr(e[2])})'
    if k == 'bin': return f'(bin {e[1]} {asexpr(e[2])} {asexpr(e[3])})'
    if k in ('land', 'lor'): return f'({k} {asexpr(e[1])} {asexpr(e[2])})'
    if k == 'cond': return f'(cond {asexpr(e[1])} {asexpr(e[2])} {asexpr(e[3])})'
    if k == 'cast': return f'(cast {e[1]} {asexpr(e[2])})'
    raise ValueError(k)


def alits(e, out):
    if e[0] in ('lit', 'flit'):
        out.append(e)
    for c in e[1:]:
        if isinstance(c, tuple):
            alits(c, out)
    return out


def arender(e, mode, names=None):
    k = e[0]
    if k in ('lit', 'flit'):
        return names[id(e)] if mode == 'rt' else e[3]
    if k == 'un': return f'({CUN[e[1]]} {arender(e[2], mode, names)})'
    if k == 'bin': return f'({arender(e[2], mode, names)} {COPS[e[1]]} {arender(e[3], mode, names)})'
    if k == 'land': return f'({arender(e[1], mode, names)} && {arender(e[2], mode, names)})'
    if k == 'lor': return f'({arender(e[1], mode, names)} || {arender(e[2], mode, names)})'
    if k == 'cond': return f'({arender(e[1], mode, names)} ? {arender(e[2], mode, names)} : {arender(e[3], mode, names)})'
    if k == 'cast': return f'(({acname(e[1])}){arender(e[2], mode, names)})'
    raise ValueError(k)


def has_float(e):
    return e[0] == 'flit' or (e[0] == 'cast' and is_f(e[1])) or any(has_float(c) for c in e[1:] if isinstance(c, tuple))


def gen_aexpr(rng, d):
    """a random arithmetic constant expression with floating operands, depth <= d (whether it has a C11 value is decided by the Spec)"""
    if d <= 1 or rng.random() < 0.15:
        return gen_flit(rng) if rng.random() < 0.7 else gen_lit(rng, small=rng.random() < 0.5)
    r = rng.random()
    if r < 0.42:
        a, b = gen_aexpr(rng, d - 1), gen_aexpr(rng, d - 1)
        if is_f(atype(a)) or is_f(atype(b)):
            op = rng.choice(['add', 'sub', 'mul', 'div'])
        else:
            op = rng.choice(['add', 'sub', 'mul', 'band', 'shr'])
        return ('bin', op, a, b)
    if r < 0.55:
        return ('bin', rng.choice(CMP), gen_aexpr(rng, d - 1), gen_aexpr(rng, d - 1))
    if r < 0.64:
        a = gen_aexpr(rng, d - 1)
        return ('un', rng.choice(['neg', 'neg', 'lognot', 'plus'] if is_f(atype(a)) else ['neg', 'bitnot', 'lognot', 'plus']), a)
    if r < 0.86:
        t = rng.choice(FTYS + FTYS + ['i32', 'i64', 'u64', 'u32', 'u8', 'i8', 'i16', 'u16', 'bool'])
        return ('cast', t, gen_aexpr(rng, d - 1))
    if r < 0.92:
        return (rng.choice(['land', 'lor']), gen_aexpr(rng, d - 1), gen_aexpr(rng, d - 1))
    return ('cond', gen_aexpr(rng, d - 1), gen_aexpr(rng, d - 1), gen_aexpr(rng, d - 1))


def FL(text):
    low = text.lower()
    t = 'f32' if low.endswith('f') else 'f80' if low.endswith('l') else 'f64'
    body = text[:-1] if t != 'f64' else text
    return ('flit', t, fpb.literal_fval(fpb.frac_of(body), t), text)


DOUBLE_ROUNDING = [('1.0', '0x1.002p-53'), ('0x1.0000000000001p0', '0x1.ffep-54'), ('0x1.fffffffffffffp0', '0x1.0000000000001p0'),
                   ('1.0', '0x1.000002p-24'), ('0x1.000001p0', '0x1.000001p0'), ('1.0', '0x1.8p-53')]


def float_core():
    """always run: operand pairs whose exact result rounds differently to double directly and through the x87 significand (or to
    float through double), every arithmetic operator, in each format"""
    out = []
    for a, b in DOUBLE_ROUNDING:
        for sfx in ('', 'f', 'L'):
            for op in ('add', 'sub', 'mul', 'div'):
                out.append(('bin', op, FL(a + sfx), FL(b + sfx)))
    out += [('cast', 'u64', FL('1.8e19')), ('cast', 'u64', FL('1.8e19f')), ('cast', 'u64', FL('1.8e19L')),
            ('cast', 'u64', FL('9223372036854775808.0')), FL('1.8e19'), FL('9223372036854775808.0'), ('bin', 'add', FL('1.8e19'), L(0))]
    return out


def float_battery():
    """deterministic: every conversion pair on boundary values, every operator at every floating type"""
    out = []
    vals = ['0.0', '0.5', '2.9', '255.5', '65535.9', '2147483647.5', '4294967295.5', '16777217.0', '9007199254740993.0',
            '9223372036854775807.0', '9223372036854775808.0', '1.8e19', '1e-46', '3.4028235e38', '1e300', '0.1']
    for v in vals:
        for sfx in ('f', '', 'L'):
            x = FL(v + sfx)
            for t in FTYS + ['i8', 'u8', 'i16', 'u16', 'i32', 'u32', 'i64', 'u64', 'bool']:
                out.append(('cast', t, x))
                out.append(('cast', t, ('un', 'neg', x)))
    ints = [L(0), L(1), L(16777217), L(2147483647), ('un', 'neg', L(1)), L(4294967295, 'u32'), L(9223372036854775807, 'i64'),
            L(18446744073709551615, 'u64'), L(9223372036854775809, 'u64'), L(9007199254740993, 'i64'), ('cast', 'i8', ('un', 'neg', L(5))),
            ('cast', 'u16', L(65535)), ('cast', 'bool', L(7))]
    for i in ints:
        for t in FTYS:
            out.append(('cast', t, i))
            out.append(('bin', 'add', i, FL('0.0' + FSUFFIX[t])))
    pairs = [('0.1', '0.2'), ('1.0', '3.0'), ('16777216.0', '1.0'), ('1e300', '1e300'), ('1e-300', '1e-300'), ('0.0', '0.0'), ('1.0', '0.0'),
             ('3.4028235e38', '3.4028235e38'), ('1e-40', '3.0'), ('0.5', '0.7'), ('2.5', '2.5'),
             ] + DOUBLE_ROUNDING
    pairs = [p for p in pairs if p]
    for a, b in pairs:
        for sa in ('f', '', 'L'):
            for sb in ('f', '', 'L'):
                for op in ('add', 'sub', 'mul', 'div', 'eq', 'ne', 'lt', 'le', 'gt', 'ge'):
                    out.append(('bin', op, FL(a + sa), FL(b + sb)))
    for v in ('0.0', '0.5', '1e-46', '1e-320'):
        for sfx in ('f', '', 'L'):
            x = FL(v + sfx)
            out += [('un', 'lognot', x), ('un', 'lognot', ('un', 'neg', x)), ('land', x, L(1)), ('lor', x, L(0)), ('cond', x, L(11), L(22)),
                    ('cond', x, FL('1.5'), L(2)), ('cast', 'bool', x), ('cond', L(1), x, L(2)), ('un', 'plus', x), ('un', 'neg', x)]
    return out


def obj_types(rng, e):
    t = atype(e)
    base = ['f32', 'f64', 'f80', 'i64']
    extra = [rng.choice(['u64', 'i32', 'u32', 'u8', 'i8', 'u16', 'i16', 'bool'])]
    return base + extra if is_f(t) else ['i64', 'f64', rng.choice(['f32', 'f80'])] + extra


def nbytes(t): return {'f32': 4, 'f64': 8, 'f80': 10}[t] if is_f(t) else SIZE[t]


def parse_fields(line):
    return dict(w.split('=', 1) for w in line.split())


def spec_bits(val, t):
    """hex of the object of type t holding the Spec value `val` (int:<n> | f32:.. | f64:.. | f80:..), or None"""
    if val == 'none':
        return None
    k, v = val.split(':')
    if k == 'int':
        return format(int(v) % (1 << (8 * SIZE[t])), f'0{2 * SIZE[t]}x')
    return v


def is_nan_hex(h, t):
    if not is_f(t):
        return False
    return fpb.decode(int(h, 16), t)[0] == 'nan'


def floating_model(ctx, corr):
    """structured floating leg: constant-context bits = model bits (tie) = run-time bits (property) = Spec = gcc (oracle)"""
    rng = ctx.rng
    batt = float_battery()
    if not ctx.thorough:
        batt = rng.sample(batt, 160)
    batt = float_core() + batt
    n = 200 if not ctx.thorough else 5000
    exprs = batt + [gen_aexpr(rng, rng.choice([2, 3, 3, 4, 4, 5])) for _ in range(n)]
    exprs = [e for e in exprs if has_float(e)]
    B = 120
    for b0 in range(0, len(exprs), B):
        if not float_batch(ctx, corr, [(b0 + i, e) for i, e in enumerate(exprs[b0:b0 + B])], f'fm{b0}'):
            return False
    return True


def float_batch(ctx, corr, cases, tag):
    rng = ctx.rng
    # 1. Spec and model through the driver
    lines, index = [], []
    plan = []
    for k, e in cases:
        ots = obj_types(rng, e)
        plan.append((k, e, ots))
        lines.append('feval ' + asexpr(e)); index.append((k, 'self', None))
        for t in ots:
            lines.append('feval ' + asexpr(('cast', t, e))); index.append((k, 'spec', t))
            lines.append(f'fgvar {t} ' + asexpr(e)); index.append((k, 'gvar', t))
    out = run_model(ctx, corr, '\n'.join(lines) + '\n').splitlines()
    if len(out) != len(lines):
        raise RuntimeError(f'drv_c07 answered {len(out)} lines for {len(lines)} floating operations')
    drv = {}
    for (k, what, t), line in zip(index, out):
        drv[(k, what, t)] = line
    good = []
    for k, e, ots in plan:
        f = parse_fields(drv[(k, 'self', None)])
        if f.get('ty') != atype(e):
            raise RuntimeError(f'python typing of arithmetic expressions disagrees with Spec/ConstFSpec.lean on {asexpr(e)}: {atype(e)} vs {drv[(k, "self", None)]}')
        if f['spec'] == 'none':
            corr.count('skipped_ub')              # no C11 value (out-of-range conversion, integer overflow, …): not a valid probe
            continue
        if f['const'] != 'true':
            corr.disagreements.append({'kind': 'is_const_expr (model) rejects an arithmetic constant expression', 'input': arender(e, 'const'),
                                       'sexpr': asexpr(e), 'model': drv[(k, 'self', None)]})
            return False
        ots2 = []
        for t in ots:
            sp = parse_fields(drv[(k, 'spec', t)])['spec']
            if sp == 'none':
                corr.count('skipped_ub')
                continue
            if t == 'u64' and is_f(atype(e)) and int(sp.split(':')[1]) >= (1 << 63):
                # uncast floating initializer of an unsigned long object, value >= 2^63: folded through int64_t before fix 6a09034
                corr.count('float-init-u64-above-2^63')
            ots2.append(t)
        if ots2:
            good.append((k, e, ots2))
    if not good:
        return True
    # 2. the program
    top = ['int printf(const char *, ...);', 'void *memcpy(void *, const void *, unsigned long);',
           'static void pb(int k, const char *c, const void *p, int n) { unsigned char b[16] = {0}; memcpy(b, p, n); '
           'printf("%d %s ", k, c); for (int i = n - 1; i >= 0; i--) printf("%02x", b[i]); printf("\\n"); }']
    body = []
    for k, e, ots in good:
        lits = alits(e, [])
        names, decls = {}, []
        for j, lit in enumerate(lits):
            names[id(lit)] = f'w{j}'
            decls.append(f'volatile {acname(lit[1])} w{j} = {lit[3]};')
        c = arender(e, 'const')
        rt = arender(e, 'rt', names)
        for t in ots:
            T = acname(t)
            top.append(f'static {T} fc_{k}_{t} = {c};')
            top.append(f'static {T} fr_{k}_{t}(void) {{ {" ".join(decls)} return {rt}; }}')
            body.append(f'  pb({k}, "c_{t}", &fc_{k}_{t}, {nbytes(t)}); {{ {T} r = fr_{k}_{t}(); pb({k}, "r_{t}", &r, {nbytes(t)}); }}')
    src = '\n'.join(top) + '\nint main(void) {\n' + '\n'.join(body) + '\n  return 0;\n}\n'
    path = os.path.join(ctx.scratch, f'c07_{tag}.c')
    open(path, 'w').write(src)

    def run(cc, exe):
        rc, o, e = sh([cc, '-w', '-o', exe, path] if cc == 'gcc' else [cc, '-o', exe, path], timeout=600)
        if rc != 0:
            return None, (e or o)[-800:]
        rc, o, e = sh([exe], timeout=120)
        if rc != 0:
            return None, f'exit {rc}'
        d = {}
        for line in o.splitlines():
            w = line.split()
            if len(w) == 3:
                d[(int(w[0]), w[1])] = w[2]
        return d, ''
    got, err = run(ctx.cc, os.path.join(ctx.scratch, f'c07_{tag}.chibicc'))
    ref, gerr = run('gcc', os.path.join(ctx.scratch, f'c07_{tag}.gcc'))
    if ref is None:
        if len(good) == 1:
            corr.count('gcc-rejects')
            return True
        h = len(good) // 2
        return (float_batch(ctx, corr, [(k, e) for k, e, _ in good[:h]], tag + 'g') and
                float_batch(ctx, corr, [(k, e) for k, e, _ in good[h:]], tag + 'h'))
    if got is None:
        if len(good) > 1:
            h = len(good) // 2
            return (float_batch(ctx, corr, [(k, e) for k, e, _ in good[:h]], tag + 'a') and
                    float_batch(ctx, corr, [(k, e) for k, e, _ in good[h:]], tag + 'b'))
        k, e, ots = good[0]
        corr.violations.append({'what': 'chibicc rejects (or miscompiles to a crashing program) a program of valid arithmetic constant expressions that gcc accepts',
                                'input': arender(e, 'const'), 'sexpr': asexpr(e), 'expected': 'compiles and runs', 'got': err,
                                'replay_kind': 'fmodel', 'replay_fexpr': json.dumps(e)})
        return False
    for k, e, ots in good:
        corr.evaluations += 1
        corr.nontrivial.add('fm:' + asexpr(e))
        corr.count('fm-type-' + atype(e))
        for t in ots:
            want = spec_bits(parse_fields(drv[(k, 'spec', t)])['spec'], t)
            model = drv[(k, 'gvar', t)]
            gc, gr = ref.get((k, 'c_' + t)), ref.get((k, 'r_' + t))
            cc_, cr = got.get((k, 'c_' + t)), got.get((k, 'r_' + t))
            corr.count('fm-obj-' + t)
            nan = is_nan_hex(want, t)
            if gc != gr:
                corr.count('skipped_ub')           # gcc folds differently from its own run time (NaN sign, excess precision): not a valid probe
                continue
            if gr != want and not (nan and is_nan_hex(gr, t)):
                corr.disagreements.append({'kind': 'floating Spec (over the software FPU) disagrees with gcc (spec, SoftFp or harness bug)',
                                           'input': arender(e, 'const'), 'object': t, 'spec': want, 'gcc': gr, 'sexpr': asexpr(e)})
                return False
            if model != cc_ and not (nan and is_nan_hex(cc_, t) and is_nan_hex(model, t)):
                corr.disagreements.append({'kind': 'model (Gen.evalDouble / Gen.eval2 over elabA, software FPU) differs from what chibicc folded',
                                           'input': arender(e, 'const'), 'object': t, 'model': model, 'impl': cc_, 'sexpr': asexpr(e)})
                if cc_ != cr:
                    corr.violations.append(fviolation(e, t, cr, cc_, gc))
                return False
            if cc_ != cr:
                corr.violations.append(fviolation(e, t, cr, cc_, gc))
                return False
            elif cc_ != gc:
                corr.count('float-const-equals-runtime-but-not-gcc')
    k, e, ots = good[-1]
    corr.sample({'floating_expression': arender(e, 'const'), 'type': atype(e), 'objects': ots})
    return True


def float_impl_only(ctx, e, t):
    """replay without the model: constant-context bits vs run-time bits of the snapshot binary"""
    t = t or atype(e)
    lits = alits(e, [])
    names, decls = {}, []
    for j, lit in enumerate(lits):
        names[id(lit)] = f'w{j}'
        decls.append(f'volatile {acname(lit[1])} w{j} = {lit[3]};')
    T = acname(t)
    src = ('int printf(const char *, ...);\nvoid *memcpy(void *, const void *, unsigned long);\n'
           'static void pb(const char *c, const void *p, int n) { unsigned char b[16] = {0}; memcpy(b, p, n); printf("%s ", c); '
           'for (int i = n - 1; i >= 0; i--) printf("%02x", b[i]); printf("\\n"); }\n'
           f'static {T} fc = {arender(e, "const")};\nstatic {T} fr(void) {{ {" ".join(decls)} return {arender(e, "rt", names)}; }}\n'
           f'int main(void) {{ pb("c", &fc, {nbytes(t)}); {T} r = fr(); pb("r", &r, {nbytes(t)}); return 0; }}\n')
    path = os.path.join(ctx.scratch, 'c07_freplay.c')
    open(path, 'w').write(src)
    exe = os.path.join(ctx.scratch, 'c07_freplay.exe')
    rc, o, err = sh([ctx.cc, '-o', exe, path], timeout=60)
    if rc != 0:
        return [{'what': 'chibicc rejects the replayed arithmetic constant expression', 'input': arender(e, 'const'), 'expected': 'compiles', 'got': err[-300:]}]
    rc, o, err = sh([exe], timeout=20)
    d = dict(l.split() for l in o.splitlines() if len(l.split()) == 2)
    if d.get('c') != d.get('r'):
        return [fviolation(e, t, d.get('r'), d.get('c'), None)]
    return []


def fviolation(e, t, cr, cc_, gc):
    return {'what': f'arithmetic constant expression with floating operands: the value folded into a static {acname(t)} object differs from '
                    'run-time evaluation of the same expression', 'input': f'static {acname(t)} x = {arender(e, "const")};',
            'expected': f'run time {cr} (gcc {gc})', 'got': cc_, 'sexpr': asexpr(e), 'object': t, 'replay_kind': 'fmodel',
            'replay_fexpr': json.dumps(e), 'replay_obj': t}


# ------------------------------------------------------------------------------------------------------ order of evaluation
# C07_fold_order: in every binary arm the LEFT operand of the node is folded first, so of two non-constant operands the left
# one is diagnosed.  Each probe puts the two operands on different lines; `a > b` is parsed as `b < a` (node order).

ORDER_OPS = ['+', '-', '*', '/', '%', '&', '|', '^', '<<', '>>', '==', '!=', '<', '<=', '>', '>=']


def order_programs():
    out = []
    for op in ORDER_OPS:
        swapped = op in ('>', '>=')
        out.append((f'int {op}', f'int a, b;\nenum {{ E = (\na\n){op}(\nb\n) }};\n', 5 if swapped else 3))
        out.append((f'int-init {op}', f'int a, b;\nstatic long x = (\na\n){op}(\nb\n);\n', 5 if swapped else 3))
        if op in ('+', '-', '*', '/', '==', '!=', '<', '<=', '>', '>='):
            out.append((f'double {op}', f'double a, b;\nstatic double x = (\na\n){op}(\nb\n);\n', 5 if swapped else 3))
            out.append((f'mixed {op}', f'double a; int b;\nstatic long x = (\na\n){op}(\nb\n);\n', 5 if swapped else 3))
    return out


def order_leg(ctx, corr, cc=None, record=True):
    """returns the first violation dict or None"""
    cc = cc or ctx.cc
    for i, (name, src, want) in enumerate(order_programs()):
        path = os.path.join(ctx.scratch, f'order_{i}.c')
        open(path, 'w').write(src)
        rc, o, e = sh([cc, '-cc1', '-cc1-input', path, '-cc1-output', '/dev/null', path], timeout=20)
        if record:
            corr.evaluations += 1
            corr.count('order-' + name.split()[0])
            corr.nontrivial.add('order:' + name)
        m = re.search(re.escape(os.path.basename(path)) + r':(\d+): ', e)
        if rc != 1 or not m or int(m.group(1)) != want:
            return {'what': 'two non-constant operands of a binary operator: the diagnostic is not the left operand\'s (the order of '
                            'evaluation of the folder is left to right in the model, C07_fold_order)', 'input': src, 'operator': name,
                    'expected': f'exit 1, diagnostic at line {want}', 'got': f'rc={rc} {e.strip()[-200:]!r}', 'replay_kind': 'order'}
    return None


# ------------------------------------------------------------------------------------------------------ alignment consumers

def align_leg(ctx, corr):
    """_Alignas(n) / aligned(n): the model's validated store (Gen.store_declspec_align / store_attribute_list_ty_align) against
    the real compiler: rejected values are diagnosed, accepted ones take effect as the alignment"""
    vals = [0, 1, 2, 3, 4, 6, 8, 16, 24, 64, 4096, 1 << 20, 1 << 28, (1 << 28) + 1, 1 << 29, 1 << 31, 1 << 32, (1 << 32) + 16, -1, -8,
            (1 << 63) - 1]
    sites = [('declspec', 'align', 'int printf(const char *, ...);\nstruct S { char a; _Alignas(%s) char c; };\n'
              'int main(void) { printf("%%ld\\n", (long)_Alignof(struct S)); return 0; }\n'),
             ('attribute_list', 'ty->align', 'int printf(const char *, ...);\nstruct __attribute__((aligned(%s))) S { char c; };\n'
              'int main(void) { printf("%%ld\\n", (long)_Alignof(struct S)); return 0; }\n')]
    lines = ''.join(f'store {f} {d} {v}\n' for f, d, _ in sites for v in vals)
    out = run_model(ctx, corr, lines).splitlines()
    k = 0
    for f, d, tmpl in sites:
        for v in vals:
            m = out[k]; k += 1
            lit = f'({v}L)' if v >= 0 else f'(-{-v}L)'
            eff = v if v > 0 else 1
            src = tmpl % lit
            path = os.path.join(ctx.scratch, f'align_{k}.c')
            open(path, 'w').write(src)
            exe = os.path.join(ctx.scratch, f'align_{k}.exe')
            rc, o, e = sh([ctx.cc, '-o', exe, path], timeout=30)
            if rc == 0:
                rc2, o2, e2 = sh([exe], timeout=20)
                if rc2 != 0 or o2.strip() != str(eff):
                    corr.disagreements.append({'kind': 'alignment consumer: the alignment that took effect is not the folded value', 'input': src,
                                               'model': m, 'impl': f'rc={rc2} _Alignof={o2.strip()!r}'})
                    return False
            corr.evaluations += 1
            corr.count('align-' + f)
            corr.nontrivial.add(f'align:{f}:{v}')
            accepted_model = not m.startswith('diag:')
            if accepted_model and m != str(v):
                corr.disagreements.append({'kind': 'alignment store (model) does not keep the value', 'input': src, 'model': m})
                return False
            accepted_impl = rc == 0
            diagnosed = rc == 1 and 'alignment must be a power of two' in e
            if accepted_model != accepted_impl or (not accepted_model and not diagnosed):
                corr.disagreements.append({'kind': 'alignment consumer: model and compiler disagree on acceptance / the stored alignment',
                                           'input': src, 'model': m, 'impl': f'rc={rc} {e.strip()[-160:]!r}'})
                return False
    return True


# ------------------------------------------------------------------------------------------------------ corpus

def corpus(ctx, corr):
    d = os.path.join(VERIF, 'corpus', 'C07')
    if not os.path.isdir(d):
        return True
    for fn in sorted(os.listdir(d)):
        if not fn.endswith('.c'):
            continue
        path = os.path.join(d, fn)
        exe = os.path.join(ctx.scratch, 'corpus_' + fn[:-2])
        rc, o, e = sh([ctx.cc, '-o', exe, path], timeout=60)
        corr.evaluations += 1
        corr.count('corpus')
        corr.nontrivial.add('corpus:' + fn)
        if rc != 0:
            corr.violations.append({'what': 'corpus program (past failure) no longer compiles', 'input': fn, 'expected': 'compiles', 'got': (e or o)[-400:]})
            return False
        rc, o, e = sh([exe], timeout=20)
        rc2, o2, e2 = sh(['gcc', '-w', '-o', exe + '.gcc', path], timeout=60)
        rc3, o3, e3 = sh([exe + '.gcc'], timeout=20)
        if rc2 != 0 or rc3 != 0:
            raise RuntimeError(f'corpus program {fn} is not accepted by gcc')
        if rc != 0 or o != o3:
            bad = next((f'{a!r} vs gcc {b!r}' for a, b in zip(o.splitlines(), o3.splitlines()) if a != b), f'rc={rc}')
            corr.violations.append({'what': 'corpus program (past failure): constant-context values differ from gcc / run time', 'input': fn,
                                    'expected': o3[-400:], 'got': bad})
            return False
    return True


# ------------------------------------------------------------------------------------------------------ plugin API

UNEVAL_COND = ['int a[1 || (1/0 ? 1 : 2)];\n', 'int a[(0 && (1/0 ? 1 : 2)) + 3];\n', 'int a[1 ? 2 : (0 && (1/0 ? 1 : 2))];\n']


def unevaluated_cond(ctx, corr):
    """is_const_expr must not evaluate the condition of a ?: that sits in an unevaluated operand of && / || (6.6p3 fn 115):
    past failure (C07_fixed_unevaluated_cond in Findings/C07.lean)"""
    for i, src in enumerate(UNEVAL_COND):
        path = os.path.join(ctx.scratch, f'uneval_{i}.c')
        open(path, 'w').write(src)
        rc, o, e = sh([ctx.cc, '-cc1', '-cc1-input', path, '-cc1-output', '/dev/null', path], timeout=20)
        rcg, og, eg = sh(['gcc', '-w', '-fsyntax-only', path], timeout=20)
        corr.evaluations += 1
        corr.count('unevaluated-cond')
        corr.nontrivial.add('uneval:' + src)
        if rcg != 0:
            raise RuntimeError('gcc rejects the unevaluated-condition probe: ' + eg[-200:])
        if rc != 0:
            corr.violations.append({'what': 'a valid integer constant expression is rejected as an array bound: is_const_expr evaluates a ?: condition '
                                            'inside an unevaluated && / || operand', 'input': src, 'expected': 'accepted (gcc accepts)',
                                    'got': f'rc={rc} {e[-200:]}', 'replay_kind': 'uneval'})
            return False
    return True


def correspond(ctx, corr):
    corr.rule = ('type-directed random integer constant expressions (all operators, literal bases/suffixes, character/enumeration/'
                 'sizeof constants, casts to every integer type and _Bool, depth <= 6, boundary values; expressions without a C11 value '
                 'are regenerated) plus a deterministic operator x type-pair x boundary-operand battery.  Each expression is placed in '
                 'every constant context (static long / static T initializer, array bound, case label, enumerator, bit-field width, '
                 '_Alignas, array designator, #if) and as run-time code over volatile operands in one program, compiled by the '
                 'snapshot chibicc and by gcc and run; required: constant-context value = run-time value = Gen.eval2(elabE e) + consumer '
                 'conversion (drv_c07) = Spec = gcc.  non-trivial = depth >= 2 (at least one operator or cast); distinct = by expression.  '
                 'Plus division by zero in every context through cc1 directly (diagnostic, exit 1, no signal); floating / mixed '
                 'constant expressions as C text: folded bits = run-time bits (= gcc) as float, double, long double and long; structured '
                 'arithmetic constant expressions with floating operands (typed random trees + a deterministic conversion/operator battery '
                 'on boundary values; expressions without a C11 value are dropped and counted skipped_ub): for static objects of type float, '
                 'double, long double, long and a random integer type: bits folded by chibicc = Gen.evalDouble/Gen.eval2(elabA e) + '
                 'write_gvar_data model on the software FPU (drv_c07 fgvar) = run-time bits = Spec/ConstFSpec (drv_c07 feval) = gcc; the '
                 'diagnostic of two non-constant operands is the left operand\'s for every binary operator (C07_fold_order); '
                 '_Alignas(n)/aligned(n) acceptance and effect = the validated store of the model.')
    if not corpus(ctx, corr):
        return
    if not malformed(ctx, corr):
        return
    if not unevaluated_cond(ctx, corr):
        return
    v = order_leg(ctx, corr)
    if v:
        corr.violations.append(v)
        return
    if not align_leg(ctx, corr):
        return
    rng = ctx.rng
    batt = boundary_battery()
    if not ctx.thorough:
        batt = rng.sample(batt, 500)
    nrand = 450 if not ctx.thorough else 9000
    exprs = batt + [gen_expr(rng, rng.choice([2, 3, 3, 4, 4, 5, 6])) for _ in range(nrand)]
    B = 150
    for b0 in range(0, len(exprs), B):
        cases = []
        for i, e in enumerate(exprs[b0:b0 + B]):
            cases.append((b0 + i, e, contexts(e, rng)))
        if not run_batch(ctx, corr, cases, f'b{b0}'):
            return
    k, e, ctxs = cases[-1]
    corr.sample({'expression': render(e, 'const'), 'type': type_of(e), 'value': ev(e), 'contexts': [c for c, _ in ctxs]})
    corr.sample({'expression': render(exprs[len(batt)], 'const'), 'value': ev(exprs[len(batt)])})
    if not floating(ctx, corr):
        return
    if not floating_model(ctx, corr):
        return
    consumers_tie(ctx, corr)


def consumers_tie(ctx, corr):
    """the consumer table of the generated model names every store of a folded constant; sanity: the driver knows them all"""
    txt = open(os.path.join(ctx.lean_dir, 'ChibiVerif/Gen/ConstEvalGen.lean')).read()
    cons = re.findall(r'^\s*\("(\w+)", "([^"]+)", (\d+), (true|false)\)', txt, re.M)
    # _Alignas(n) / aligned(n) validate the int64_t before it is narrowed: 4294967301 is diagnosed, 4096 is kept
    ALIGN = {('declspec', 'align'), ('attribute_list', 'ty->align')}
    lines = ''.join(f'store {f} {d} 4294967301\n' for f, d, b, s in cons) + ''.join(f'store {f} {d} 4096\n' for f, d in sorted(ALIGN))
    out = run_model(ctx, corr, lines).splitlines()
    for (f, d, b, s), o in zip(cons, out):
        want = 'diag:alignment_must_be_a_power_of_two_no_larger_than_2^28' if (f, d) in ALIGN else 5 if b == '32' else 4294967301
        if o != str(want):
            corr.disagreements.append({'kind': 'consumer conversion', 'input': f'{f} {d}', 'model': o, 'impl': want})
    for (f, d), o in zip(sorted(ALIGN), out[len(cons):]):
        if o != '4096':
            corr.disagreements.append({'kind': 'consumer conversion', 'input': f'{f} {d} 4096', 'model': o, 'impl': 4096})
    corr.extra['consumers'] = [f'{f}:{d}:{"i" if s == "true" else "u"}{b}' for f, d, b, s in cons]


def search(ctx, broken, corr):
    """proof or tie broke and the standard run saw no violation: more random expressions, deeper, chibicc vs Spec"""
    sub = Corr()
    rng = ctx.rng
    if not malformed(ctx, sub) and sub.violations:
        return sub.violations[0]
    v = order_leg(ctx, sub, record=False)
    if v:
        return v
    if any(b.get('kind') == 'translator' for b in broken):
        # the folder's source no longer has a shape the translator accepts.  One reason: two operands are folded inside one
        # expression again, whose order of evaluation is then the host compiler's.  The snapshot compiled by itself evaluates
        # the operands of a binary operator right to left, gcc left to right: look at the stage-2 compiler as well.
        stage2, err = build_stage2(ctx)
        if stage2:
            v = order_leg(ctx, sub, cc=stage2, record=False)
            if v:
                v['what'] += ' — observed on the stage-2 compiler (the snapshot compiled by itself); the gcc-built compiler diagnoses the other operand'
                v['replay_kind'] = 'order2'
                return v
        else:
            ctx.notes.append('stage-2 build failed: ' + err)
    for round_ in range(6):
        exprs = boundary_battery() if round_ == 0 else [gen_expr(rng, rng.choice([3, 4, 5, 6])) for _ in range(600)]
        for b0 in range(0, len(exprs), 200):
            cases = [(b0 + i, e, contexts(e, rng)) for i, e in enumerate(exprs[b0:b0 + 200])]
            try:
                run_batch(ctx, sub, cases, f's{round_}_{b0}')
            except (RuntimeError, ModelBuildFailure):
                # the model no longer runs: compare the implementation with the python mirror of the Spec only
                v = impl_only(ctx, cases, f's{round_}_{b0}')
                if v:
                    return v
            if sub.violations:
                return sub.violations[0]
    floating(ctx, sub)
    if not sub.violations:
        try:
            floating_model(ctx, sub)
        except (RuntimeError, ModelBuildFailure):
            pass
    return sub.violations[0] if sub.violations else None


STAGE_SRC = ['main.c', 'tokenize.c', 'preprocess.c', 'parse.c', 'type.c', 'codegen.c', 'hashmap.c', 'strings.c', 'unicode.c']


def build_stage2(ctx):
    """the snapshot's sources compiled by the snapshot's own binary"""
    d = os.path.join(ctx.scratch, 'c07_stage2')
    os.makedirs(d, exist_ok=True)
    objs = []
    for s in STAGE_SRC:
        o = os.path.join(d, s[:-2] + '.o')
        rc, out, e = sh([ctx.cc, '-c', '-o', o, s], cwd=ctx.snapshot, timeout=600)
        if rc != 0:
            return None, f'{s}: rc={rc} {e[-300:]}'
        objs.append(o)
    exe = os.path.join(d, 'chibicc')
    rc, out, e = sh(['cc', '-o', exe] + objs, timeout=300)
    if rc != 0:
        return None, f'link: {e[-300:]}'
    if not os.path.exists(os.path.join(d, 'include')):
        os.symlink(os.path.join(ctx.snapshot, 'include'), os.path.join(d, 'include'))
    return exe, ''


def impl_only(ctx, cases, tag):
    src = build_program(cases)
    path = os.path.join(ctx.scratch, f'c07_{tag}.c')
    open(path, 'w').write(src)
    got, err = compile_run(ctx, ctx.cc, path, os.path.join(ctx.scratch, f'c07_{tag}.chibicc'))
    if got is None:
        if len(cases) > 1:
            h = len(cases) // 2
            return impl_only(ctx, cases[:h], tag + 'a') or impl_only(ctx, cases[h:], tag + 'b')
        k, e, ctxs = cases[0]
        ref, _ = compile_run(ctx, 'gcc', path, os.path.join(ctx.scratch, f'c07_{tag}.gcc'))
        if ref is None:
            return None
        return {'what': 'chibicc rejects a program of valid constant expressions that gcc accepts', 'input': render(e, 'const'),
                'expected': 'compiles and runs', 'got': err, 'replay_sexpr': sexpr_full(e)}
    for k, e, ctxs in cases:
        for c, x in [('rt', e)] + ctxs:
            want = convert('i64', ev(x)) if c == 'rt' else expected(c, x)
            if got.get((k, c)) != want:
                return violation(c, e, x, want, got.get((k, c)), None)
    return None


def replay(ctx, corr, path):
    payload = json.load(open(path))
    kind = payload.get('replay_kind')
    corr.evaluations = 1
    if 'replay_sexpr' in payload:
        e = from_json(json.loads(payload['replay_sexpr']))
        cases = [(0, e, contexts(e, ctx.rng))]
        v = impl_only(ctx, cases, 'replay')
        print('replay:', (v['what'] + f" expected {v['expected']} got {v['got']}") if v else 'constant contexts now agree with the C11 value')
        if v:
            corr.violations.append(v)
        return
    if kind in ('div0', 'uneval'):
        src = payload['input']
        p = os.path.join(ctx.scratch, 'replay.c')
        open(p, 'w').write(('\n\n' if kind == 'div0' else '') + src)
        rc, o, e = sh([ctx.cc, '-cc1', '-cc1-input', p, '-cc1-output', '/dev/null', p], timeout=20)
        if kind == 'uneval':
            bad = rc != 0
        elif payload.get('context') == 'minus-one':
            bad = rc < 0 or rc > 1
        else:
            bad = rc != 1 or 'division by zero' not in e
        print('replay:', f'rc={rc} {e.strip()[-160:]!r}', '-> still failing' if bad else '-> now as required')
        if bad:
            corr.violations.append(dict(payload, got=f'rc={rc} {e[-200:]}'))
        return
    if kind in ('order', 'order2'):
        cc = ctx.cc
        if kind == 'order2':
            cc, err = build_stage2(ctx)
            if cc is None:
                raise RuntimeError('stage-2 build failed: ' + err)
        v = order_leg(ctx, Corr(), cc=cc, record=False)
        print('replay:', (v['what'][:120] + ' ' + v['got']) if v else 'the left operand is diagnosed for every operator')
        if v:
            corr.violations.append(v)
        return
    if kind == 'fmodel':
        e = from_json(json.loads(payload['replay_fexpr']))
        sub = Corr()
        try:
            float_batch(ctx, sub, [(0, e)], 'replay')
            bad = sub.violations[:1]
        except (RuntimeError, ModelBuildFailure):
            bad = float_impl_only(ctx, e, payload.get('replay_obj'))
        print('replay:', bad[0]['what'][:160] + ' expected ' + str(bad[0]['expected']) + ' got ' + str(bad[0]['got']) if bad
              else 'the folded value equals run-time evaluation')
        corr.violations += bad
        return
    if kind == 'float':
        sub = Corr()
        s = payload['input']
        global FCORPUS, ICORPUS
        saveF, saveI = FCORPUS, ICORPUS
        FCORPUS, ICORPUS = [s], [s] if re.search(r'[=<>!&|?]', s) else []
        try:
            class _R:      # no random extras
                def choice(self, x): return x[0]
                def random(self): return 0.0
            ctx2rng, ctx.rng = ctx.rng, ctx.rng
            floating(ctx, sub)
        finally:
            FCORPUS, ICORPUS = saveF, saveI
        print('replay:', sub.violations[0]['what'] if sub.violations else 'folded value now equals run-time value')
        corr.violations += sub.violations[:1]
        return
    if str(payload.get('input', '')).endswith('.c'):
        sub = Corr()
        corpus(ctx, sub)
        print('replay:', sub.violations[0]['what'] if sub.violations else 'corpus programs agree with gcc')
        corr.violations += sub.violations[:1]
        return
    corr.extra['replay'] = 'replay file carries nothing replayable'
    print('replay: nothing to replay')


MANIFEST = {
    'level_text': 'Lean 4 theorems over the translated folder (Gen.eval2 / Gen.evalDouble = parse.c eval2/eval3/eval_truth/eval_double/'
                  'eval_double2 with clang\'s host types, regenerated every run): C07_fold (every integer constant expression with a C11 '
                  'value - all operators, casts to every integer type and _Bool, all depths, all operand values - folds to exactly that '
                  'value, in range of its C11 type; structural induction, one BitVec lemma per operator arm), C07_fold_float (every '
                  'arithmetic constant expression with floating operands - constants of float/double/long double, + - * /, unary - + !, '
                  'comparisons, && || ?:, casts between all arithmetic types - folds to the value obtained by carrying out each operation '
                  'once in the format of its type, and static float/double/long double/integer objects receive its C11 conversion; relative '
                  'to the FPU contracts C07Float.Sound), C07_fold_order (every binary arm folds its left operand first: the left of two '
                  'non-constant operands is diagnosed), C07_undefined_diag (a zero divisor gives the diagnostic), C07_no_trap (on every '
                  'integer tree, defined or not, folding ends in a value, a diagnostic or the host\'s undefined shift count: never '
                  'SIGFPE/NULL), C07_division_total (MIN / -1 and x % -1 fold to the wrapped quotient / C remainder), C07_constness '
                  '(is_const_expr accepts every 6.6p6 operator tree incl. % that has a value; unevaluated operands need none) and '
                  'C07_constness_sound (accepted trees of arithmetic type never yield "not a compile-time constant", through eval2 or '
                  'eval_double), C07_consumers (enumerator, array bound, bit-field width, validated _Alignas/aligned, designator, case '
                  'label, static initializer incl. _Bool store the C11 conversion). Tied by the translator and by differential runs: '
                  'generated integer and floating expressions in every constant context and as run-time code, chibicc = model = Spec = gcc.',
    'level_note': 'Values are proved for the wrapping host (signed overflow of the host int64_t arithmetic wraps, as in the shipped binary); '
                  'Findings/C07.lean shows the strict-host reading reaches host-undefined overflow on defined unsigned long expressions. '
                  'C07_fold_float is relative to the contracts C07Float.Sound on the FPU (a superset of the FpuSpec contracts it uses; '
                  'satisfiable; validated on the CPU through the software FPU on every run, not proved of the silicon) and to the '
                  'assumption that the compiler itself was compiled with FLT_EVAL_METHOD 0. Address constants are outside the model; '
                  'elabE/elabA (parser + add_type typing) are hand models tied only differentially.',
    'technique': 'Lean 4 structural induction over expression trees with one BitVec/Int lemma per operator arm and abstract FPU contracts; '
                 'clang-AST translator (mutual structural recursion); compile-and-run differential against gcc and a software FPU',
    'design_ref': 'DESIGN.md section 6, C07',
}
