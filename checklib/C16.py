"""C16 - atomic read-modify-write operations are indivisible (parse.c to_assign / ND_CAS / ND_EXCH, stdatomic.h)."""
import os, json, hashlib, shutil
from .framework import *

PROPERTY = 'C16'
GEN_MODULES = ['declspec']   # Gen/DeclspecGen.lean: the sizes type.c gives the scalar kinds (Model/C16Typing.lean `scalarSize`)
LEAN_TARGETS = ['ChibiVerif.Props.C16', 'ChibiVerif.Findings.C16', 'ChibiVerif.Props.C16Qual', 'ChibiVerif.Props.C16Width',
                'ChibiVerif.Findings.C16Types']
PROPS_FILES = ['ChibiVerif/Props/C16.lean', 'ChibiVerif/Props/C16Qual.lean', 'ChibiVerif/Props/C16Width.lean']
NEEDS_HOOKS = True
TRUSTED_BASE = [
    'Lean 4.33.0 kernel; axioms admitted: propext, Classical.choice, Quot.sound (audited per theorem on every run)',
    'atomicity contract of the CPU (Intel SDM vol. 3A 8.1.1, 8.1.2.2, 8.2.3.8-9): `lock cmpxchg`, `xchg` with a memory operand and '
    'naturally aligned loads/stores of 1, 2, 4, 8 bytes are single indivisible steps, totally ordered with one another; this is the step '
    'relation of lean/ChibiVerif/Model/Atomics.lean.  Validated (testing) on every run by multi-thread stress programs compiled by the snapshot',
    'hand-written model lean/ChibiVerif/Model/Atomics.lean of the instruction sequences of parse.c to_assign (_Atomic branch), stdatomic.h '
    '__atomic_fetch_op, codegen.c ND_CAS / ND_EXCH / ND_NOT / do-while test / load / store / reg_ax / reg_dx; tied on every run by text '
    'equality between the sequence the model renders (drv_c16 seq) and the lines `chibicc -S` emits for every operator x type x storage class '
    'and every stdatomic.h macro.  The meaning given to each instruction line (register sub-word writes, ZF of cmpxchg, sete/movzbl/cmp/jne) '
    'is the model author\'s reading of the SDM; the private flag chain is additionally exercised by the stress runs',
    'the body `new = old op val` of the retry loop is an arbitrary function in the theorems (its value correctness is property C01/C02); '
    'the concrete operator semantics Op.fn used to predict stress results is validated against gcc and against the snapshot single-threaded',
    'hand-written model lean/ChibiVerif/Model/C16Qual.lean of the is_atomic bookkeeping of parse.c (declspec, declarator, pointers with '
    'its qualifier loop - `_Atomic` after a `*` marks the pointer type -, typedef, '
    'typeof, struct_members, func_params, new_cast, to_assign, new_inc_dec) and type.c (copy_type, pointer_to, array_of, add_type arms); '
    'it works on parse trees, not tokens (the token-level model lean/ChibiVerif/Model/C16Declr.lean of declarator / pointers / type_suffix '
    'is proved to compute the tree semantics, C16_declarator_tokens, and the C text is printed from ITS token list): tied on every run by printing each generated tree as C text (the printer is part of the Lean '
    'driver, lean/ChibiVerif/Driver/C16QualCmd.lean) and comparing the declared types at every level (each is_atomic flag) and the shape '
    'of the update node with the AST dump of the hooked chibicc (-verif-dump-ast); the specification lean/ChibiVerif/Spec/C16QualSpec.lean '
    '(C11 6.2.5/6.3.2.1/6.5.2-6.5.6/6.7.2.4/6.7.3/6.7.6/6.7.8, C23 6.7.2.5 for typeof) is the author\'s reading of the standard, validated on '
    'every run against clang-14 as an independent implementation (atomic instruction emitted for the update iff the specification says the lvalue is atomic; '
    'gcc 12 instead where clang-14 rejects the text - `+=` on an atomic pointer, `restrict` beside `_Atomic` - and the text has no typeof)',
    'hand-written model lean/ChibiVerif/Model/C16Typing.lean of the ND_CAS / ND_EXCH guards of type.c, run on every ND_CAS / ND_EXCH node '
    'of the dumped programs and on described operand types whose rejection message must match; the shared byte-exact code-generation '
    'model lean/ChibiVerif/Model/Codegen.lean (casArm, exchArm, load, store) is tied by property C20\'s assembly-text equality and here '
    'again on the arms of the dumped nodes; the invariant SizeWf of the type table (hypothesis of C16_cas_width) is checked on every type '
    'of every dump; scalar sizes are regenerated from type.c',
    'checklib/C16.py (generators, assembly extraction, matcher), gcc 12 + glibc pthreads for linking and as reference compiler',
]
ASSUMPTIONS = [
    'objects are naturally aligned (chibicc aligns every scalar to its size; packed atomic members are not generated)',
    'plain loads and stores of _Atomic objects are covered only for the scalar types the read-modify-write checker accepts (numeric or '
    'pointer, at most 8 bytes: exactly one mov, theorem C16_plain_access_single).  Outside the model and NOT single-copy atomic: `_Atomic` '
    'struct / union objects of any size (assignment and read are a byte-by-byte copy loop) and `_Atomic long double` (fldt / fstpt, 10 bytes). '
    'Recorded observation on the test machine, unchanged tree: writer alternating {0,0} / {-1,-1} in an `_Atomic struct {int a, b;}`, 2*10^7 '
    'reads: 12,827,249 torn (gcc: 0); `_Atomic long double` alternating 1.0L / -3.99..L, 5*10^7 reads: 4,432,777 torn.  These are not '
    'read-modify-write operations (every RMW on such an object is a located diagnostic), hence outside the letter of C16',
    'the specification of _Atomic propagation says nothing about: numeric `+`, `&` applied to an array (chibicc gives `&a` the type '
    'pointer-to-element, C pointer-to-array), scopes (typedef names, objects and tags are three flat tables; a parameter is not visible '
    'in later parameter declarations in chibicc), VLAs, tokens (C16_qualifier is about parse trees)',
    'the expected-value object of a compare-exchange and the hidden locals addr/old/new/val are private to the thread (a data race on them is undefined behaviour in C)',
    'memory-model effects beyond the three atomicity assumptions (store-buffer forwarding around plain atomic_store/atomic_load, i.e. the '
    'seq_cst fence an atomic_store needs) are outside the model',
]

INC = None  # set per ctx

# ------------------------------------------------------------------------------------------------ types

# (tag, C type, bytes, kind for the model, signed for Op.fn, class)
TYPES = [
    ('sc', 'signed char', 1, 's', 1, 'int'), ('uc', 'unsigned char', 1, 'u', 0, 'int'), ('ch', 'char', 1, 's', 1, 'int'),
    ('sh', 'short', 2, 's', 1, 'int'), ('us', 'unsigned short', 2, 'u', 0, 'int'),
    ('in', 'int', 4, 's', 1, 'int'), ('ui', 'unsigned int', 4, 'u', 0, 'int'),
    ('lo', 'long', 8, 's', 1, 'int'), ('ul', 'unsigned long', 8, 'u', 0, 'int'),
    ('bo', '_Bool', 1, 's', 0, 'bool'), ('pt', 'int *', 8, 'u', 0, 'ptr'),
    ('pq', 'int *', 8, 'u', 0, 'ptr'),        # the same object type, declared `int *_Atomic x` (qualifier of the pointer declarator, /repo 1c76c1e)
    ('fl', 'float', 4, 'f', 0, 'flo'), ('db', 'double', 8, 'f', 0, 'flo'),
]
TY = {t[0]: t for t in TYPES}

def aty_of(tag):
    """the atomic type as a declaration prefix: `<aty> name`, `<aty> name[5]`, `<aty> *name` are all valid"""
    _, cty, nbytes, k, sg, cls = TY[tag]
    if tag == 'pq':
        return 'int *_Atomic'          # `int *_Atomic x;  int *_Atomic a[5];  int *_Atomic *p;`
    return f'_Atomic({cty})' if cls == 'ptr' else f'_Atomic {cty}'

OPS = [('add', '+='), ('sub', '-='), ('mul', '*='), ('div', '/='), ('mod', '%='), ('and', '&='), ('or', '|='),
       ('xor', '^='), ('shl', '<<='), ('shr', '>>=')]
OPSYM = dict(OPS)

def forms_for(cls):
    """(form tag, C expression template over OBJ and V)"""
    f = []
    if cls == 'int':
        f += [(n, f'OBJ {s} V') for n, s in OPS]
        f += [('preinc', '++OBJ'), ('predec', '--OBJ'), ('postinc', 'OBJ++'), ('postdec', 'OBJ--')]
    elif cls == 'bool':
        f += [(n, f'OBJ {OPSYM[n]} V') for n in ('and', 'or', 'xor', 'add', 'mul')]
    elif cls == 'ptr':
        f += [('add', 'OBJ += N'), ('sub', 'OBJ -= N'), ('preinc', '++OBJ'), ('predec', '--OBJ'), ('postinc', 'OBJ++'), ('postdec', 'OBJ--')]
    elif cls == 'flo':
        f += [(n, f'OBJ {OPSYM[n]} V') for n in ('add', 'sub', 'mul', 'div')]
        f += [('preinc', '++OBJ'), ('postdec', 'OBJ--')]
    return f

STORAGES = ['static', 'auto', 'ptr', 'member', 'elem']

# ------------------------------------------------------------------------------------------------ helpers

def cc_S(ctx, text, name):
    path = os.path.join(ctx.scratch, name + '.c')
    open(path, 'w').write(text)
    rc, o, e = sh([ctx.cc, '-I' + os.path.join(ctx.snapshot, 'include'), '-S', '-o', '-', path], timeout=120)
    return rc, o, e

def functions(asm):
    """name -> instruction/label lines of the function (directives dropped)"""
    out, cur, name = {}, None, None
    for line in asm.splitlines():
        s = line.rstrip()
        if not s:
            continue
        m = re.match(r'^([A-Za-z_]\w*):$', s)
        if m and not s.startswith('.L'):
            name = m.group(1); cur = []; out[name] = cur
            continue
        if cur is None:
            continue
        if re.match(r'^\s*\.(loc|file|globl|local|text|type|size|align|data|bss|comm|section|zero|byte|quad|long|short|string|ascii)\b', s):
            if re.match(r'^\s*\.(globl|local|data|bss|section)\b', s):
                cur = None
            continue
        cur.append(s.strip())
    return out

_seq_cache = {}
def model_seq(ctx, what):
    """lines of the model's sequence for `what` (an input line of `drv_c16 seq`)"""
    if what not in _seq_cache:
        need = []
        for kind in ('rmw', 'cas', 'xchg', 'load', 'store'):
            for b in (1, 2, 4, 8):
                for k in 'suf':
                    if kind == 'rmw':
                        need += [f'rmw {b} {k} 0', f'rmw {b} {k} 1']
                    else:
                        need.append(f'{kind} {b} {k}')
        out = ctx.driver('seq', ''.join(x + '\n' for x in need)).splitlines()
        for q, a in zip(need, out):
            _seq_cache[q] = [x.strip() for x in a.split(' | ')] if a != 'bad-op' else None
    return _seq_cache[what]

PH = {'old': r'-?\d+', 'new': r'-?\d+', 'addr': r'-?\d+', 'begin': r'\.L\.begin\.\d+', 'cont': r'\.L\.\.\d+', 'brk': r'\.L\.\.\d+'}

def match_line(mline, aline, env):
    """model line (with @placeholders) against an assembly line; binds placeholders consistently"""
    parts = re.split(r'@(\w+)', mline)
    rx, names = '', []
    for i, p in enumerate(parts):
        if i % 2 == 0:
            rx += re.escape(p)
        else:
            rx += '(' + PH[p] + ')'; names.append(p)
    m = re.fullmatch(rx, aline)
    if not m:
        return False
    for n, v in zip(names, m.groups()):
        if env.setdefault(n, v) != v:
            return False
    return True

def match_rmw(model, lines, at):
    """match the whole retry loop around the `lock cmpxchg` at lines[at]; returns (error or None, env)"""
    env = {}
    mb = model.index('@begin:')
    b = at
    while b >= 0 and not re.fullmatch(r'\.L\.begin\.\d+:', lines[b]):
        b -= 1
    if b < 0:
        return 'no do-while label before the lock cmpxchg', env
    i = b - mb
    if i < 0:
        return 'function too short before the loop', env
    j = 0
    while j < len(model):
        ml = model[j]
        if ml == '@body':
            c = i
            while c < len(lines) and not re.fullmatch(r'\.L\.\.\d+:', lines[c]):
                c += 1
            body = lines[i:c - 2]
            if c >= len(lines) or not body:
                return 'no continue label after the loop body', env
            bad = [x for x in body if x.endswith(':') or x.startswith(('lock', 'xchg', 'call', 'j'))]
            if bad:
                return f'unexpected line in the loop body: {bad[0]}', env
            env['bodylen'] = len(body)
            i = c - 2
            j += 1
            continue
        if i >= len(lines):
            return f'assembly ends before model line {j}: {ml}', env
        if not match_line(ml, lines[i], env):
            return f'line {j}: model `{ml}` vs emitted `{lines[i]}`', env
        i += 1; j += 1
    if len({env.get('old'), env.get('new'), env.get('addr')}) != 3:
        return f'hidden locals are not three distinct slots: {env}', env
    return None, env

def match_fixed(model, lines, at, anchor):
    """match a fixed sequence whose `anchor`-th line is lines[at]"""
    i = at - anchor
    if i < 0 or i + len(model) > len(lines):
        return 'sequence does not fit in the function'
    env = {}
    for j, ml in enumerate(model):
        if not match_line(ml, lines[i + j], env):
            return f'line {j}: model `{ml}` vs emitted `{lines[i + j]}`'
    return None

# ------------------------------------------------------------------------------------------------ leg 1: the tie

def tie_source(tag):
    _, cty, nbytes, k, sg, cls = TY[tag]
    base = 'int' if cls == 'ptr' else None
    src = ['#include <stdatomic.h>']
    aty = aty_of(tag)
    src.append(f'static {aty} gs_{tag}; {aty} garr_{tag}[5];')
    src.append(f'struct S_{tag} {{ char pad; {aty} m; }}; struct S_{tag} gm_{tag};')
    funcs = []   # (name, kind, ro)
    vdecl = 'long N' if cls == 'ptr' else f'{cty} V'
    for form, expr in forms_for(cls):
        for st in STORAGES:
            name = f'f_{tag}_{form}_{st}'
            if st == 'static':
                body = f'return {expr.replace("OBJ", "gs_" + tag)};'
                params = vdecl
            elif st == 'auto':
                init = '0' if cls != 'ptr' else '0'
                body = f'{aty} a = {init}; a = ({cty})0; {cty} r = {expr.replace("OBJ", "a")}; return r;'
                params = vdecl
            elif st == 'ptr':
                body = f'return {expr.replace("OBJ", "(*p)")};'
                params = f'{aty} *p, {vdecl}'
            elif st == 'member':
                body = f'return {expr.replace("OBJ", "q->m")};'
                params = f'struct S_{tag} *q, {vdecl}'
            else:
                body = f'return {expr.replace("OBJ", "garr_" + tag + "[i]")};'
                params = f'int i, {vdecl}'
            src.append(f'{cty} {name}({params}) {{ {body} }}')
            funcs.append((name, 'rmw', 0))
    # stdatomic.h macros
    if cls == 'int':
        for mac in ('add', 'sub', 'or', 'xor', 'and'):
            for suf, extra in (('', ''), ('_explicit', ', memory_order_seq_cst')):
                name = f'm_{tag}_fetch_{mac}{suf.replace("_", "")}'
                src.append(f'{cty} {name}({aty} *p, {cty} V) {{ return atomic_fetch_{mac}{suf}(p, V{extra}); }}')
                funcs.append((name, 'rmw', 1))
    if cls == 'ptr':
        name = f'm_{tag}_fetch_add'
        src.append(f'{cty} {name}({aty} *p, long N) {{ return atomic_fetch_add(p, N); }}')
        funcs.append((name, 'rmw', 1))
    for suf, extra in (('', ''), ('_explicit', ', memory_order_acq_rel')):
        s2 = suf.replace('_', '')
        src.append(f'{cty} m_{tag}_exchange{s2}({aty} *p, {cty} V) {{ return atomic_exchange{suf}(p, V{extra}); }}')
        funcs.append((f'm_{tag}_exchange{s2}', 'xchg', 0))
        src.append(f'{cty} m_{tag}_load{s2}({aty} *p) {{ return atomic_load{suf}(p{extra.replace("acq_rel", "acquire")}); }}')
        funcs.append((f'm_{tag}_load{s2}', 'load', 0))
        src.append(f'void m_{tag}_store{s2}({aty} *p, {cty} V) {{ atomic_store{suf}(p, V{extra.replace("acq_rel", "release")}); }}')
        funcs.append((f'm_{tag}_store{s2}', 'store', 0))
    for mac in ('strong', 'weak'):
        src.append(f'int m_{tag}_cas_{mac}({aty} *p, {cty} *e, {cty} V) {{ return atomic_compare_exchange_{mac}(p, e, V); }}')
        funcs.append((f'm_{tag}_cas_{mac}', 'cas', 0))
    src.append(f'void m_{tag}_init({aty} *p, {cty} V) {{ atomic_init(p, V); }}')
    funcs.append((f'm_{tag}_init', 'store', 0))
    if cls == 'bool':
        src.append('int m_flag_tas(atomic_flag *p) { return atomic_flag_test_and_set(p); }')
        funcs.append(('m_flag_tas', 'xchg', 0))
        src.append('int m_flag_tasexplicit(atomic_flag *p) { return atomic_flag_test_and_set_explicit(p, memory_order_acquire); }')
        funcs.append(('m_flag_tasexplicit', 'xchg', 0))
        src.append('void m_flag_clear(atomic_flag *p) { atomic_flag_clear(p); }')
        funcs.append(('m_flag_clear', 'store', 0))
        src.append('void m_flag_clearexplicit(atomic_flag *p) { atomic_flag_clear_explicit(p, memory_order_release); }')
        funcs.append(('m_flag_clearexplicit', 'store', 0))
    return '\n'.join(src) + '\n', funcs

def check_function(ctx, tag, name, kind, ro, lines):
    """returns None or a description of the difference between model sequence and emitted lines"""
    _, cty, nbytes, k, sg, cls = TY[tag]
    if cls == 'bool':
        # every value stored into a _Bool is first converted (`cmp $0, %eax; setne %al; movzx %al, %eax`): a private
        # conversion (property C01), not part of the atomic sequence
        flt, i = [], 0
        while i < len(lines):
            if lines[i:i + 3] == ['cmp $0, %eax', 'setne %al', 'movzx %al, %eax']:
                i += 3
            else:
                flt.append(lines[i]); i += 1
        lines = flt
    ncas = [i for i, l in enumerate(lines) if l.startswith('lock cmpxchg')]
    nx = [i for i, l in enumerate(lines) if l.startswith('xchg ')]
    if any(l.startswith('lock') and not l.startswith('lock cmpxchg') for l in lines):
        return 'unknown lock-prefixed instruction'
    if kind == 'rmw':
        if len(ncas) != 1 or nx:
            return f'{len(ncas)} lock cmpxchg / {len(nx)} xchg in a function with one read-modify-write'
        err, env = match_rmw(model_seq(ctx, f'rmw {nbytes} {k} {ro}'), lines, ncas[0])
        return err
    if kind == 'cas':
        if len(ncas) != 1 or nx:
            return f'{len(ncas)} lock cmpxchg / {len(nx)} xchg in a function with one compare-exchange'
        model = model_seq(ctx, f'cas {nbytes} {k}')
        return match_fixed(model, lines, ncas[0], model.index(next(x for x in model if x.startswith('lock cmpxchg'))))
    if kind == 'xchg':
        if len(nx) != 1 or ncas:
            return f'{len(nx)} xchg / {len(ncas)} lock cmpxchg in a function with one exchange'
        model = model_seq(ctx, f'xchg {nbytes} {k}')
        err = match_fixed(model, lines, nx[0], next(i for i, x in enumerate(model) if x.startswith('xchg ')))
        if err:
            return err
        end = nx[0] - next(i for i, x in enumerate(model) if x.startswith('xchg ')) + len(model)
        after = lines[end] if end < len(lines) else ''
        if len(model) == 2 and re.match(r'mov[sz][bw]l %a[lx], %eax', after):
            return f'unexpected extension after a {nbytes}-byte xchg: {after}'
        return None
    if ncas or nx:
        return 'locked instruction in a plain load/store'
    body = [l for l in lines if not l.endswith(':')]
    # drop the epilogue
    while body and body[-1] in ('ret', 'pop %rbp', 'mov %rbp, %rsp') or body and body[-1].startswith('jmp .L.return'):
        body.pop()
    if kind == 'store':
        model = model_seq(ctx, f'store {nbytes} {k}')
        if body[-len(model):] != model:
            return f'store: model {model} vs emitted {body[-len(model):]}'
        touching = [l for l in body if re.search(r', \(%rdi\)$', l)]
        if len(touching) != 1:
            return f'{len(touching)} stores through %rdi for one atomic_store'
        return None
    if kind == 'load':
        model = model_seq(ctx, f'load {nbytes} {k}')
        # p is the only parameter: `lea -8(%rbp), %rax; mov (%rax), %rax; <load>`
        idx = [i for i, l in enumerate(body) if l == 'mov (%rax), %rax']
        if not idx:
            return 'no load of the pointer argument'
        got = body[idx[0] + 1: idx[0] + 1 + len(model)]
        if got != model:
            return f'load: model {model} vs emitted {got}'
        reads = [l for l in body[idx[0] + 1:] if '(%rax),' in l]
        if len(reads) != 1:
            return f'{len(reads)} reads of the object for one atomic_load'
        return None
    return 'unknown kind'

QUALIFIER_FORMS = [
    # (declarations + one function, number of `lock cmpxchg` expected)
    ('_Atomic(int *) p; void f(void){ p++; }', 1),
    ('typedef _Atomic int ai; ai x; void f(void){ x++; }', 1),
    ('typedef int it; _Atomic it x; void f(void){ x++; }', 1),
    ('typedef int it; it _Atomic x; void f(void){ x++; }', 1),
    ('typedef _Atomic int ai; typedef ai ai2; ai2 x; void f(void){ x -= 2; }', 1),
    ('_Atomic int a; typeof(a) b; void f(void){ b++; }', 1),
    ('_Atomic int a; __typeof__(a) b; void f(void){ b++; }', 1),
    ('_Atomic int a[3]; void f(void){ a[1]++; }', 1),
    ('_Atomic int a[2][3]; void f(int i){ a[i][2] ^= 5; }', 1),
    ('_Atomic int a; void f(void){ _Atomic int *p = &a; ++*p; }', 1),
    ('_Atomic int a; void f(void){ typeof(&a) p = &a; ++*p; }', 1),
    ('_Atomic int a; void f(void){ typeof(a) *p = &a; p[0] -= 2; }', 1),
    ('const _Atomic int *gp; void f(void){ (*(_Atomic int *)gp)++; }', 1),
    ('struct S { _Atomic int x; } s; void f(void){ s.x++; }', 1),
    ('struct S { _Atomic int x; } s; void f(void){ struct S *p=&s; p->x |= 4; }', 1),
    ('struct S { int pad; _Atomic short x; } s[4]; void f(int i){ s[i].x <<= 1; }', 1),
    ('struct I { _Atomic long n; }; struct O { char c; struct I in; } o; void f(void){ o.in.n += 3; --o.in.n; }', 2),
    ('struct S { _Atomic int x; } s; void f(void){ (*&s.x)++; }', 1),
    ('union U { _Atomic int x; long y; } u; void f(void){ u.x++; }', 1),
    ('typedef struct { atomic_int refs; } obj; void f(obj *o){ o->refs--; }', 1),
    ('_Atomic _Bool b; void f(void){ b ^= 1; }', 1),
    ('_Atomic enum E { A, B } e; void f(void){ e += 1; }', 1),
    ('atomic_int x; void f(void){ x <<= 2; }', 1),
    ('atomic_uchar x; atomic_ushort y; atomic_ulong z; atomic_llong q; void f(void){ x++; y--; ++z; q *= 3; }', 4),
    ('atomic_size_t x; atomic_intptr_t y; atomic_char16_t z; atomic_int_least8_t q; void f(void){ x++; y--; ++z; q %= 3; }', 4),
    ('void f(_Atomic int x){ x++; }', 1),
    ('void f(_Atomic int *x){ (*x)++; x[1]--; }', 2),
    ('_Atomic int x; int f(void){ return x++ + ++x; }', 2),
    ('_Atomic int x; void f(void){ (x) += 1; }', 1),
    ('_Atomic int x; void f(void){ _Atomic int *p=&x; *(p+0) += 1; }', 1),
    ('void f(void){ static _Atomic int l; l++; _Atomic int m = 0; m++; }', 2),
    ('_Atomic(_Atomic int) x; void f(void){ x++; }', 1),
    ('_Atomic int *volatile p; void f(void){ (*p)++; }', 1),
    ('_Atomic int **pp; void f(void){ (**pp)++; }', 1),
    ('_Atomic unsigned long long x; void f(void){ x %= 7; }', 1),
    ('_Atomic float fl; void f(void){ fl++; }', 1),
    ('_Atomic double d; void f(double v){ d *= v; }', 1),
    ('static _Atomic int x; void f(void){ for (int i = 0; i < 3; i++) x += i; }', 1),
    ('_Atomic int x; int y; void f(void){ y ? x++ : x--; }', 2),
    ('extern _Atomic int x; void f(void){ x++; }', 1),
    ('_Thread_local _Atomic int x; void f(void){ x++; }', 1),
    ('int g(void); _Atomic int x; void f(void){ x += g(); }', 1),
    # `_Atomic` among the qualifiers of a pointer declarator (C11 6.7.6.1; /repo 1c76c1e): the pointer is atomic, the pointee is not
    ('int *_Atomic p; void f(void){ p++; }', 1),
    ('int *_Atomic p; void f(long n){ p += n; p -= 2; ++p; --p; p--; }', 5),
    ('int *_Atomic p; int *q; void f(void){ p = q; q = p; }', 0),
    ('int *_Atomic p; void f(void){ (*p)++; p[1] += 2; }', 0),
    ('_Atomic int *_Atomic p; void f(void){ (*p)++; p++; }', 2),
    ('int *_Atomic *q; void f(void){ (*q)++; q[1]--; }', 2),
    ('int *_Atomic *q; void f(void){ q++; (**q)++; }', 0),
    ('int **_Atomic q; void f(void){ q++; }', 1),
    ('int *_Atomic a[3]; void f(int i){ a[i] += 2; }', 1),
    ('int (*_Atomic a)[3]; void f(void){ a++; (*a)[1]++; }', 1),
    ('struct S { char c; int *_Atomic m; } s; void f(struct S *q){ s.m++; q->m -= 1; }', 2),
    ('struct N { struct N *_Atomic next; int v; } *h; void f(void){ h->next++; h->next->v++; }', 1),
    ('typedef int *_Atomic ap; ap x; ap y[2]; ap *z; void f(void){ x++; y[1]++; (*z)++; z++; }', 3),
    ('typedef int *ip; ip _Atomic x; _Atomic ip y; ip *_Atomic z; void f(void){ x++; y++; z++; (*z)++; }', 3),
    ('void f(int *_Atomic p, int *_Atomic q[2]){ p++; q[0]++; q++; }', 2),
    ('void (*_Atomic fp)(void); void g(void); void f(void){ fp = g; fp += 1; }', 1),
    ('int *(*_Atomic fp)(void); void f(void){ fp += 1; (*fp())++; }', 1),
    ('int *_Atomic g(void); void f(void){ (*g())++; }', 0),
    ('void *_Atomic p; void f(void){ p += 1; }', 1),
    ('void f(void){ static double *_Atomic l; l++; char *_Atomic m = 0; m++; }', 2),
    ('extern long *_Atomic x; _Thread_local short *_Atomic y; void f(void){ x++; y++; }', 2),
    ('int *const volatile restrict __restrict __restrict__ p; int *volatile q; void f(void){ q++; }', 0),
    ('int *volatile _Atomic p; int *_Atomic volatile q; int *_Atomic _Atomic r; int *restrict _Atomic __restrict__ volatile _Atomic s; void f(void){ p++; q++; r++; s++; }', 4),
    ('int *_Atomic (p); int *_Atomic volatile (*q); void f(void){ p++; (*q)++; }', 2),
    ('int *p; void f(void){ (*(int *_Atomic *)&p)++; typeof(int *_Atomic) l = 0; l++; }', 2),
    ('int *_Atomic p; typeof(p) q; typeof(&p) r; void f(void){ q++; (*r)++; }', 2),
    ('int *_Atomic p; int f(void){ int *o = p++; return *o + *++p; }', 2),
]

def tie(ctx, corr):
    """leg 1: model sequences == emitted sequences, for every operator x type x storage and every macro"""
    for tag in TY:
        src, funcs = tie_source(tag)
        rc, asm, err = cc_S(ctx, src, 'tie_' + tag)
        if rc != 0:
            corr.disagreements.append({'kind': 'tie: generated atomics source rejected', 'type': TY[tag][1], 'stderr': err[-600:]})
            continue
        fs = functions(asm)
        for name, kind, ro in funcs:
            corr.evaluations += 1
            corr.count('tie:' + kind)
            lines = fs.get(name)
            if lines is None:
                corr.disagreements.append({'kind': 'tie: function missing in the output', 'function': name})
                continue
            bad = check_function(ctx, tag, name, kind, ro, lines)
            corr.nontrivial.add('tie:' + name)
            if bad:
                decl = next(l for l in src.splitlines() if f' {name}(' in l)
                corr.disagreements.append({'kind': 'atomic instruction sequence differs from the model', 'function': name,
                                           'source': decl, 'difference': bad})
                if len(corr.disagreements) > 12:
                    return
    corr.sample({'tie': 'f_in_add_static', 'model': ' | '.join(model_seq(ctx, 'rmw 4 s 0'))[:400]})
    # qualifier propagation
    for i, (decl, want) in enumerate(QUALIFIER_FORMS):
        rc, asm, err = cc_S(ctx, '#include <stdatomic.h>\n' + decl + '\n', f'qual{i}')
        corr.evaluations += 1
        corr.count('qualifier-form')
        corr.nontrivial.add('qual:' + decl)
        got = len(re.findall(r'^\s*lock cmpxchg', asm, re.M)) if rc == 0 else -1
        if got != want:
            corr.violations.append({'what': '_Atomic lvalue updated without the compare-exchange path' if rc == 0 else
                                    'declaration of an atomic object rejected', 'input': decl,
                                    'expected': f'{want} lock cmpxchg', 'got': got if rc == 0 else err[-300:]})

# ------------------------------------------------------------------------------------------------ leg 2: operator semantics (model vs gcc vs snapshot)

def mask(b):
    return (1 << (8 * b)) - 1

def interesting(rng, b):
    m = mask(b)
    pool = [0, 1, 2, 3, 7, m, m - 1, m >> 1, (m >> 1) + 1, (m >> 1) + 2, 0x55 & m, 0xaa & m]
    return rng.choice(pool) if rng.random() < 0.5 else rng.getrandbits(8 * b)

def opsem(ctx, corr):
    """(T)(old op val) on an atomic lvalue, single thread: Lean Op.fn == gcc == snapshot"""
    rng = ctx.rng
    n = 60 if not ctx.thorough else 600
    cases = []
    for tag in ('sc', 'uc', 'sh', 'us', 'in', 'ui', 'lo', 'ul'):
        _, cty, b, k, sg, cls = TY[tag]
        for op, sym in OPS:
            for _ in range(n // 10):
                old, val = interesting(rng, b), interesting(rng, b)
                pb = 32 if b < 8 else 64
                sval = val - (1 << 8 * b) if sg and val >> (8 * b - 1) else val
                sold = old - (1 << 8 * b) if sg and old >> (8 * b - 1) else old
                if op in ('shl', 'shr'):
                    val = rng.randrange(0, pb - 1 if b >= 4 else 8 * b + 3); sval = val
                    if op == 'shl' and (sg or b < 4) and (sold < 0 or (sold << val) >= (1 << (pb - 1))):
                        corr.count('skipped_ub'); continue
                if op in ('div', 'mod'):
                    if sval == 0 or (sg and b >= 4 and sold == -(1 << (8 * b - 1)) and sval == -1):
                        corr.count('skipped_ub'); continue
                if sg and b >= 4 and op in ('add', 'sub', 'mul'):
                    r = {'add': sold + sval, 'sub': sold - sval, 'mul': sold * sval}[op]
                    if not -(1 << (8 * b - 1)) <= r < (1 << (8 * b - 1)):
                        corr.count('skipped_ub'); continue
                cases.append((tag, op, old, val))
    src = ['#include <stdio.h>', '#include <string.h>']
    for tag in ('sc', 'uc', 'sh', 'us', 'in', 'ui', 'lo', 'ul'):
        _, cty, b, k, sg, cls = TY[tag]
        for op, sym in OPS:
            src.append(f'static unsigned long f_{tag}_{op}(unsigned long o, unsigned long v) {{ _Atomic {cty} x = ({cty})o; {cty} y = ({cty})v; '
                       f'{cty} r = (x {sym} y); {cty} z = x; unsigned long br = 0, bz = 0; memcpy(&br, &r, sizeof r); memcpy(&bz, &z, sizeof z); '
                       f'return br == bz ? br : ~0UL - 1; }}')
    src.append('int main(void) {')
    for tag, op, old, val in cases:
        src.append(f'  printf("%lu\\n", f_{tag}_{op}({old}UL, {val}UL));')
    src.append('  return 0; }')
    text = '\n'.join(src) + '\n'
    path = os.path.join(ctx.scratch, 'opsem.c')
    open(path, 'w').write(text)
    outs = {}
    for who, cmd in (('gcc', ['gcc', '-O1', '-w', '-o', path + '.gcc', path, '-latomic']),
                     ('chibicc', None)):
        if who == 'gcc':
            rc, o, e = sh(cmd, timeout=300)
            if rc != 0:
                rc, o, e = sh(['gcc', '-O1', '-w', '-o', path + '.gcc', path], timeout=300)
            exe = path + '.gcc'
        else:
            rc, o, e = sh([ctx.cc, '-I' + os.path.join(ctx.snapshot, 'include'), '-c', '-o', path + '.o', path], timeout=300)
            if rc == 0:
                rc, o, e = sh(['gcc', '-pthread', '-o', path + '.cc', path + '.o'], timeout=120)
            exe = path + '.cc'
        if rc != 0:
            if who == 'chibicc':
                corr.violations.append({'what': 'program using op= on _Atomic integers does not compile', 'input': 'opsem.c', 'expected': 'compiles', 'got': e[-400:]})
            else:
                ctx.notes.append('gcc could not build the operator-semantics reference: ' + e[-200:])
            continue
        rc, o, e = sh(['timeout', '60', exe], timeout=90)
        outs[who] = o.split() if rc == 0 else None
        if rc != 0 and who == 'chibicc':
            corr.violations.append({'what': 'single-threaded op= on _Atomic integers crashed or hung', 'input': 'opsem.c', 'expected': 'rc 0', 'got': f'rc={rc}'})
    model = ctx.driver('opfn', ''.join(f'{TY[t][2]} {TY[t][4]} {op} {val} {old}\n' for t, op, old, val in cases)).split()
    for i, (tag, op, old, val) in enumerate(cases):
        corr.evaluations += 1
        corr.count('opsem:' + op)
        key = f'opsem:{tag}:{op}:{old}:{val}'
        if old not in (0, 1) and val not in (0, 1):
            corr.nontrivial.add(key)
        m = model[i]
        g = outs.get('gcc') and outs['gcc'][i]
        c = outs.get('chibicc') and outs['chibicc'][i]
        if g is not None and g and m != g:
            corr.disagreements.append({'kind': 'Op.fn (model) differs from gcc', 'case': f'{TY[tag][1]} {old} {OPSYM[op]} {val}', 'model': m, 'gcc': g})
            return
        if c is not None and c and c != m:
            corr.violations.append({'what': 'op= on an _Atomic object stores or yields a wrong value (single thread)',
                                    'input': f'_Atomic {TY[tag][1]} x = {old}; x {OPSYM[op]} ({TY[tag][1]}){val}', 'expected': m, 'got': c})
            return
    if cases:
        t, op, old, val = cases[len(cases) // 2]
        corr.sample({'opsem': f'_Atomic {TY[t][1]} x = {old}; x {OPSYM[op]} {val}', 'model=gcc=chibicc': model[len(cases) // 2]})

# ------------------------------------------------------------------------------------------------ leg 3: stress (validation of the atomicity contract, end to end)

STRESS_HEAD = r'''
#include <stdatomic.h>
#include <pthread.h>
#include <stdio.h>
#include <stdlib.h>
#include <string.h>
typedef TYPE obj_t;
typedef ATYPE aobj_t;
#define NT NTHREADS
#define ITERS NITERS
static aobj_t gobj;
struct holder { long pad; aobj_t m; };
static aobj_t *target;
static struct holder *hold;
static atomic_int ready, go;
static int phase;
struct arg { int id; long errs; long fails; long evals; obj_t *rec; };
static struct arg args[NT];
static unsigned long bits_of(obj_t v) { unsigned long b = 0; memcpy(&b, &v, sizeof v); return b; }
static void body(struct arg *a);
static void *worker(void *p) {
  struct arg *a = p;
  atomic_fetch_add(&ready, 1);
  while (!atomic_load(&go)) ;
  body(a);
  return 0;
}
static void run_phase(int ph) {
  pthread_t th[NT];
  phase = ph; ready = 0; go = 0;
  for (int i = 0; i < NT; i++) { args[i].id = i; args[i].errs = args[i].fails = args[i].evals = 0; pthread_create(&th[i], 0, worker, &args[i]); }
  while (atomic_load(&ready) != NT) ;
  go = 1;
  for (int i = 0; i < NT; i++) pthread_join(th[i], 0);
}
static void report(const char *name) {
  long errs = 0, fails = 0, evals = 0;
  for (int i = 0; i < NT; i++) { errs += args[i].errs; fails += args[i].fails; evals += args[i].evals; }
  obj_t v = OBJ;
  printf("R %s %lu %ld %ld %ld\n", name, FINALBITS, errs, fails, evals);
  fflush(stdout);
}
'''

def stress_program(tag, storage, nt, iters, rng):
    """returns (source, [(phase name, predictor)]); predictor: ('fold', init, [(count, op, val)...]) | ('bits', value) | ('any',)"""
    _, cty, b, k, sg, cls = TY[tag]
    aty = aty_of(tag)
    obj = 'gobj' if storage == 'static' else ('hold->m' if storage == 'member' else '(*target)')
    finalbits = 'bits_of(v)' if cls != 'ptr' else '(unsigned long)(v - base)'
    head = (STRESS_HEAD.replace('ATYPE', aty).replace('TYPE', cty).replace('NTHREADS', str(nt)).replace('NITERS', str(iters))
            .replace('FINALBITS', finalbits).replace('OBJ', obj))
    if cls == 'ptr':
        head = head.replace('static aobj_t gobj;', 'static int base[8];\nstatic aobj_t gobj;')
    phases = []   # (name, init C expr, body C, predictor)
    m = mask(b)
    vs = [rng.choice([1, 3, 5, 7, 11, 13]) for _ in range(nt)]
    if cls == 'int':
        init = rng.randrange(0, 100)
        add = [(iters, 'add', v) for v in vs]
        phases.append(('add', init, 'for (long i = 0; i < ITERS; i++) OBJ += V[a->id];', ('fold', init, add)))
        phases.append(('sub', init, 'for (long i = 0; i < ITERS; i++) OBJ -= V[a->id];', ('fold', init, [(iters, 'sub', v) for v in vs])))
        phases.append(('mul', 1, 'for (long i = 0; i < ITERS; i++) OBJ *= V[a->id];', ('fold', 1, [(iters, 'mul', v) for v in vs])))
        xv = [rng.getrandbits(8 * b) | 1 for _ in range(nt)]
        phases.append(('xor', init, 'for (long i = 0; i < ITERS; i++) OBJ ^= X[a->id];', ('fold', init, [(iters, 'xor', v) for v in xv])))
        phases.append(('incdec', init, 'for (long i = 0; i < ITERS; i++) { OBJ++; ++OBJ; OBJ--; ++OBJ; --OBJ; OBJ++; }',
                       ('fold', init, [(2 * iters * nt, 'add', 1)])))
        # every operator's retry loop, all but += being the identity function
        bigm = {1: '1000', 2: '100000', 4: '(1L<<40)', 8: ('0x7fffffffffffffffL' if sg else '0xffffffffffffffffUL')}[b]
        phases.append(('ident', 0, 'for (long i = 0; i < ITERS; i++) { OBJ += 1; OBJ <<= 0; OBJ -= 0; OBJ >>= 0; OBJ /= 1; OBJ %= ' + bigm +
                       '; OBJ *= 1; OBJ |= 0; OBJ &= (obj_t)-1; OBJ ^= 0; }', ('fold', 0, [(iters * nt, 'add', 1)])))
        nb = min(nt, 8 * b)
        phases.append(('orand', 0, f'if (a->id < {nb}) {{ obj_t bit = (obj_t)((obj_t)1 << a->id); for (long i = 0; i < ITERS; i++) {{ '
                       'obj_t r1 = (OBJ |= bit); if (!(r1 & bit)) a->errs++; obj_t r2 = (OBJ &= (obj_t)~bit); if (r2 & bit) a->errs++; } OBJ |= bit; }',
                       ('bits', ((1 << nb) - 1) & m)))
        # atomic_fetch_*: returned values
        if b >= 4:
            phases.append(('fetchadd', init, 'for (long i = 0; i < ITERS; i++) a->rec[i] = atomic_fetch_add(&OBJ, (a->evals++, 1));',
                           ('fold', init, [(iters * nt, 'add', 1)]), 'unique_up'))
            phases.append(('fetchsub', (init + iters * nt) & (m >> 1), 'for (long i = 0; i < ITERS; i++) a->rec[i] = atomic_fetch_sub_explicit(&OBJ, 1, memory_order_relaxed);',
                           ('fold', (init + iters * nt) & (m >> 1), [(iters * nt, 'sub', 1)]), 'unique_down'))
            phases.append(('postinc', init, 'for (long i = 0; i < ITERS; i++) a->rec[i] = OBJ++;', ('fold', init, [(iters * nt, 'add', 1)]), 'unique_up'))
            phases.append(('preinc', init, 'for (long i = 0; i < ITERS; i++) a->rec[i] = ++OBJ - 1;', ('fold', init, [(iters * nt, 'add', 1)]), 'unique_up'))
            phases.append(('xchgchain', 0, 'for (long i = 0; i < ITERS; i++) a->rec[i] = atomic_exchange(&OBJ, (obj_t)(a->id * ITERS + i + 1));', ('any',), 'chain'))
        else:
            phases.append(('fetchadd', init, 'for (long i = 0; i < ITERS; i++) { obj_t r = atomic_fetch_add(&OBJ, 1); (void)r; }',
                           ('fold', init, [(iters * nt, 'add', 1)])))
        phases.append(('fetchbits', 0, f'if (a->id < {nb}) {{ obj_t bit = (obj_t)((obj_t)1 << a->id); for (long i = 0; i < ITERS; i++) {{ '
                       'obj_t r1 = atomic_fetch_or(&OBJ, bit); if (r1 & bit) a->errs++; obj_t r2 = atomic_fetch_and(&OBJ, (obj_t)~bit); if (!(r2 & bit)) a->errs++; '
                       'obj_t r3 = atomic_fetch_xor(&OBJ, bit); if (r3 & bit) a->errs++; obj_t r4 = atomic_fetch_xor_explicit(&OBJ, bit, memory_order_seq_cst); if (!(r4 & bit)) a->errs++; } }',
                       ('bits', 0)))
        # conservation under exchange: sum of everything swapped out + final == init + sum of everything swapped in  (mod 2^w)
        phases.append(('xchgsum', init, 'obj_t acc = 0; for (long i = 0; i < ITERS; i++) { obj_t t = (obj_t)(i * 7 + a->id); acc += (obj_t)(atomic_exchange(&OBJ, t) - t); } '
                       'OBJ -= (obj_t)-acc;', ('bits', init)))
        # explicit compare-exchange loops: reload each time / rely on the written-back expected value
        phases.append(('casloop', init, 'for (long i = 0; i < ITERS; i++) { obj_t e, n; do { e = atomic_load(&OBJ); n = e + 1; } while (!atomic_compare_exchange_weak(&OBJ, &e, n) && ++a->fails); }',
                       ('fold', init, [(iters * nt, 'add', 1)])))
        phases.append(('caswb', init, 'obj_t e = atomic_load(&OBJ); for (long i = 0; i < ITERS; i++) { while (!atomic_compare_exchange_strong(&OBJ, &e, (obj_t)(e + 3))) a->fails++; e += 3; }',
                       ('fold', init, [(iters * nt, 'add', 3)])))
    elif cls == 'bool':
        phases.append(('xor', 0, 'for (long i = 0; i < ITERS; i++) OBJ ^= 1;', ('bits', (iters * nt) & 1)))
        phases.append(('xchgflag', 0, 'for (long i = 0; i < ITERS; i++) { while (atomic_exchange(&OBJ, 1)) a->fails++; atomic_store(&OBJ, 0); }', ('bits', 0)))
    elif cls == 'ptr':
        phases.append(('add', 'base', 'for (long i = 0; i < ITERS; i++) { OBJ += 3; OBJ -= 2; }', ('bits', iters * nt)))
        phases.append(('incdec', 'base', 'for (long i = 0; i < ITERS; i++) { OBJ++; ++OBJ; OBJ--; }', ('bits', iters * nt)))
        phases.append(('fetchadd', 'base', 'for (long i = 0; i < ITERS; i++) a->rec[i] = atomic_fetch_add(&OBJ, 1);', ('bits', iters * nt), 'unique_up_ptr'))
        phases.append(('casloop', 'base', 'for (long i = 0; i < ITERS; i++) { obj_t e = atomic_load(&OBJ); while (!atomic_compare_exchange_strong(&OBJ, &e, e + 1)) a->fails++; }',
                       ('bits', iters * nt)))
    else:
        phases.append(('add', '0', 'for (long i = 0; i < ITERS; i++) OBJ += 1;', ('float', float(iters * nt))))
        phases.append(('incdec', '0', 'for (long i = 0; i < ITERS; i++) { OBJ++; ++OBJ; OBJ--; }', ('float', float(iters * nt))))
        phases.append(('submul', '0', 'for (long i = 0; i < ITERS; i++) { OBJ -= 2; OBJ *= 1; OBJ /= 1; OBJ += 3; }', ('float', float(iters * nt))))
        phases.append(('casloop', '0', 'for (long i = 0; i < ITERS; i++) { obj_t e = atomic_load(&OBJ); while (!atomic_compare_exchange_strong(&OBJ, &e, e + 1)) a->fails++; }',
                       ('float', float(iters * nt))))
    src = [head]
    if cls == 'int':
        src.append('static obj_t V[NT] = {' + ', '.join(str(v) for v in vs) + '};')
        src.append('static obj_t X[NT] = {' + ', '.join(f'(obj_t){v}UL' for v in xv) + '};')
    src.append('static void body(struct arg *a) {\n  switch (phase) {')
    for i, ph in enumerate(phases):
        src.append(f'  case {i}: {{ {ph[2].replace("OBJ", obj)} break; }}')
    src.append('  }\n}')
    src.append('int main(void) {')
    if storage == 'auto':
        src.append('  aobj_t aobj; target = &aobj;')
    elif storage == 'heap':
        src.append('  target = malloc(sizeof(aobj_t));')
    elif storage == 'member':
        src.append('  hold = malloc(sizeof *hold); target = &hold->m;')
    src.append('  for (int i = 0; i < NT; i++) args[i].rec = malloc(sizeof(obj_t) * ITERS);')
    for i, ph in enumerate(phases):
        initv = ph[1]
        src.append(f'  {obj} = (obj_t){initv}{"UL" if isinstance(initv, int) else ""}; run_phase({i});')
        chk = ph[4] if len(ph) > 4 else None
        if chk in ('unique_up', 'unique_down', 'unique_up_ptr'):
            lo = f'(long)(obj_t){initv}UL' if chk != 'unique_up_ptr' else '0'
            src.append('  { long total = (long)NT * ITERS; unsigned char *seen = calloc(total, 1); long bad = 0;')
            src.append('    for (int t = 0; t < NT; t++) for (long i = 0; i < ITERS; i++) {')
            if chk == 'unique_up':
                src.append(f'      long idx = (long)args[t].rec[i] - {lo};')
            elif chk == 'unique_down':
                src.append(f'      long idx = {lo} - (long)args[t].rec[i];')
            else:
                src.append('      long idx = args[t].rec[i] - base;')
            src.append('      if (idx < 0 || idx >= total || seen[idx]) bad++; else seen[idx] = 1; }')
            src.append('    for (int t = 0; t < NT; t++) for (long i = 1; i < ITERS; i++) if (' +
                       ('args[t].rec[i] <= args[t].rec[i-1]' if chk != 'unique_down' else 'args[t].rec[i] >= args[t].rec[i-1]') + ') bad++;')
            src.append('    args[0].errs += bad; free(seen); }')
        if chk == 'chain':
            src.append('  { long total = (long)NT * ITERS + 1; unsigned char *seen = calloc(total, 1); long bad = 0;')
            src.append('    for (int t = 0; t < NT; t++) for (long i = 0; i < ITERS; i++) { long idx = (long)args[t].rec[i]; if (idx < 0 || idx >= total || seen[idx]) bad++; else seen[idx] = 1; }')
            src.append(f'    {{ long idx = (long){obj}; if (idx < 0 || idx >= total || seen[idx]) bad++; else seen[idx] = 1; }}')
            src.append('    for (long i = 0; i < total; i++) if (!seen[i]) bad++;')
            src.append('    args[0].errs += bad; free(seen); }')
        src.append(f'  report("{ph[0]}");')
    src.append('  return 0; }')
    return '\n'.join(src) + '\n', [(ph[0], ph[3]) for ph in phases]

def build_run(ctx, text, name, timeout_s):
    """compile with the snapshot, link with gcc -pthread, run under timeout; returns (rc, stdout, stderr)"""
    path = os.path.join(ctx.scratch, name + '.c')
    open(path, 'w').write(text)
    rc, o, e = sh([ctx.cc, '-I' + os.path.join(ctx.snapshot, 'include'), '-c', '-o', path + '.o', path], timeout=120)
    if rc != 0:
        return ('compile', rc, o, e)
    rc, o, e = sh(['gcc', '-pthread', '-o', path + '.exe', path + '.o'], timeout=120)
    if rc != 0:
        return ('link', rc, o, e)
    rc, o, e = sh(['timeout', '-s', 'KILL', str(timeout_s), path + '.exe'], timeout=timeout_s + 30)
    return ('run', rc, o, e)

def stress(ctx, corr, plan=None):
    rng = ctx.rng
    iters = 100000
    if plan is not None:
        pass
    elif ctx.thorough:
        combos = [(t, s) for t in TY for s in ('static', 'auto', 'heap', 'member')]
        nts = [2, 3, 4, 8, 16]
        plan = [(t, s, nts[(i + j) % len(nts)]) for i, (t, s) in enumerate(combos) for j in range(2)]
    else:
        tags = list(TY)
        rng.shuffle(tags)
        stor = ['static', 'auto', 'heap', 'member']
        plan = []
        ntq = [2, 4, 16, 3, 8]
        for i, t in enumerate(tags[:7]):
            plan.append((t, stor[i % 4], ntq[i % len(ntq)]))
        # every width under the worst contention every time
        # ... and `int *_Atomic p`: p++ / p += n / fetch_add / compare-exchange loops on a pointer made atomic by its declarator
        for t in ('uc', 'sh', 'in', 'ul', 'pq'):
            if not any(p[0] == t for p in plan):
                plan.append((t, rng.choice(stor), rng.choice([2, 16])))
    corr.extra['stress_plan'] = [f'{TY[t][1]}/{s}/{n}thr' for t, s, n in plan]
    runs = []
    for (tag, storage, nt) in plan:
        text, phases = stress_program(tag, storage, nt, iters, rng)
        name = f'stress_{tag}_{storage}_{nt}'
        kind, rc, o, e = build_run(ctx, text, name, 60 if not ctx.thorough else 240)
        runs.append((tag, storage, nt, phases, kind, rc, o, e, text))
        _, cty, b, k, sg, cls = TY[tag]
        fold_q = [(pname, f'{b} {sg} {pred[1]} ' + ' '.join(f'{c} {op} {v}' for c, op, v in pred[2]))
                  for pname, pred in phases if pred[0] == 'fold']
        answers = ctx.driver('fold', ''.join(q + '\n' for _, q in fold_q)).split() if fold_q else []
        predicted = {pn: a for (pn, _), a in zip(fold_q, answers)}
        desc = f'_Atomic {cty}, {storage} object, {nt} threads x {iters} iterations'
        if kind != 'run':
            corr.violations.append({'what': f'stress program does not {kind}', 'input': desc, 'expected': 'builds', 'got': e[-500:], 'program': text})
            return
        got = {}
        for line in o.splitlines():
            w = line.split()
            if len(w) == 6 and w[0] == 'R':
                got[w[1]] = (int(w[2]), int(w[3]), int(w[4]), int(w[5]))
        for pname, pred in phases:
            corr.evaluations += 1
            corr.count(f'stress:{pname}')
            key = f'stress:{tag}:{storage}:{nt}:{pname}'
            if pname not in got:
                why = 'did not terminate within the time limit (killed)' if rc in (137, -9) else f'ended with rc={rc}'
                corr.violations.append({'what': f'atomic stress phase `{pname}` {why}', 'input': desc, 'expected': 'terminates with the linearizable value',
                                        'got': (o[-300:] + e[-200:]), 'program': text, 'phase': pname})
                return
            final, errs, fails, evals = got[pname]
            corr.nontrivial.add(key)
            if fails > 0:
                corr.count('stress:observed-cas-failures', fails)
            if pred[0] == 'fold':
                want = int(predicted[pname]) if predicted[pname] != 'trap' else None
            elif pred[0] == 'bits':
                want = pred[1]
            elif pred[0] == 'float':
                import struct
                want = struct.unpack('<I', struct.pack('<f', pred[1]))[0] if b == 4 else struct.unpack('<Q', struct.pack('<d', pred[1]))[0]
            else:
                want = final
            if want != final or errs != 0:
                corr.violations.append({'what': f'atomic updates lost or wrong values returned in phase `{pname}`', 'input': desc,
                                        'expected': f'final object bits {want}, 0 inconsistent return values', 'got': f'final {final}, {errs} inconsistent return values',
                                        'program': text, 'phase': pname})
                return
            if pname == 'fetchadd' and evals and evals != nt * iters:
                corr.violations.append({'what': 'operand of atomic_fetch_add evaluated more than once per call', 'input': desc,
                                        'expected': nt * iters, 'got': evals, 'program': text, 'phase': pname})
                return
    if runs:
        tag, storage, nt, phases, kind, rc, o, e, text = runs[0]
        corr.sample({'stress': f'_Atomic {TY[tag][1]} {storage} {nt} threads', 'output': o.splitlines()[:4]})

# ------------------------------------------------------------------------------------------------ leg 4: forced compare-exchange failure (ping-pong), model vs implementation

PINGPONG = r'''
#include <stdatomic.h>
#include <pthread.h>
#include <stdio.h>
#include <string.h>
typedef TYPE obj_t;
static _Atomic obj_t x;
static atomic_int turn;
/* the expected-value object between two guard objects: a failure write-back wider than the object clobbers one of them */
static struct { obj_t g0; obj_t e; obj_t g1; unsigned char tail[8]; } ex;
static unsigned long bits_of(obj_t v) { unsigned long b = 0; memcpy(&b, &v, sizeof v); return b; }
static void *B(void *p) {
  while (atomic_load(&turn) != 1) ;
  BOP;
  atomic_store(&turn, 2);
  return 0;
}
int main(void) {
  pthread_t t;
  x = (obj_t)INITUL;
  memset(&ex, 0x5a, sizeof ex);
  pthread_create(&t, 0, B, 0);
  ex.e = atomic_load(&x);
  printf("val:%lu\n", bits_of(ex.e));
  atomic_store(&turn, 1);
  while (atomic_load(&turn) != 2) ;
  int ok = atomic_compare_exchange_strong(&x, &ex.e, (obj_t)DES1UL);
  printf("cas:%d:%lu\n", ok, bits_of(ex.e));
  ok = atomic_compare_exchange_weak(&x, &ex.e, (obj_t)DES2UL);
  printf("cas:%d:%lu\n", ok, bits_of(ex.e));
  obj_t p = atomic_exchange(&x, (obj_t)DES1UL);
  printf("val:%lu\n", bits_of(p));
  pthread_join(t, 0);
  obj_t f = x;
  printf("cell=%lu\n", bits_of(f));
  int clobbered = 0;
  unsigned char *raw = (unsigned char *)&ex;
  for (unsigned i = 0; i < sizeof ex; i++)
    if ((i < sizeof(obj_t) || i >= 2 * sizeof(obj_t)) && raw[i] != 0x5a) clobbered++;
  printf("clobbered=%d\n", clobbered);
  return 0;
}
'''

def pingpong(ctx, corr):
    rng = ctx.rng
    n = 3 if not ctx.thorough else 12
    for tag in ('sc', 'uc', 'sh', 'us', 'in', 'ui', 'lo', 'ul'):
        _, cty, b, k, sg, cls = TY[tag]
        m = mask(b)
        for it in range(n):
            init = interesting(rng, b) | (1 << (8 * b - 1)) if it % 2 == 0 else interesting(rng, b)
            bval = (init ^ (1 << rng.randrange(8 * b))) & m
            d1, d2 = interesting(rng, b), interesting(rng, b)
            bkind = rng.choice(['store', 'add', 'xchg'])
            if bkind == 'store':
                bop, mop = f'atomic_store(&x, (obj_t){bval}UL)', f'store:{bval}'
            elif bkind == 'xchg':
                bop, mop = f'atomic_exchange(&x, (obj_t){bval}UL)', f'xchg:{bval}'
            else:
                delta = (bval - init) & m
                bop, mop = f'x += (obj_t){delta}UL', f'rmw:add:{delta}:0'
            text = (PINGPONG.replace('TYPE', cty).replace('INIT', str(init)).replace('BOP', bop)
                    .replace('DES1', str(d1)).replace('DES2', str(d2)))
            kind, rc, o, e = build_run(ctx, text, f'pp_{tag}_{it}', 30)
            corr.evaluations += 1
            corr.count('pingpong')
            desc = f'_Atomic {cty} x = {init}; A: e = load(x); B: {bop}; A: cas(&x,&e,{d1}); cas(&x,&e,{d2}); exchange(&x,{d1})'
            if kind != 'run' or rc != 0:
                corr.violations.append({'what': 'compare-exchange ping-pong did not build or did not terminate', 'input': desc, 'expected': 'rc 0',
                                        'got': f'{kind} rc={rc} {e[-200:]}', 'program': text})
                continue
            # thread 0 = A: load, cas(init -> d1) [fails], cas(observed -> d2) [succeeds], xchg d1 ; thread 1 = B
            q = f'{b} {k} {init} ; load cas:{init}:{d1} cas:{bval}:{d2} xchg:{d1} ; {mop} ; sched 0! 0x4 1! 0! 0! 0!\n'
            ans = ctx.driver('run', q).strip()
            mm = re.match(r'cell=(\d+) done=1 \| (.*?) \| (.*?) \| log (.*)', ans)
            if not mm:
                corr.disagreements.append({'kind': 'model could not run the ping-pong schedule', 'query': q, 'answer': ans})
                return
            model_lines = mm.group(2).split() + [f'cell={mm.group(1)}', 'clobbered=0']
            impl_lines = o.split()
            corr.nontrivial.add(f'pp:{tag}:{init}:{bval}:{d1}:{d2}:{bkind}')
            want_fail = f'cas:0:{bval}'
            if model_lines[1] != want_fail:
                corr.disagreements.append({'kind': 'model does not fail the forced compare-exchange', 'query': q, 'answer': ans})
                return
            if impl_lines != model_lines:
                corr.violations.append({'what': 'compare-exchange failure path: returned flag / written-back expected value / object differ from the '
                                        'sequential specification, or bytes outside the expected-value object were written', 'input': desc, 'expected': ' '.join(model_lines), 'got': ' '.join(impl_lines), 'program': text})
                return
    corr.sample({'pingpong': desc, 'model=implementation': ' '.join(model_lines)})

# ------------------------------------------------------------------------------------------------ leg 5: typing of ND_CAS / ND_EXCH: one width

# operand descriptions understood by `drv_c16 castype`: (C declaration of a pointer to it named N, bytes, kind for the model sequence)
OPERANDS = {
    'bool': ('_Bool *N', 1, 's'), 'char': ('char *N', 1, 's'), 'uchar': ('unsigned char *N', 1, 'u'),
    'short': ('short *N', 2, 's'), 'ushort': ('unsigned short *N', 2, 'u'), 'int': ('int *N', 4, 's'),
    'uint': ('unsigned *N', 4, 'u'), 'long': ('long *N', 8, 's'), 'ulong': ('unsigned long *N', 8, 'u'),
    'float': ('float *N', 4, 'f'), 'double': ('double *N', 8, 'f'), 'ldouble': ('long double *N', 16, None),
    'enum': ('enum E *N', 4, 's'), 'p': ('int **N', 8, 'u'), 'void': ('void *N', 1, None),
    'struct1': ('struct S1 *N', 1, None), 'struct2': ('struct S2 *N', 2, None), 'struct4': ('struct S4 *N', 4, None),
    'struct8': ('struct S8 *N', 8, None), 'struct12': ('struct S12 *N', 12, None), 'union4': ('union U4 *N', 4, None),
    'arr3': ('char (*N)[3]', 3, None), 'arr4': ('char (*N)[4]', 4, None), 'arr8': ('char (*N)[8]', 8, None),
}
OPERAND_DEFS = ('enum E { EA, EB }; struct S1 { char c[1]; }; struct S2 { char c[2]; }; struct S4 { char c[4]; }; struct S8 { char c[8]; }; '
                'struct S12 { char c[12]; }; union U4 { char c[4]; };\n')
NONPTR = {'int': 'int N', 'long': 'long N'}
CAS_MSG = {'ptr-addr': 'pointer expected', 'ptr-old': 'pointer expected',
           'large': 'atomic operations on objects larger than 8 bytes are not supported',
           'aggr-addr': 'atomic operations on aggregates are not supported', 'aggr-old': 'atomic operations on aggregates are not supported',
           'size': 'the expected value must have the size of the atomic object'}

def operand_decl(desc, name):
    if desc.startswith('p:'):
        return OPERANDS[desc[2:]][0].replace('N', name) + ';'
    return NONPTR[desc].replace('N', name) + ';'

def operand_bytes(desc):
    return OPERANDS[desc[2:]][1] if desc.startswith('p:') else None

GUARD_PROG = r"""
#include <stdio.h>
#include <string.h>
DEFS
/* a failing compare-exchange (object 0x11.., expected 0x22..) must store the observed value into the expected-value object and
   touch nothing else: 16 guard bytes on either side of it, for every width */
#define TEST(TA, TO) { static TA obj; static struct { unsigned char before[16]; TO e; unsigned char after[16]; } s; \
  memset(&obj, 0x11, sizeof obj); memset(&s, 0x22, sizeof s); \
  int ok = __builtin_compare_and_swap(&obj, &s.e, (TA)0); int bad = 0; \
  for (int i = 0; i < 16; i++) { if (s.before[i] != 0x22) bad++; if (s.after[i] != 0x22) bad++; } \
  if (sizeof(TA) == sizeof(TO) && memcmp(&s.e, &obj, sizeof obj)) bad += 100; \
  printf("object=%d expected=%d ok=%d clobbered=%d\n", (int)sizeof(TA), (int)sizeof(TO), ok, bad); total += bad; }
int main(void) {
  int total = 0;
  TESTS
  return total != 0;
}
"""

def guard_program(pairs):
    return GUARD_PROG.replace('DEFS', OPERAND_DEFS).replace('TESTS', ' '.join(f'TEST({a}, {o})' for a, o in pairs))

ALL_WIDTHS = [('unsigned char', 'unsigned char'), ('short', 'short'), ('int', 'int'), ('long', 'long'), ('float', 'float'), ('double', 'double'),
              ('int *', 'int *')]

def cas_arm_widths(lines, at):
    """widths (bytes) of the three operands of the ND_CAS arm around the `lock cmpxchg` at lines[at], read off the registers"""
    W = {'%al': 1, '%ax': 2, '%eax': 4, '%rax': 8, '%dl': 1, '%dx': 2, '%edx': 4, '%rdx': 8}
    m = re.fullmatch(r'lock cmpxchg (%\w+), \(%rdi\)', lines[at])
    wx = W.get(m.group(1)) if m else None
    wb = None
    for l in lines[at + 1: at + 5]:
        m = re.fullmatch(r'mov (%\w+), \(%r8\)', l)
        if m:
            wb = W.get(m.group(1))
    ld = None
    j = at - 1
    while j >= 0 and lines[j].startswith('pop '):
        j -= 1
    if j >= 1 and lines[j - 1] == 'mov %rax, %r8':
        l = lines[j]
        m = re.fullmatch(r'mov \(%rax\), (%\w+)', l)
        if m:
            ld = W.get(m.group(1))
        elif re.fullmatch(r'mov[sz]bl \(%rax\), %eax', l):
            ld = 1
        elif re.fullmatch(r'mov[sz]wl \(%rax\), %eax', l):
            ld = 2
        elif l == 'movsxd (%rax), %rax':
            ld = 4
    elif j >= 0 and lines[j] == 'mov %rax, %r8':
        ld = 0          # nothing is loaded at all: the ADDRESS of the expected value is compared
    return ld, wx, wb

def castypes(ctx, corr, keep_going=False):
    """generated family of (atomic object, expected object) operand types for __builtin_compare_and_swap and of objects for
    __builtin_atomic_exchange: the real type checker must accept exactly what Model/C16Typing.lean accepts, with the same message
    when it rejects; an accepted compare-exchange must use ONE width = sizeof(*addr) = sizeof(*old) for the load of the expected
    value, the lock cmpxchg and the failure write-back (read off the emitted registers, independent of the model)"""
    rng = ctx.rng
    descs = ['p:' + d for d in OPERANDS]
    pairs = [('p:long', 'p:int'), ('p:int', 'p:long'), ('p:int', 'p:ldouble'), ('p:ldouble', 'p:ldouble'), ('p:int', 'p:struct4'),
             ('p:struct4', 'p:struct4'), ('p:arr3', 'p:arr3'), ('p:arr4', 'p:int'), ('p:int', 'p:arr4'), ('p:void', 'p:char'),
             ('int', 'p:int'), ('p:int', 'int'), ('p:p', 'p:long'), ('p:double', 'p:long'), ('p:float', 'p:int'), ('p:ushort', 'p:short'),
             ('p:bool', 'p:uchar'), ('p:enum', 'p:float'), ('p:char', 'p:short'), ('p:ulong', 'p:uint'), ('p:union4', 'p:int'),
             ('p:struct8', 'p:long'), ('p:long', 'p:struct8'), ('p:arr8', 'p:arr8'), ('p:struct12', 'p:struct12'), ('p:uchar', 'p:uint')]
    allp = [(a, o) for a in descs for o in descs]
    if ctx.thorough:
        pairs += allp
    else:
        pairs += rng.sample(allp, 110)
    pairs = list(dict.fromkeys(pairs))
    answers = ctx.driver('castype', ''.join(f'{a} {o}\n' for a, o in pairs)).splitlines()
    for (a, o), ans in zip(pairs, answers):
        corr.evaluations += 1
        corr.count('castype')
        mcas = ans.split(' / ')[0]
        src = OPERAND_DEFS + operand_decl(a, 'p') + ' ' + operand_decl(o, 'q') + '\nint fcas(void) { return __builtin_compare_and_swap(p, q, 1); }\n'
        rc, asm, err = cc_S(ctx, src, 'castype')
        ba, bo = operand_bytes(a), operand_bytes(o)
        key = f'castype:{a}:{o}'
        if ba != bo:
            corr.nontrivial.add(key)
        if rc == 0:
            lines = functions(asm).get('fcas', [])
            at = [i for i, l in enumerate(lines) if l.startswith('lock cmpxchg')]
            ld, wx, wb = cas_arm_widths(lines, at[0]) if len(at) == 1 else (None, None, None)
            scal_a = a.startswith('p:') and OPERANDS[a[2:]][2] is not None
            scal_o = o.startswith('p:') and OPERANDS[o[2:]][2] is not None
            # the property's own reading (independent of the model): one width, equal to both object sizes, both objects scalar
            if not (scal_a and scal_o and ba == bo and ld == wx == wb == ba):
                v = {'what': 'compare-exchange accepted although the expected-value object and the atomic object are not scalars of one size '
                             '(load of the expected value / lock cmpxchg / failure write-back use different widths)',
                     'input': src, 'expected': 'a located diagnostic (or one width for all three operands)',
                     'got': f'sizeof(*addr)={ba} sizeof(*old)={bo}; expected-value load {ld} bytes, lock cmpxchg {wx} bytes, write-back {wb} bytes'}
                if scal_a and scal_o:
                    # a runnable witness: the accepted pair (if the expected object is the smaller one) and every equal-width pair, with guard bytes
                    ta = OPERANDS[a[2:]][0].replace(' *N', '').replace('*N', '*')
                    to = OPERANDS[o[2:]][0].replace(' *N', '').replace('*N', '*')
                    prs = ([(ta, to)] if bo < ba <= 8 else []) + ALL_WIDTHS
                    v['program'] = guard_program(prs)
                    kind, rc2, o2, e2 = build_run(ctx, v['program'], 'castype_guard', 30)
                    v['got'] += ' || run with guard bytes: ' + (o2.strip().replace('\n', '; ') if kind == 'run' else f'{kind} failed: {e2[-200:]}')
                corr.violations.append(v)
                return
            if not mcas.startswith('ok'):
                corr.disagreements.append({'kind': 'ND_CAS typing: model rejects, chibicc accepts', 'operands': f'{a} {o}', 'model': mcas})
                if keep_going and len(corr.disagreements) < 6:
                    continue
                return
            model = model_seq(ctx, f'cas {ba} {OPERANDS[o[2:]][2]}')
            bad = match_fixed(model, lines, at[0], model.index(next(x for x in model if x.startswith('lock cmpxchg'))))
            if bad:
                corr.disagreements.append({'kind': 'ND_CAS arm differs from the model sequence of its width', 'operands': f'{a} {o}', 'difference': bad})
                if keep_going and len(corr.disagreements) < 6:
                    continue
                return
        else:
            if 'internal error' in err or rc != 1 or not re.search(r'castype\.c:\d+:', err):
                corr.violations.append({'what': 'compare-exchange on unsupported operand types is not answered with a located diagnostic',
                                        'input': src, 'expected': 'exit 1 and file:line: message', 'got': f'rc={rc} {err[-300:]}'})
                return
            if mcas.startswith('ok'):
                corr.disagreements.append({'kind': 'ND_CAS typing: model accepts, chibicc rejects', 'operands': f'{a} {o}', 'stderr': err[-200:]})
                if keep_going and len(corr.disagreements) < 6:
                    continue
                return
            if CAS_MSG.get(mcas, '?') not in err:
                corr.disagreements.append({'kind': 'ND_CAS typing: different diagnostic', 'operands': f'{a} {o}', 'model': mcas, 'stderr': err[-200:]})
                if keep_going and len(corr.disagreements) < 6:
                    continue
                return
    # exchange: one operand
    singles = descs + ['int']
    answers = ctx.driver('castype', ''.join(f'{a} p:int\n' for a in singles)).splitlines()
    for a, ans in zip(singles, answers):
        corr.evaluations += 1
        corr.count('exchtype')
        mx = ans.split(' / ')[1]
        src = OPERAND_DEFS + operand_decl(a, 'p') + '\nvoid fx(void) { __builtin_atomic_exchange(p, 1); }\n'
        rc, asm, err = cc_S(ctx, src, 'exchtype')
        corr.nontrivial.add('exchtype:' + a)
        if rc == 0:
            lines = functions(asm).get('fx', [])
            nx = [l for l in lines if l.startswith('xchg ')]
            scal = a.startswith('p:') and OPERANDS[a[2:]][2] is not None
            W = {'%al': 1, '%ax': 2, '%eax': 4, '%rax': 8}
            wx = W.get(re.fullmatch(r'xchg (%\w+), \(%rdi\)', nx[0]).group(1)) if len(nx) == 1 else None
            if not (scal and wx == operand_bytes(a)):
                corr.violations.append({'what': 'atomic exchange accepted on an object that is not a scalar of 1, 2, 4 or 8 bytes, or emitted with another width',
                                        'input': src, 'expected': 'a located diagnostic', 'got': f'xchg of {wx} bytes for an object of {operand_bytes(a)} bytes'})
                return
            if not mx.startswith('ok'):
                corr.disagreements.append({'kind': 'ND_EXCH typing: model rejects, chibicc accepts', 'operand': a, 'model': mx})
                if keep_going and len(corr.disagreements) < 6:
                    continue
                return
        else:
            if 'internal error' in err or rc != 1 or not re.search(r'exchtype\.c:\d+:', err):
                corr.violations.append({'what': 'atomic exchange on an unsupported operand type is not answered with a located diagnostic',
                                        'input': src, 'expected': 'exit 1 and file:line: message', 'got': f'rc={rc} {err[-300:]}'})
                return
            if mx.startswith('ok') or CAS_MSG.get(mx, '?') not in err:
                corr.disagreements.append({'kind': 'ND_EXCH typing: model and chibicc differ', 'operand': a, 'model': mx, 'stderr': err[-200:]})
                if keep_going and len(corr.disagreements) < 6:
                    continue
                return
    corr.sample({'castype': 'long *p; int *q; __builtin_compare_and_swap(p, q, 1)', 'model=chibicc': CAS_MSG['size']})

def casnodes(ctx, corr):
    """every ND_CAS / ND_EXCH node of the typed AST of the tie programs (what the real checker accepted): Model/C16Typing.lean accepts
    it, the hypotheses of C16_cas_width hold (SizeWf of the two pointee types - and of every type of the table -, cas_new has the kind
    of the object), and Codegen.casArm / exchArm print the interleaving model's lines for the one width"""
    for tag in TY:
        src, funcs = tie_source(tag)
        path = os.path.join(ctx.scratch, f'nodes_{tag}.c')
        open(path, 'w').write(src)
        dump = path + '.dump'
        rc, o, e = sh([ctx.cch, '-I' + os.path.join(ctx.hooked, 'include'), '-S', '-o', '/dev/null', '-verif-dump-ast', dump, path], timeout=120)
        if rc != 0 or not os.path.exists(dump):
            corr.disagreements.append({'kind': 'casnodes: the hooked build rejects the tie program', 'type': TY[tag][1], 'stderr': e[-300:]})
            return
        exe, err = ctx.build_driver()
        if exe is None:
            raise ModelBuildFailure(err)
        rc, o, e = sh([exe, 'casnodes', dump], timeout=300)
        lines = o.splitlines()
        if rc != 0 or not lines or not lines[0].startswith('types='):
            corr.disagreements.append({'kind': 'casnodes: the driver cannot read the dump', 'type': TY[tag][1], 'output': (o + e)[-300:]})
            return
        if 'sizewf-violations=0' not in lines[0]:
            corr.disagreements.append({'kind': 'type table violates SizeWf (a scalar kind with another size than type.c gives it)', 'type': TY[tag][1], 'line': lines[0]})
            return
        nodes = lines[1:]
        want = sum(1 for _, kind, _ in funcs if kind in ('rmw', 'cas', 'xchg'))
        if len(nodes) != want:
            corr.disagreements.append({'kind': 'casnodes: number of ND_CAS/ND_EXCH nodes', 'type': TY[tag][1], 'expected': want, 'got': len(nodes)})
            return
        for l in nodes:
            corr.evaluations += 1
            corr.count('casnode')
            corr.nontrivial.add('casnode:' + tag + ':' + l.split(' ')[0])
            okc = ' cas check=ok wf=true ' in l and 'newkind-ok=true arm=true' in l and f'bytes={TY[tag][2]} oldbytes={TY[tag][2]}' in l
            okx = ' exch check=ok wf=true ' in l and 'arm=true' in l and f'bytes={TY[tag][2]}' in l
            if not (okc or okx):
                corr.disagreements.append({'kind': 'an ND_CAS/ND_EXCH node the real type checker accepted fails the typing model or a hypothesis of C16_cas_width',
                                           'type': TY[tag][1], 'node': l[:300]})
                return

# ------------------------------------------------------------------------------------------------ source sites of `is_atomic`

# (file, enclosing function) -> number of lines mentioning `is_atomic`.  Model/C16Qual.lean mirrors exactly these writers
# (declspec; pointers: `_Atomic` in the qualifier list after a `*`, /repo 1c76c1e) and readers (to_assign, new_inc_dec, struct_members); copy_type copies the whole struct.  A new reader or writer
# anywhere in the compiler must be looked at before the model can be trusted again.
ATOMIC_SITES = {('parse.c', 'declspec'): 4, ('parse.c', 'pointers'): 1, ('parse.c', 'to_assign'): 2, ('parse.c', 'struct_members'): 1, ('parse.c', 'new_inc_dec'): 1,
                ('chibicc.h', '<struct Type>'): 1, ('verif_dump.c', '<comment>'): 1, ('verif_dump.c', 'dump_type'): 1}

def atomic_sites(ctx, corr):
    found = {}
    for fn in sorted(os.listdir(ctx.snapshot)):
        if not (fn.endswith('.c') or fn.endswith('.h')) or not os.path.isfile(os.path.join(ctx.snapshot, fn)):
            continue
        lines = open(os.path.join(ctx.snapshot, fn), errors='replace').read().splitlines()
        for i, l in enumerate(lines):
            if 'is_atomic' not in l:
                continue
            where = '<top>'
            if l.lstrip().startswith('//'):
                where = '<comment>'
            elif fn.endswith('.h'):
                where = '<struct Type>'
            else:
                for j in range(i, -1, -1):
                    m = re.match(r'^(?:static\s+)?[A-Za-z_][\w \*]*?\b(\w+)\([^;]*\)\s*\{\s*$', lines[j])
                    if m and not lines[j].startswith((' ', '\t')):
                        where = m.group(1)
                        break
            found[(fn, where)] = found.get((fn, where), 0) + 1
    corr.evaluations += 1
    corr.count('atomic-sites', sum(found.values()))
    if found != ATOMIC_SITES:
        diff = {f'{k[0]}:{k[1]}': (ATOMIC_SITES.get(k), found.get(k)) for k in set(found) | set(ATOMIC_SITES) if ATOMIC_SITES.get(k) != found.get(k)}
        corr.disagreements.append({'kind': 'the set of source sites that read or write Type.is_atomic changed (expected, found); Model/C16Qual.lean must be reviewed',
                                   'sites': diff})

# ------------------------------------------------------------------------------------------------ leg 6: _Atomic propagation (declarations -> lvalue -> update path)

QUAL_MSG = [
    ('bit-field has atomic type', {'atomic-bitfield'}), ('bit-field has non-integer type', {'bitfield-not-integer'}),
    ('atomic operations on objects larger than 8 bytes are not supported', {'rmw-rejected'}),
    ('atomic operations on aggregates are not supported', {'rmw-rejected'}),
    ('invalid operands', {'rmw-rejected', 'invalid-operands'}), ('invalid pointer dereference', {'invalid-deref'}),
    ('dereferencing a void pointer', {'deref-void'}), ('cannot take address of bitfield', {'addr-of-bitfield'}),
    ('not a struct nor a union', {'not-a-struct'}), ('no such member', {'no-such-member'}), ('not a function', {'not-a-function'}),
    ('variable declared void', {'declared-void'}), ('undefined variable', {'undefined-variable'}),
]

CLANG = shutil.which('clang-14') or shutil.which('clang')

def qual_cases(ctx):
    from . import c16_qualgen as G
    n = 400 if not ctx.thorough else 6000
    cases = [(c, None) for c in G.FIXED]
    for _ in range(n):
        text, names, t = G.gen_case(ctx.rng)
        cases.append((text, names))
    return cases

def qualifier(ctx, corr, cases=None, keep_going=False):
    """model (Model/C16Qual.lean) vs real parser (AST dump) on declared types and the update path; specification
    (Spec/C16QualSpec.lean) vs real parser: an lvalue the C semantics makes atomic must be updated by the compare-and-swap loop
    (or rejected with a located diagnostic), never by a plain load-operate-store"""
    if cases is None:
        cases = qual_cases(ctx)
    out = ctx.driver('qual', ''.join(c + '\n' for c, _ in cases)).splitlines()
    if len(out) != len(cases):
        corr.disagreements.append({'kind': 'qualifier: driver answered a different number of lines', 'expected': len(cases), 'got': len(out)})
        return
    work = os.path.join(ctx.scratch, 'qual')
    os.makedirs(work, exist_ok=True)
    oracle_budget = [len(cases) if ctx.thorough else 260]
    oracle_runs = [0, oracle_budget[0]]       # reference-compiler invocations so far, and their bound (3x the budget)
    todo = []
    for i, ((case, _), line) in enumerate(zip(cases, out)):
        f = dict(x.split('=', 1) for x in line.split('\t') if '=' in x)
        if 'C' not in f:
            corr.disagreements.append({'kind': 'qualifier: the driver cannot read the case', 'case': case, 'answer': line[:200]})
            return
        src = os.path.join(work, f'q{i}.c')
        open(src, 'w').write(f['C'] + '\n')
        dump, asm = src + '.dump', src + '.s'
        rc, o, e = sh([ctx.cch, '-S', '-o', asm, '-verif-dump-ast', dump, src], timeout=60)
        names = ','.join(x.split('=', 1)[0] for x in f['types'].split(';') if x)
        todo.append((case, f, src, dump, asm, rc, e, names))
    complete = [t for t in todo if t[5] == 0 and os.path.exists(t[3])]
    real = ctx.driver('qualdumps', ''.join(f'{t[3]} {t[7]}\n' for t in complete)).splitlines() if complete else []
    realof = {t[2]: r for t, r in zip(complete, real)}
    for case, f, src, dump, asm, rc, e, names in todo:
        corr.evaluations += 1
        mpath, spec = f['path'], f.get('spec', '')
        atomic_lv = spec.startswith('lv:atomic')
        corr.count('qual:' + ('atomic-lvalue' if atomic_lv else 'spec-none' if spec.endswith('none') else 'plain-lvalue'))
        key = 'qual:' + hashlib.sha1(case.encode()).hexdigest()[:12]
        if atomic_lv:
            corr.nontrivial.add(key)
        if mpath == 'diag:unmodelled':
            corr.count('skipped_unmodelled')
            continue
        ctext = f['C']
        if rc != 0:
            located = rc == 1 and re.search(r'q\d+\.c:\d+:', e) and 'internal error' not in e
            if not located:
                corr.violations.append({'what': 'declaration / update of an _Atomic object is not answered with output or a located diagnostic',
                                        'input': ctext, 'expected': 'exit 0, or exit 1 and file:line: message', 'got': f'rc={rc} {e[-300:]}', 'case': case})
                return
            tags = set()
            for msg, tg in QUAL_MSG:
                if msg in e:
                    tags |= tg
            corr.count('qual:rejected')
            if not mpath.startswith('diag:') or mpath[5:] not in tags:
                corr.disagreements.append({'kind': '_Atomic propagation: chibicc rejects, the model predicts ' + mpath, 'input': ctext, 'stderr': e[-200:], 'case': case})
                if keep_going and len(corr.disagreements) < 6:
                    continue
                return
            continue
        r = realof.get(src, '')
        rf = dict(x.split('=', 1) for x in r.split('\t') if '=' in x)
        rpath = rf.get('path', '?')
        ncas = len(re.findall(r'^\s*lock cmpxchg', open(asm).read(), re.M)) if os.path.exists(asm) else -1
        # specification vs an independent implementation of the C semantics (validates Spec/C16QualSpec.lean, DESIGN 3.3):
        # clang-14 compiles the same text; where it accepts, its code for f contains an atomic instruction iff the spec says
        # the updated lvalue is atomic
        if CLANG and (spec.startswith('lv')) and oracle_budget[0] > 0 and oracle_runs[0] < 3 * oracle_runs[1]:
            oracle_budget[0] -= 1
            oracle_runs[0] += 1
            who = 'clang-14'
            rcc, oc, ec = sh([CLANG, '-std=gnu2x', '-w', '-S', '-O0', '-o', '-', src], timeout=60)
            if rcc != 0 and 'typeof' not in ctext:
                # clang-14 rejects `+=` / `-=` on an atomic pointer, arithmetic on atomic function / void pointers and `restrict`
                # beside `_Atomic`; gcc 12 accepts them.  (Not for typeof: GNU typeof drops `_Atomic`, C23 typeof keeps it.)
                who = 'gcc'
                rcc, oc, ec = sh(['gcc', '-std=gnu2x', '-w', '-S', '-O0', '-o', '-', src], timeout=60)
            if rcc != 0:
                corr.count('spec-oracle:clang-rejects')
                oracle_budget[0] += 1           # a rejected text validates nothing: does not count against the budget
            else:
                mm = re.search(r'^f:(.*?)\.cfi_endproc', oc, re.S | re.M)
                cbody = mm.group(1) if mm else oc
                catomic = bool(re.search(r'\block\b|\bxchg|cmpxchg|__atomic|\bmfence', cbody))
                corr.count(('spec-oracle:agree' if who == 'clang-14' else 'spec-oracle:agree(gcc)') if catomic == atomic_lv else 'spec-oracle:DIFFER')
                if atomic_lv and re.search(r'\* (?:\w+ +)*_Atomic', ctext):
                    corr.count('spec-oracle:agree:text-has-atomic-pointer-declarator')
                if catomic != atomic_lv:
                    corr.disagreements.append({'kind': f'specification (Spec/C16QualSpec.lean) and {who} differ on whether the updated lvalue is atomic',
                                               'input': ctext, 'spec': spec, who: 'atomic instruction in f' if catomic else 'no atomic instruction in f', 'case': case})
                    if keep_going and len(corr.disagreements) < 6:
                        continue
                    return
        # specification vs implementation (the property itself)
        if atomic_lv and not rpath.startswith('cas:'):
            corr.violations.append({'what': 'an lvalue of _Atomic type is updated by a plain load-operate-store sequence, not by the compare-and-swap loop',
                                    'input': ctext, 'expected': 'the compare-and-swap loop (one lock cmpxchg) or a diagnostic',
                                    'got': f'update node shape `{rpath}`, {ncas} lock cmpxchg in the assembly', 'case': case})
            return
        if atomic_lv and ':rmw' in spec and (rpath != 'cas:' + spec.split(':rmw')[1] or ncas != 1):
            corr.violations.append({'what': 'the compare-and-swap loop of an _Atomic lvalue has not the width of the object (or is not one lock cmpxchg)',
                                    'input': ctext, 'expected': 'cas:' + spec.split(':rmw')[1] + ', one lock cmpxchg', 'got': f'{rpath}, {ncas} lock cmpxchg', 'case': case})
            return
        # model vs implementation (the tie)
        if rf.get('types') != f['types'] or rpath != mpath:
            corr.disagreements.append({'kind': '_Atomic propagation: model and real parser differ', 'input': ctext,
                                       'model': f"types={f['types']} path={mpath}", 'chibicc': f"types={rf.get('types')} path={rpath}", 'case': case})
            if keep_going and len(corr.disagreements) < 6:
                continue
            return
        if (rpath.startswith('cas:')) != (ncas == 1) or (not rpath.startswith('cas:') and ncas != 0):
            corr.disagreements.append({'kind': 'update node shape and number of lock cmpxchg in the assembly do not agree', 'input': ctext,
                                       'shape': rpath, 'lock_cmpxchg': ncas, 'case': case})
            if keep_going and len(corr.disagreements) < 6:
                continue
            return
    if todo:
        case, f = todo[0][0], todo[0][1]
        corr.sample({'qualifier': f['C'], 'model=chibicc': f"types={f['types']} path={f['path']}", 'spec': f.get('spec')})

# ------------------------------------------------------------------------------------------------ corpus (past failures, replayed first)

def corpus(ctx, corr):
    d = os.path.join(VERIF, 'corpus', 'C16')
    if not os.path.isdir(d):
        return
    for fn in sorted(os.listdir(d)):
        if not fn.endswith('.c'):
            continue
        text = open(os.path.join(d, fn)).read()
        m = re.search(r'/\* expect:\n(.*?)\*/', text, re.S)
        want = [l.strip() for l in m.group(1).strip().splitlines()] if m else None
        kid = re.search(r'/\* known_id: (\S+) \*/', text)
        diag = re.search(r'/\* expect-diagnostic: (.*?) \*/', text)
        if diag:
            # the witness must be rejected at compile time with a located diagnostic (file:line: ... message), exit status 1
            path = os.path.join(ctx.scratch, 'corpus_' + fn)
            open(path, 'w').write(text)
            rc, o, e = sh([ctx.cc, '-I' + os.path.join(ctx.snapshot, 'include'), '-c', '-o', path + '.o', path], timeout=60)
            corr.evaluations += 1
            corr.count('corpus')
            corr.nontrivial.add('corpus:' + fn)
            if rc != 1 or diag.group(1) not in e or not re.search(re.escape(os.path.basename(path)) + r':\d+:', e):
                corr.violations.append({'what': 'corpus witness fails: ' + fn, 'input': fn, 'expected': 'exit 1 and a located diagnostic: ' + diag.group(1),
                                        'got': f'rc={rc} {e[-300:]}', 'program': text})
                return
            continue
        kind, rc, o, e = build_run(ctx, text, 'corpus_' + fn[:-2], 60)
        corr.evaluations += 1
        corr.count('corpus')
        corr.nontrivial.add('corpus:' + fn)
        got = [l.strip() for l in o.strip().splitlines()]
        bad = kind != 'run' or rc != 0 or (want is not None and got != want)
        if bad:
            v = {'what': 'corpus witness fails: ' + fn, 'input': fn, 'expected': want if want is not None else 'rc 0',
                 'got': got if kind == 'run' and rc == 0 else f'{kind} rc={rc} {"(killed: did not terminate)" if rc in (137, -9) else e[-300:]}', 'program': text}
            if kid:
                v['known_id'] = kid.group(1)
                corr.known_hits.append(kid.group(1))
            corr.violations.append(v)
            if not kid:
                return

# ------------------------------------------------------------------------------------------------ plugin entry points

def operand_once_program():
    """the right operand of an atomic `op=` (and the operand of fetch-style macros) is evaluated ONCE, before the
    read-modify-write starts (6.5.16.2p3).  Deterministic, single-threaded: the operand's own side effect stores to the atomic
    object, so an implementation that evaluates the operand inside its compare-exchange retry loop sees the exchange fail and
    evaluates it again - the call counter and the cursor tell."""
    src = ['#include <stdio.h>', '#include <stdatomic.h>']
    calls = []
    k = 0
    for tag in ('sc', 'us', 'in', 'ul'):
        if tag not in TY:
            continue
        _, cty, nbytes, kk, sg, cls = TY[tag]
        aty = aty_of(tag)
        for opn, op in (('add', '+='), ('xor', '^='), ('sub', '-='), ('or', '|=')):
            for form, operand in (('deref_call', '*touch{K}()'), ('call', 'val{K}()'), ('comma', '(touch{K}(), v{K})'), ('deref_comma', '*(val{K}(), &v{K})'),
                                  ('index_postinc', 'arr{K}[(touch{K}(), cur{K}++)]'), ('deref_postinc', '*(touch{K}(), pp{K}++)'),
                                  ('cond', '(touch{K}() ? v{K} : 0)'), ('cast_deref', '({CTY})*touch{K}()')):
                k += 1
                operand = operand.replace('{K}', str(k)).replace('{CTY}', cty)
                src.append(f'static {aty} A{k}; static {cty} v{k} = 3, arr{k}[4] = {{1, 2, 4, 8}}, *pp{k} = arr{k}; static int n{k}, cur{k};')
                src.append(f'static {cty} *touch{k}(void) {{ n{k}++; A{k} = 7; return &v{k}; }}')
                src.append(f'static {cty} val{k}(void) {{ n{k}++; A{k} = 7; return 3; }}')
                src.append(f'static void t{k}(void) {{ {cty} r = (A{k} {op} {operand}); '
                           f'printf("{tag}.{opn}.{form} calls %d cur %d pp %d obj %lld val %lld\\n", n{k}, cur{k}, (int)(pp{k} - arr{k}), (long long)A{k}, (long long)r); }}')
                calls.append(f't{k}();')
    src.append('int main(void) { ' + ' '.join(calls) + ' return 0; }')
    return '\n'.join(src) + '\n'

def operand_once(ctx, corr):
    text = operand_once_program()
    st = build_run(ctx, text, 'c16_once', 60)
    path = os.path.join(ctx.scratch, 'c16_once_gcc')
    open(path + '.c', 'w').write(text)
    rc, o, e = sh(['gcc', '-std=gnu11', '-w', '-O0', '-o', path, path + '.c', '-latomic'], timeout=120)
    if rc != 0:
        rc, o, e = sh(['gcc', '-std=gnu11', '-w', '-O0', '-o', path, path + '.c'], timeout=120)
    if rc != 0:
        corr.disagreements.append({'kind': 'oracle harness', 'what': 'gcc rejects the operand-once program', 'detail': e[-400:]})
        return
    want = sh([path], timeout=60)[1].splitlines()
    if st[0] != 'run' or st[1] != 0:
        corr.violations.append({'what': 'atomic op= with a side-effecting right operand: ' + ('chibicc rejects the program' if st[0] == 'compile' else f'{st[0]} rc={st[1]}'),
                                'input': text, 'expected': 'compiles and runs', 'got': (st[3] or st[2])[-400:], 'kind': 'operand-once'})
        return
    got = st[2].splitlines()
    for w, g in zip(want, got):
        corr.evaluations += 1
        corr.count('operand-once')
        corr.nontrivial.add('once:' + w.split()[0])
        if w != g:
            corr.violations.append({'what': 'the right operand of an atomic compound assignment is evaluated more than once (inside the retry loop) or the result differs',
                                    'input': text, 'expected': w, 'got': g, 'kind': 'operand-once'})
            return
    if len(want) != len(got):
        corr.violations.append({'what': 'operand-once program: different number of output lines', 'input': text, 'expected': f'{len(want)} lines', 'got': f'{len(got)} lines', 'kind': 'operand-once'})

def correspond(ctx, corr):
    corr.rule = ('(1) tie: for every operator (+= -= *= /= %= &= |= ^= <<= >>= ++x --x x++ x--) x type (signed/unsigned char, short, int, long, '
                 '_Bool, pointer, float, double) x storage (static, automatic, through a pointer, struct member, array element) and every stdatomic.h '
                 'macro (fetch_add/sub/or/xor/and [+_explicit], exchange, compare_exchange_strong/weak, load, store, init, flag_*) the lines chibicc -S '
                 'emits must equal the sequence rendered by the Lean model, and 42 declaration forms of _Atomic must emit the expected number of lock '
                 'cmpxchg.  (1b) every ND_CAS / ND_EXCH node of the typed AST of those programs (hooked build, -verif-dump-ast) passes the typing model, '
                 'satisfies the hypotheses of C16_cas_width (SizeWf on the whole type table, kind of cas_new) and Codegen.casArm/exchArm print the '
                 'interleaving model\'s lines.  (1c) operand-type family for __builtin_compare_and_swap (object type x expected type over 24 type '
                 'descriptions incl. long double, void, structs/unions of 1..12 bytes, arrays, non-pointers) and __builtin_atomic_exchange: accepted '
                 'exactly when the typing model accepts, same diagnostic text when rejected, never an internal error; when accepted, the widths of '
                 'the expected-value load, the lock cmpxchg and the failure write-back are read off the emitted registers and must all equal '
                 'sizeof(*addr) = sizeof(*old) (independent of the model).  (1d) _Atomic propagation: hand-written and generated parse trees '
                 '(typedef chains, _Atomic(T), typeof(type), typeof(expr), struct/union members incl. bit-fields and self-reference, arrays, '
                 'pointers - every `*` with a random list of const/volatile/restrict/__restrict/__restrict__/_Atomic, so atomic POINTERS at '
                 'every level: `int *_Atomic *q`, `int *_Atomic a[3]`, members, typedefs, parameters, `void (*_Atomic fp)(void)` -, '
                 'parameters, functions returning pointers, static/extern/_Thread_local/block-scope objects; lvalues built with * & . -> '
                 '[] + casts calls parentheses; all 14 update operators) are printed as C by the Lean driver, compiled by the hooked chibicc, and the '
                 'declared type of every object (every level, every is_atomic flag) and the shape of the update node (compare-and-swap loop with its '
                 'width / plain member / plain deref / plain inc-dec / diagnostic) must equal the model\'s; independently the specification '
                 '(Spec/C16QualSpec.lean run through the driver) decides whether the lvalue is atomic in C and then the real update node must be the '
                 'loop of the object\'s width with exactly one lock cmpxchg in the assembly, or a located diagnostic; the specification itself is validated against clang-14 on the same texts (where clang accepts, its code for f contains a lock-prefixed / xchg / __atomic instruction iff the specification says the lvalue is atomic).  (2) operator semantics: Op.fn == gcc '
                 '== snapshot on boundary+random operands.  (2b) operand evaluated once: right operands of atomic op= whose own side effect stores to the atomic object (calls, post-increments, comma, ?:) - call counter, cursor, object and value against gcc, deterministic and single-threaded.  (3) stress: N in 2..16 pthreads x 10^5 iterations per phase on static / automatic / heap / '
                 'member objects, released together by a start barrier; final object bits vs the linearizable prediction computed by the model '
                 '(drv_c16 fold); returned values of atomic_fetch_add/sub, x++, ++x must be pairwise distinct and cover [init, init+N*K); exchange '
                 'tokens must form a permutation chain; own-bit checks for fetch_or/and/xor and |= &=.  (4) two-thread ping-pong forcing a failed '
                 'compare-exchange: returned flags, written-back expected value and object vs the model run on the same schedule, and every byte '
                 'around the expected-value object (guard objects on both sides) must be untouched.  '
                 'non-trivial = distinct function/sequence pairs (tie), ND_CAS/ND_EXCH nodes, operand pairs of different sizes (typing), cases whose '
                 'lvalue is atomic in C (propagation), operand pairs without 0/1 (semantics), multi-thread phases (stress), forced-failure cases (ping-pong).')
    for leg in (corpus, atomic_sites, tie, casnodes, castypes, qualifier, opsem, operand_once, pingpong, stress):
        leg(ctx, corr)
        if corr.violations:
            return      # one concrete failing input is enough; the remaining legs would only repeat it (or hang on it)

def search(ctx, broken, corr):
    """tie or proof broken and the standard run saw no violation: stress the types whose sequences changed (all widths if unknown)
    under 16, 4 and 2 threads on every storage class, and force compare-exchange failures many more times"""
    tags = []
    for b in broken:
        w = b.get('what')
        fn = w.get('function', '') if isinstance(w, dict) else ''
        m = re.match(r'[fm]_(\w\w)_', fn)
        if m and m.group(1) in TY and m.group(1) not in tags:
            tags.append(m.group(1))
    if not tags:
        tags = ['uc', 'sh', 'in', 'ul', 'db']
    c2 = Corr()
    th = ctx.thorough
    try:
        ctx.thorough = True
        # typing / propagation legs at thorough size: their oracle halves (one width read off the registers; the C semantics of
        # the declarations) do not depend on the model that broke
        for leg in (lambda c, k: castypes(c, k, keep_going=True), lambda c, k: qualifier(c, k, keep_going=True), pingpong):
            try:
                leg(ctx, c2)
            except (ModelBuildFailure, RuntimeError):
                continue
            if c2.violations:
                return c2.violations[0]
    finally:
        ctx.thorough = th
    t0 = time.time()
    for nt in (16, 4, 2):
        for st in ('static', 'heap', 'member', 'auto'):
            for tag in tags[:5]:
                if time.time() - t0 > 420:
                    return None
                stress(ctx, c2, plan=[(tag, st, nt)])
                if c2.violations:
                    return c2.violations[0]
    return None

def replay(ctx, corr, path):
    payload = json.load(open(path))
    text = payload.get('program')
    if payload.get('case'):
        corr.extra['replay'] = 'declaration / lvalue case: re-running the _Atomic propagation leg on it'
        qualifier(ctx, corr, cases=[(payload['case'], None)])
        return
    if not text and 'compare_and_swap' in str(payload.get('input', '')) or 'atomic_exchange(p, 1)' in str(payload.get('input', '')):
        corr.extra['replay'] = 'operand-type case: re-running the typing leg'
        castypes(ctx, corr)
        return
    if not text:
        corr.extra['replay'] = 'replay file carries no program (tie or declaration-form failure): re-running the tie'
        tie(ctx, corr)
        return
    kind, rc, o, e = build_run(ctx, text, 'replay', 300)
    corr.evaluations = 1
    print('replay:', kind, 'rc', rc)
    print(o[-2000:])
    bad = kind != 'run' or rc != 0
    for line in o.splitlines():
        w = line.split()
        if len(w) == 6 and w[0] == 'R' and int(w[3]) != 0:
            bad = True
        m = re.search(r'clobbered=(\d+)', line)
        if m and int(m.group(1)) != 0:
            bad = True
    if bad:
        corr.violations.append({'what': payload.get('what', 'replayed program fails'), 'input': payload.get('input'), 'expected': payload.get('expected'),
                                'got': f'{kind} rc={rc}: {o[-300:]}', 'program': text})
    else:
        print('replay: program now terminates normally; compare its R lines with the expected value in the replay file:', payload.get('expected'))

MANIFEST = {
    'level_text': 'Lean 4 theorems over an interleaving model of the emitted instruction sequences (one step = one instruction of one thread; any '
                  'number of threads, any per-thread list of operations - retry loops with arbitrary update functions, compare-exchanges, exchanges, '
                  'loads, stores - all four widths, signed/unsigned/floating objects, any schedule): C16_linearizable (the object always holds the '
                  'sequential fold of the committed operations in the order of their successful lock cmpxchg / xchg; each operation commits at most '
                  'once and in program order; every reported result, including the previous value returned by atomic_fetch_* and exchange and the '
                  'flag / written-back expected value of compare-exchange, is the sequential one), C16_no_lost_update, C16_final_value_commutative '
                  'and C16_opassign_no_lost_update (terminated runs: the commits are a permutation of all operations; for += -= ++ -- *= &= |= ^= '
                  'as chibicc computes them at every width and signedness the final value is the initial value with every single update applied), '
                  'C16_cas_spec (a compare-exchange succeeds iff the object equals the expected value at the locked instruction, else stores the '
                  'observed value into the expected-value object; only the low w bits compare, whatever the upper register bits), C16_lockfree '
                  '(a failed attempt implies a commit of another thread since the last read) and C16_lockfree_progress (a thread in a retry loop '
                  'executes at most 30 instructions without some operation committing), C16_exchange.  Typing of the primitives (type.c ND_CAS / '
                  'ND_EXCH): C16_cas_accepts_iff, C16_cas_width, C16_cas_operands, C16_exch_width - every node the type checker accepts operates on '
                  'numeric or pointer objects of ONE width w in {1,2,4,8} = sizeof(*addr) = sizeof(*old), and the byte-exact code-generation model '
                  'prints for it exactly the interleaving model\'s sequence of that width (expected-value load, lock cmpxchg, failure write-back); '
                  'C16_plain_access_single (objects of those types are read and written by exactly one mov).  _Atomic propagation: C16_qualifier, '
                  'C16_qualifier_never_plain, C16_qualifier_accepts - for every declaration sequence and lvalue expression of the modelled syntax, '
                  'if the C semantics (C11 6.7.6/6.7.3/6.7.2.4/6.5.x, C23 typeof) makes the lvalue atomic, chibicc compiles every op=, ++, -- on '
                  'it to the compare-and-swap loop of the object\'s width or rejects it with a diagnostic (long double, struct, union), never to a '
                  'plain load-operate-store; this includes pointers made atomic by `_Atomic` in the qualifier list of their declarator '
                  '(C16_qualifier_atomic_pointer: 8-byte loop for every such declaration in every context; C16_declarator_tokens: the token-level '
                  'parser with its qualifier loop computes the C11 type of every declarator).  The sequences are tied to the compiler on every run by text equality with chibicc -S for every '
                  'operator x type x storage class and every stdatomic.h macro; the typing and propagation models by the typed AST dump of the '
                  'hooked build and the diagnostics on generated operand types and generated declarations; the trusted atomicity of lock cmpxchg / '
                  'xchg / aligned mov is validated by multi-thread stress, return-value uniqueness and forced-failure runs with guard bytes.',
    'level_note': 'Trusted: Lean kernel (axioms propext, Classical.choice, Quot.sound; audited each run); the CPU atomicity contract (Intel SDM vol. 3A '
                  '8.1/8.2) which is the model\'s step relation; the hand model of the instruction meanings, tied by assembly text equality '
                  '(testing) and by the stress/ping-pong runs; the loop body new = old op val is an arbitrary function in the general theorems and '
                  'Op.fn (validated against gcc and the snapshot) in C16_opassign_no_lost_update.  C16_qualifier is about parse trees (the C text is '
                  'printed from the tree by the driver and read by the real parser on every run) and about the author\'s reading of the standard in '
                  'Spec/C16QualSpec.lean; chibicc is more liberal than the standard in three places that do not affect the property (kernel-checked '
                  'in Findings/C16Types.lean: _Atomic on an array typedef is accepted and ignored for the elements; typeof of an atomic rvalue '
                  'keeps the flag; &array has pointer-to-element type).  Plain loads/stores of _Atomic struct/union/long double objects are not '
                  'single instructions and are outside the model (observation recorded in ASSUMPTIONS; every read-modify-write on them is a '
                  'diagnostic).  Memory-ordering effects of plain atomic_store/atomic_load beyond single-copy atomicity are outside the model.',
    'technique': 'Lean 4 invariant proof over a small-step interleaving semantics (all schedules, all n); simulation proof (mutual structural '
                 'induction over specifiers and expressions) between a model of chibicc\'s is_atomic bookkeeping and a C11 type semantics; bridge '
                 'lemmas from the byte-exact code-generation model to the interleaving model; assembly-text and typed-AST correspondence with the '
                 'real compiler; differential operator semantics against gcc; pthread stress with linearizability checks on final and returned values',
    'design_ref': 'DESIGN.md section 6, C16',
}
